import random, cmath, math
import numpy as np
def ode(y,r,mu,K,rho,g,w,G,l,static=False):
    y1,y2,y3,y4,y5,y6=y
    lp1=l+1; lm1=l-1; llp1=l*(l+1)
    lame=K-(2/3)*mu
    lame_2mu=lame+2*mu; inv=1/lame_2mu; ri=1/r
    two=2*mu*ri; dg=rho*g
    dyn=0 if static else -w*w*rho*r
    gt=4*math.pi*G*rho
    t13=2*y1-llp1*y3
    dy1=inv*(t13*-lame*ri+y2)
    dy2=ri*(y1*(dyn-2*dg)+y2*-2+y4*llp1+y5*rho*lp1+y6*-rho*r+dy1*2*lame+t13*(2*(lame+mu)*ri-dg))
    dy3=y1*-ri+y3*ri+y4*(1/mu)
    dy4=ri*(y1*(dg+two)+y3*(dyn-two)+y4*-3+y5*-rho+dy1*-lame+t13*-lame_2mu*ri)
    dy5=y1*gt+y5*-lp1*ri+y6
    dy6=ri*(y1*gt*lm1+y6*lm1+t13*gt)
    return [dy1,dy2,dy3,dy4,dy5,dy6]
def Hmu(y,dy1,r,mu,K,l):
    y1,y2,y3,y4=y[:4]; llp1=l*(l+1)
    t13=2*y1-llp1*y3
    return (4/3)*r*r/abs(K+(4/3)*mu)**2*abs(y2-((K-(2/3)*mu)/r)*t13)**2 + (-(4/3)*r*(dy1.conjugate()*t13).real+(1/3)*abs(t13)**2) + (llp1*r*r*abs(y4)**2/abs(mu)**2 + l*(l*l-1)*(l+2)*abs(y3)**2)
rows=[];rhs=[]
for t in range(6):
    rc=lambda: complex(random.uniform(-1,1),random.uniform(-1,1))
    y=[rc() for _ in range(6)]; r=random.uniform(.5,2); mu=complex(random.uniform(.5,2),random.uniform(.1,1)); K=random.uniform(1,3)
    rho=random.uniform(.5,2); g=random.uniform(.5,2); w=random.uniform(.1,1); G=random.uniform(.5,2); l=random.choice([2,3,4])
    dy=ode(y,r,mu,K,rho,g,w,G,l); llp1=l*(l+1)
    def dterm(i,j,coef):  # d/dr [ r^2 coef conj(yi) yj ]
        return 2*r*coef*y[i].conjugate()*y[j] + r*r*coef*(dy[i].conjugate()*y[j]+y[i].conjugate()*dy[j])
    rows.append([dterm(0,1,1).imag, dterm(2,3,llp1).imag, dterm(4,5,1/(4*math.pi*G)).imag])
    rhs.append(Hmu(y,dy[0],r,mu,K,l)*mu.imag)
A=np.array(rows); b=np.array(rhs)
x,res,rk,sv=np.linalg.lstsq(A,b,rcond=None)
print(x,res,rk)
