"""C13 probe: concolic provenance tracing through the real OOP classes (CPL world)."""
import numpy as np, warnings, sys, itertools
warnings.filterwarnings('ignore')
import TidalPy
from TidalPy.structures import build_world, build_from_world
from TidalPy.structures.orbit import PhysicsOrbit
import TidalPy.tides.methods.base as tbase
import TidalPy.tides.methods.global_approx as tga
import TidalPy.structures.orbit.base as obase
CNT=itertools.count()
class TF(float):
    def __new__(cls,v,term): o=float.__new__(cls,v); o.term=term; return o
class TD(dict):
    term=None
class TT(tuple):
    term=None
PROV={}; KEEP=[]
def term_of(x):
    t=getattr(x,'term',None)
    if t is not None: return t
    if id(x) in PROV: return PROV[id(x)]
    if isinstance(x,(int,float,bool,complex,str,type(None),np.floating,np.integer)): return ('c',repr(x))
    if isinstance(x,dict): return ('dict',tuple((repr(k),term_of(v)) for k,v in x.items()))
    if isinstance(x,(tuple,list)): return ('tup',tuple(term_of(v) for v in x))
    if callable(x): return ('fn',getattr(x,'__name__',repr(x)))
    return ('opaque',type(x).__name__)
def wrap_out(v,term):
    if isinstance(v,(float,np.floating)): return TF(float(v),term)
    if isinstance(v,dict): d=TD(v); d.term=term; return d
    if isinstance(v,tuple):
        t=TT(wrap_out(x,('proj',i,term)) for i,x in enumerate(v)); t.term=term; return t
    PROV[id(v)]=term; KEEP.append(v)
    return v
def traced(name,f):
    def g(*a,**k):
        term=('app',name,tuple(term_of(x) for x in a),tuple((kk,term_of(v)) for kk,v in sorted(k.items())))
        a2=[float(x) if isinstance(x,TF) else x for x in a]
        return wrap_out(f(*a2,**{kk:(float(v) if isinstance(v,TF) else v) for kk,v in k.items()}),term)
    g.__name__=name; return g
# patch leaf functions at import sites
_fmm=tbase.find_mode_manipulators
def fmm(*a,**k):
    ct,cm,ef,inf=_fmm(*a,**k)
    return traced('calculate_terms',ct),traced('collapse_modes',cm),traced('ecc_func',ef),traced('incl_func',inf)
tbase.find_mode_manipulators=fmm
tbase.calc_tidal_susceptibility=traced('suscept',tbase.calc_tidal_susceptibility)
for nm in ('cpl_neg_imk_helper_func','ctl_neg_imk_helper_func'):
    if hasattr(tga,nm): setattr(tga,nm,traced(nm,getattr(tga,nm)))
for nm in ('rads2days','days2rads','orbital_motion2semi_a','semi_a2orbital_motion'):
    if hasattr(obase,nm): setattr(obase,nm,traced(nm,getattr(obase,nm)))
import TidalPy.structures.world_types.tidal as wtid, TidalPy.structures.world_types.basic as wbas
for m in (wtid,wbas):
    for nm in ('rads2days','days2rads'):
        if hasattr(m,nm): setattr(m,nm,traced(nm,getattr(m,nm)))
star=build_world('55cnc'); world=build_world('earth_simple')
cfg={'force_spin_sync':False,'type':'simple_tidal','mass':5.972e24,'slices':100,
 "tides":{"model":"global_approx","fixed_q":125.0,"use_ctl":False,'eccentricity_truncation_lvl':2,'max_tidal_order_l':2,'obliquity_tides_on':False}}
def sym(name,v): return TF(v,('in',name))
def inputs_in(t,acc=None):
    acc=set() if acc is None else acc
    if isinstance(t,tuple):
        if len(t)==2 and t[0]=='in': acc.add(t[1])
        else:
            for x in t: inputs_in(x,acc)
    return acc
w=build_from_world(world,new_config=cfg); o=PhysicsOrbit(star,tidal_host=star,tidal_bodies=w)
w.set_state(orbital_period=sym('P#1',50.),eccentricity=sym('e#1',0.2),spin_period=sym('S#1',10.))
o.set_state(w,eccentricity=sym('e#2',0.05))
h=w.tidal_heating_global
print('hist  :',type(h).__name__, sorted(inputs_in(term_of(h))))
w2=build_from_world(world,new_config=cfg); o2=PhysicsOrbit(star,tidal_host=star,tidal_bodies=w2)
w2.set_state(orbital_period=sym('P#1',50.),eccentricity=sym('e#2',0.05),spin_period=sym('S#1',10.))
h2=w2.tidal_heating_global
print('fresh :',type(h2).__name__, sorted(inputs_in(term_of(h2))))
print('terms equal?',term_of(h)==term_of(h2),' values',float(h),float(h2))
def show(t,depth=0,maxd=4):
    if not isinstance(t,tuple): return repr(t)
    if depth>=maxd: return '...'
    if t and t[0]=='app': return f"{t[1]}(" + ', '.join(show(x,depth+1,maxd) for x in t[2]) + ")"
    if t and t[0]=='proj': return f"proj{t[1]}[{show(t[2],depth+1,maxd)}]"
    if t and t[0] in('c','in','fn','opaque'): return t[0]+':'+str(t[1])
    if t and t[0]=='dict': return 'dict{..}'
    return '('+', '.join(show(x,depth+1,maxd) for x in t)+')'
print(show(term_of(h),0,5)[:1500])
print('ecc type on orbit:',type(o.get_eccentricity(w)).__name__, type(w.eccentricity).__name__, type(w.orbital_frequency).__name__, type(w.spin_frequency).__name__)
