"""C07 probe: REAL models.pyx _implementation bodies (transliterated) vs published compliances; passivity."""
import re, ast, z3, time, sys
pre=open('p13.py').read()
exec(pre.split("# --- transliterate the diffeq")[0])
from fractions import Fraction as Fr
class Lit(ast.NodeTransformer):
    def __init__(s,src): s.src=src
    def visit_Constant(s,n):
        if isinstance(n.value,float):
            return ast.copy_location(ast.Call(func=ast.Name(id='_L',ctx=ast.Load()),args=[ast.Constant(ast.get_source_segment(s.src,n))],keywords=[]),n)
        return n
src=open('/repo/TidalPy/rheology/models.pyx').read()
CT=r'(?:double complex|double)'
class Guard(Exception): pass
def load_impl(cls):
    body=src[src.index(f'cdef class {cls}('):]
    nxt=body.find('\ncdef class ',10); body=body[:nxt] if nxt>0 else body
    i=body.index('cdef double complex _implementation('); j=body.index(') noexcept nogil:',i)
    fn=body[j+len(') noexcept nogil:'):]
    lines=[]
    for ln in fn.split('\n'):
        m=re.match(r'^(\s*)cdef\s+'+CT+r'\s+(.*)$',ln)
        if m: lines.append(m.group(1)+m.group(2)); continue
        lines.append(ln)
    code='def impl(self, frequency, modulus, viscosity):'+'\n'.join(lines)
    t=Lit(code).visit(ast.parse(code)); ast.fix_missing_locations(t)
    ns={'_L':lambda t: Fr(t),'fabs':lambda x:x,'isinf':lambda x: False,'INFINITY':None,'MIN_FREQUENCY':Fr('1e-17'),'MAX_FREQUENCY':Fr('1e8'),'MIN_MODULUS':Fr('1e-3'),
        'cf_build_dblcmplx':lambda a,b: Q.of(a)+Q(0,1)*Q.of(b)}
    exec(compile(t,cls,'exec'),ns); return ns['impl']
# main-path only: comparisons of Q with constants -> assume guards inactive (record)
ASSUME=[]
def lt(a,b): ASSUME.append(('not',a,'<',b)); return False
def gt(a,b): ASSUME.append(('not',a,'>',b)); return False
Q.__lt__=lt; Q.__gt__=gt
w,mu,eta,cm,cv,A,F,c,s_,zeta=z3.Reals('w mu eta cm cv A F c s zeta')
pos=[w>0,mu>0,eta>0,cm>0,cv>0,A>0,F>0,c>0,s_>0,c*c+s_*s_==1,zeta>0]
class Self: pass
S=Self(); S.voigt_modulus_scale=Q(cm); S.voigt_viscosity_scale=Q(cv); S.alpha=None; S.zeta=Q(zeta); S.alpha_factorial=Q(F); S.sine_term=Q(c,-s_)
# pow atom: (maxwell_parm*zeta)**alpha -> A   (single atom in these kernels)
_qpow=Q.__pow__
def qpow(x,n):
    if n is None: return Q(A)
    return _qpow(x,n)
Q.__pow__=qpow
inv=lambda x: Q(1)/x
J_max=inv(Q(mu))+Q(0,-1)/(Q(eta)*w)
J_vk=inv(Q(cm)*mu+Q(0,1)*w*(Q(cv)*eta))
J_and=Q(F)/(Q(mu)*A)*Q(c,-s_)
pub={'Maxwell':J_max,'Voigt':J_vk,'Burgers':J_max+J_vk,'Andrade':J_max+J_and,'SundbergCooper':J_max+J_vk+J_and}
for cls,J in pub.items():
    M=load_impl(cls)(S,Q(w),Q(mu),Q(eta)); P=M*J
    goals=[('M*J=1',z3.And(P.re==P.d,P.im==0)),('Re>=0',M.re*M.d>=0),('Im>=0',M.im*M.d>=0)]
    if cls!='Voigt': goals.append(('|M|<=mu',M.re*M.re+M.im*M.im<=mu*mu*M.d*M.d))
    out=[]
    for name,gl in goals:
        so=z3.Solver(); so.set('timeout',120000); so.add(pos); so.add(z3.Not(gl))
        t=time.time(); r=so.check(); out.append(f'{name}:{r}({round(time.time()-t,2)}s)')
    print(cls,' '.join(out),flush=True)
