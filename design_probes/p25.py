"""C19 probe: real convection()/conduction(): positivity, monotonicity in dT and viscosity, convection >= conduction. pow atoms."""
import z3, time, ast, sys
exec(open('p15.py').read().split("hen=load2(")[0])     # mini + comparisons + exp atoms + load2
POW={}
_rpow=R.__pow__
def rpow(a,n):
    if isinstance(n,R) and n.kind!='const':
        key=(z3.simplify(a.num).sexpr(),z3.simplify(a.d()).sexpr(),z3.simplify(n.num).sexpr())
        if key not in POW:
            v=z3.Real(f'P{len(POW)}'); POW[key]=(v,a,n)
        return R(POW[key][0])
    return _rpow(a,n)
R.__pow__=rpow
def pow_axioms():
    ax=[]; items=list(POW.values())
    for i,(v,a,n) in enumerate(items):
        an=a.num*a.d()
        ax+= [z3.Implies(an>0,v>0), z3.Implies(an==0,v==0), z3.Implies(z3.And(an>=1*a.d()*a.d(),n.num>0),v>=1), z3.Implies(z3.And(an>0,an<=a.d()*a.d(),n.num>0),v<=1)]
        for (w,b,m) in items[i+1:]:
            if z3.eq(z3.simplify(n.num),z3.simplify(m.num)):
                d=a-b; dn=d.num*d.d()
                ax+=[z3.Implies(z3.And(dn<=0,n.num>0,b.num*b.d()>=0,an>=0),v<=w), z3.Implies(z3.And(dn>=0,n.num>0,b.num*b.d()>=0,an>=0),v>=w), z3.Implies(dn==0,v==w)]
    return ax
eps=Fr(2)**-52
conv=load2('/repo/TidalPy/cooling/cooling_models.py','convection',{'np':NP,'float_eps':eps,'MIN_VISCOSITY':Fr(1),'MIN_THICKNESS':Fr(50)})
cond=load2('/repo/TidalPy/cooling/cooling_models.py','conduction',{'np':NP,'float_eps':eps})
k,kap,alp,L,g,rho,ca,cb,Rac=[sym(n) for n in ('k','kap','alp','L','g','rho','ca','cb','Rac')]
dT1,dT2,eta1,eta2=[sym(n) for n in ('dT1','dT2','eta1','eta2')]
def C(dT,eta): return conv(dT,eta,k,kap,alp,L,g,rho,ca,cb,Rac)
base=[x.num>0 for x in (k,kap,alp,L,g,rho,ca,cb,Rac,dT1,dT2,eta1,eta2)]
def q(name,goal,extra=[]):
    so=z3.Solver(); so.set('timeout',120000); so.add(base+mini.AX+exp_axioms()+pow_axioms()+extra); so.add(z3.Not(goal))
    t=time.time(); r=so.check()
    info=''
    if str(r)=='sat':
        m=so.model(); info={d.name():m[d] for d in m.decls() if d.name() in ('dT1','dT2','L','eta1','eta2','ca','cb','Rac','P0','P1')}
    print(name,r,round(time.time()-t,2),info,flush=True)
f1=C(dT1,eta1)[0]; f2=C(dT2,eta1)[0]; f3=C(dT1,eta2)[0]; fc=cond(dT1,k,L)[0]
pos=lambda x: x.num*x.d()
q('conv flux > 0', pos(f1)>0)
q('conv non-decreasing in dT (all dT>0)', pos(f2-f1)>=0, [dT1.num<=dT2.num])
q('conv non-decreasing in dT (dT>eps)', pos(f2-f1)>=0, [dT1.num<=dT2.num, dT1.num>RV(eps)])
q('conv non-increasing in viscosity', pos(f1-f3)>=0, [eta1.num<=eta2.num])
q('conv >= cond', pos(f1-fc)>=0)
q('conv >= cond (dT>eps, L>1)', pos(f1-fc)>=0,[dT1.num>RV(eps),L.num>1])
q('cond flux >0 & monotone', z3.And(pos(fc)>0, pos(cond(dT2,k,L)[0]-fc)>=0),[dT1.num<=dT2.num])
