"""Prototype Cython->Python transliterator for leaf kernels (enough for odes.pyx diffeq and rheology models)."""
import re, ast, textwrap
CTYPES=r'(?:unsigned\s+)?(?:double complex|double|float|int|long|char|size_t|ssize_t|Py_ssize_t|bint|unsigned char|unsigned int)'
def translit(src):
    out=[]
    lines=src.split('\n'); i=0
    # join continued signature lines is not needed: we handle def/cdef headers by regex over joined text later
    text='\n'.join(lines)
    # function headers: cdef <ret> name(args) [noexcept] [nogil]:
    def hdr(m):
        indent,name,args=m.group(1),m.group(2),m.group(3)
        args=re.sub(r'\s+',' ',args)
        names=[]
        for a in [x.strip() for x in args.split(',') if x.strip()]:
            a=a.split('=')[0].strip() if '=' in a and not a.startswith('self') else a
            default=None
            nm=re.split(r'[\s\*&]+',a)[-1]
            names.append(nm)
        return f"{indent}def {name}({', '.join(names)}):"
    text=re.sub(r'^([ \t]*)cdef\s+(?:inline\s+)?[\w \*]+?\s+\**(\w+)\s*\(([^)]*)\)\s*(?:noexcept)?\s*(?:nogil)?\s*:',hdr,text,flags=re.M)
    text=re.sub(r'^([ \t]*)cdef class (\w+)\((\w+)\):',r'\1class \2(\3):',text,flags=re.M)
    res=[]
    for ln in text.split('\n'):
        s=ln.strip()
        if s.startswith(('from ','import ','cimport ','# ')) and ('cimport' in s): continue
        m=re.match(r'^([ \t]*)cdef\s+'+CTYPES+r'\s*\**\s*(.*)$',ln)
        if m:
            indent,rest=m.group(1),m.group(2)
            if '=' in rest and not re.match(r'^[\w\s,\[\]]+$',rest.split('=')[0]) is None and '==' not in rest.split('=')[0]:
                # declaration with initialiser
                res.append(indent+rest.strip()); continue
            else:
                continue  # pure declaration
        ln=re.sub(r'<\s*'+CTYPES+r'\s*\**\s*>','',ln)
        res.append(ln)
    return '\n'.join(res)
if __name__=='__main__':
    import sys
    print(translit(open(sys.argv[1]).read())[:6000])
