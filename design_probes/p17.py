"""C06 probe: transliterate cf_radial_solver enough to parse with ast; list tracked statements (scale/restore/alloc/free/raise/try)."""
import re, ast
src=open('/repo/TidalPy/RadialSolver/solver.pyx').read()
start=src.index('cdef RadialSolverSolution cf_radial_solver('); end=src.index('\ndef radial_solver(')
fn=src[start:end]
# header
hdr_end=fn.index('):\n')+3
body=fn[hdr_end:]
CT=r'(?:unsigned\s+)?(?:double complex|double|float|int|long|char|size_t|ssize_t|Py_ssize_t|bint|unsigned char|unsigned int|str|tuple|RadialSolverBase|RadialSolverSolution)'
out=[]
for ln in body.split('\n'):
    m=re.match(r'^(\s*)cdef\s+'+CT+r'\s*(\*+)?\s*(.*)$',ln)
    if m:
        ind,stars,rest=m.groups()
        rest=rest.strip()
        am=re.match(r'^\[(\d+)\]\s+(\w+)$',rest)       # cdef double[15] name
        if am: out.append(f'{ind}{am.group(2)} = Arr({am.group(1)})'); continue
        if '=' in rest: out.append(ind+rest.lstrip('* ')); continue
        continue
    out.append(ln)
code='\n'.join(out)
code=re.sub(r'<[^<>=]*?>\s*(?=[\w\(&])','',code)            # casts
code=re.sub(r'&(\w+)\[([^\]]+)\]',r'Ptr(\1, \2)',code)        # &a[i]
code=re.sub(r'&(\w+)',r'Ref("\1")',code)                       # &x
code=re.sub(r'sizeof\([^)]*\)','1',code)
code='def cf_radial_solver(**kw):\n'+code
try:
    tree=ast.parse(code)
except SyntaxError as e:
    print('SyntaxError line',e.lineno,e.msg); print('\n'.join(code.split('\n')[e.lineno-3:e.lineno+2])); raise SystemExit
f=tree.body[0]
tracked=('cf_non_dimensionalize_physicals','cf_redimensionalize_physicals','allocate_mem','PyMem_Free')
class V(ast.NodeVisitor):
    def __init__(s): s.depth=[]; s.rows=[]
    def visit_Try(s,n):
        s.rows.append((n.lineno,'TRY-begin')); s.depth.append('try')
        for b in n.body: s.visit(b)
        s.depth.pop(); s.rows.append((n.finalbody[0].lineno if n.finalbody else n.lineno,'FINALLY-begin')); s.depth.append('finally')
        for b in n.finalbody: s.visit(b)
        s.depth.pop(); s.rows.append((n.end_lineno,'TRY-end'))
    def visit_Raise(s,n): s.rows.append((n.lineno,'raise '+ast.unparse(n.exc)[:50]+'   ctx='+'/'.join(s.depth)))
    def visit_Call(s,n):
        nm=ast.unparse(n.func)
        if nm in tracked: s.rows.append((n.lineno,nm+'   ctx='+'/'.join(s.depth)))
        s.generic_visit(n)
v=V(); v.visit(f)
for r in sorted(v.rows): print(r)
