import z3, time, sys, itertools
from rat2 import Q
from p4b import ode, conj
# NOTE p4 executes its query on import (fast)
l=int(sys.argv[1]) if len(sys.argv)>1 else 2
mode=sys.argv[2] if len(sys.argv)>2 else 'third'
r,rho,K,mur,mui,w2,gam=z3.Reals('r rho K mur mui w2 gam')   # gam = 4 pi G rho/3 ; G4pi = 3 gam / rho
Sr,Si,Zr,Zi,k2r,k2i=z3.Reals('Sr Si Zr Zi k2r k2i')
mu=Q(mur,mui); beta2=mu/rho
k2=Q(k2r,k2i)
l_=int(sys.argv[1])
alpha2=((Q(l_*(l_+1))*gam*gam)/(beta2*k2-w2)+w2+4*Q(gam))/k2
lame=alpha2*rho-2*mu
ri=Q(1)/r; r2i=ri*ri; r2=Q(r)*r
lp1=l+1; dlp1=2*l+1; llp1=l*lp1
qp=(Q(w2)/beta2)+((Q(w2)+4*Q(gam))/alpha2)
qn=(Q(w2)/beta2)-((Q(w2)+4*Q(gam))/alpha2)
quad=qn*qn+(Q(4*l*(l+1))*gam*gam)/(alpha2*beta2)
S=Q(Sr,Si)
f=(beta2*k2-w2)/gam
h=f-lp1
Z=Q(Zr,Zi)
def sol_k(k2,f,h,Z):
    y1=-f*Z*ri
    y2=-Q(rho)*f*alpha2*k2+(2*mu*r2i)*(2*f+llp1)*Z
    y3=Z*ri
    y4=mu*k2-(2*mu*r2i)*(f+1)*Z
    y5=3*Q(gam)*f-h*(Q(l)*gam-w2)
    y6=Q(dlp1)*y5*ri
    return [y1,y2,y3,y4,y5,y6]
def sol3():
    y1=Q(l)*ri; y2=2*mu*(l*(l-1))*r2i; y3=ri; y4=2*mu*(l-1)*r2i; y5=Q(l)*gam-w2
    y6=Q(dlp1)*y5*ri-(Q(3*l)*gam*ri)
    return [y1,y2,y3,y4,y5,y6]
# symbolic derivative wrt r : implement on Q via dual numbers: value + eps*deriv
class D:
    def __init__(s,v,d): s.v=Q.of(v); s.d=Q.of(d)
    @staticmethod
    def of(x): return x if isinstance(x,D) else D(x,0)
    def __add__(s,o): o=D.of(o); return D(s.v+o.v,s.d+o.d)
    __radd__=__add__
    def __neg__(s): return D(-s.v,-s.d)
    def __sub__(s,o): return s+(-D.of(o))
    def __rsub__(s,o): return D.of(o)+(-s)
    def __mul__(s,o): o=D.of(o); return D(s.v*o.v, s.v*o.d+s.d*o.v)
    __rmul__=__mul__
    def __truediv__(s,o):
        o=D.of(o); return D(s.v/o.v, (s.d*o.v-s.v*o.d)/(o.v*o.v))
    def __rtruediv__(s,o): return D.of(o)/s
# redo with duals
rD=D(r,1); riD=1/rD; r2iD=riD*riD
x2=k2*r2   # argument of z
# dZ/dr = (x2 + Z^2 - (2l+1) Z)/(2 x2) * d(x2)/dr ; d(x2)/dr = 2 k2 r
dZ=(x2+Z*Z-Q(dlp1)*Z)/(2*x2)*(2*k2*r)
ZD=D(Z,dZ)
def solD_k():
    fD=D(f,0); hD=D(h,0); k2D=D(k2,0); muD=D(mu,0)
    y1=-fD*ZD*riD
    y2=-D(rho,0)*fD*D(alpha2,0)*k2D+(2*muD*r2iD)*(2*fD+llp1)*ZD
    y3=ZD*riD
    y4=muD*k2D-(2*muD*r2iD)*(fD+1)*ZD
    y5=D(3*Q(gam)*f-h*(Q(l)*gam-w2),0)
    y6=dlp1*y5*riD
    return [y1,y2,y3,y4,y5,y6]
def solD_3():
    muD=D(mu,0)
    y1=l*riD; y2=2*muD*(l*(l-1))*r2iD; y3=riD; y4=2*muD*(l-1)*r2iD; y5=D(Q(l)*gam-w2,0)
    y6=dlp1*y5*riD-(D(Q(3*l)*gam,0)*riD)
    return [y1,y2,y3,y4,y5,y6]
sD = solD_3() if mode=='third' else solD_k()
s=[a.v for a in sD]; ds=[a.d for a in sD]
g=Q(gam)*r      # gravity in homogeneous sphere
G4pi=Q(3)*gam/rho
# ode from p4 takes w (frequency) and uses w*w ; pass through by hack: build dyn with w2 directly
import p4b
def ode2(y):
    y1,y2,y3,y4,y5,y6=y
    lm1=l-1
    lame_2mu=lame+2*mu; inv=Q(1)/lame_2mu
    two=2*mu*ri; dg=Q(rho)*g
    dyn=Q(-1)*w2*rho*r
    gt=G4pi*rho
    t13=2*y1-llp1*y3
    dy1=inv*(t13*(-lame)*ri+y2)
    dy2=ri*(y1*(dyn-2*dg)+y2*-2+y4*llp1+y5*rho*lp1+y6*(-Q(rho))*r+dy1*2*lame+t13*(2*(lame+mu)*ri-dg))
    dy3=y1*(-ri)+y3*ri+y4*(Q(1)/mu)
    dy4=ri*(y1*(dg+two)+y3*(dyn-two)+y4*-3+y5*(-Q(rho))+dy1*(-lame)+t13*(-lame_2mu)*ri)
    dy5=y1*gt+y5*(-lp1)*ri+y6
    dy6=ri*(y1*gt*lm1+y6*lm1+t13*gt)
    return [dy1,dy2,dy3,dy4,dy5,dy6]

s3=[a.v for a in solD_3()]
As=ode2(s)
res=[ds[i]-As[i] for i in range(6)]
base=[r>0,rho>0,mur>0,mui>=0,w2>=0,gam>0]
import itertools
rows=(2,4)
def det3(M):
    return M[0][0]*(M[1][1]*M[2][2]-M[1][2]*M[2][1])-M[0][1]*(M[1][0]*M[2][2]-M[1][2]*M[2][0])+M[0][2]*(M[1][0]*M[2][1]-M[1][1]*M[2][0])
tot=0
for i in (0,1,3,5):
    M=[[s[a],s3[a],res[a]] for a in (rows[0],rows[1],i)]
    t0=time.time(); m=det3(M); tb=time.time()-t0
    sol=z3.Solver(); sol.set('timeout',300000); sol.add(base)
    sol.add(z3.Or(m.re!=0,m.im!=0))
    t=time.time(); rr=sol.check(); dt=time.time()-t; tot+=dt
    print(i,rr,'build',round(tb,2),'solve',round(dt,2),flush=True)
print('total',round(tot,1))
