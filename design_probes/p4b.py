import z3, time, sys
from rat2 import Q
from fractions import Fraction as Fr
def conj(q): return Q(q.re,-q.im,q.den)
def abs2(q): return q*conj(q)
def real(q): return Q(q.re,0,q.den)
def imag(q): return Q(q.im,0,q.den)
def ode(y,r,mu,K,rho,g,w,G4pi,l,static=False):
    y1,y2,y3,y4,y5,y6=y
    lp1=l+1; lm1=l-1; llp1=l*(l+1)
    lame=Q(K)-mu*Q(z3.RealVal(2)/3)
    lame_2mu=lame+2*mu; inv=Q(1)/lame_2mu; ri=Q(1)/r
    two=2*mu*ri; dg=Q(rho)*g
    dyn=Q(0) if static else Q(-1)*w*w*rho*r
    gt=Q(G4pi)*rho
    t13=2*y1-llp1*y3
    dy1=inv*(t13*(-lame)*ri+y2)
    dy2=ri*(y1*(dyn-2*dg)+y2*-2+y4*llp1+y5*rho*lp1+y6*(-Q(rho))*r+dy1*2*lame+t13*(2*(lame+mu)*ri-dg))
    dy3=y1*(-ri)+y3*ri+y4*(Q(1)/mu)
    dy4=ri*(y1*(dg+two)+y3*(dyn-two)+y4*-3+y5*(-Q(rho))+dy1*(-lame)+t13*(-lame_2mu)*ri)
    dy5=y1*gt+y5*(-lp1)*ri+y6
    dy6=ri*(y1*gt*lm1+y6*lm1+t13*gt)
    return [dy1,dy2,dy3,dy4,dy5,dy6]
l=int(sys.argv[1]) if len(sys.argv)>1 else 2
yr=z3.Reals('y1r y2r y3r y4r y5r y6r'); yi=z3.Reals('y1i y2i y3i y4i y5i y6i')
r,rho,g,w,G4pi,mur,mui,K=z3.Reals('r rho g w G4pi mur mui K')
y=[Q(a,b) for a,b in zip(yr,yi)]; mu=Q(mur,mui)
dy=ode(y,r,mu,K,rho,g,w,G4pi,l)
llp1=l*(l+1)
def dterm(i,j,coef):
    return Q(2)*r*coef*conj(y[i])*y[j] + Q(r)*r*coef*(conj(dy[i])*y[j]+conj(y[i])*dy[j])
lhs=imag(dterm(0,1,Q(1))+dterm(2,3,Q(llp1))+dterm(4,5,Q(1)/G4pi))
y1,y2,y3,y4=y[:4]; t13=2*y1-llp1*y3; third=Q(z3.RealVal(1)/3)
KQ=Q(K)
H=(4*third*r*r/abs2(KQ+4*third*mu)*abs2(y2-((KQ-2*third*mu)/r)*t13)) + (Q(-4)*third*r*real(conj(dy[0])*t13)+third*abs2(t13)) + (Q(llp1)*r*r*abs2(y4)/abs2(mu)+Q(l*(l*l-1)*(l+2))*abs2(y3))
rhs=H*mui
s=z3.Solver(); s.set('timeout',300000)
s.add(r>0,rho>0,g>0,w>0,G4pi>0,mur>0,mui>=0,K>0)
s.add(lhs.re*rhs.d != rhs.re*lhs.d)
t=time.time(); print(s.check(), round(time.time()-t,2))
