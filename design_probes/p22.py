"""C03 probe: non-dimensionalisation is a symmetry of the REAL ODE (odes.pyx) with the REAL scale factors (nondimensional.pyx)."""
import re, ast, z3, time, sys
exec(open('p19.py').read().split("class Self: pass")[0])     # Q patches, Lit, load_diffeq
nsrc=open('/repo/TidalPy/utilities/dimensions/nondimensional.pyx').read()
CT=r'(?:double complex|double|size_t|double_numeric)'
def load_c(name):
    i=nsrc.index(f'cdef void {name}('); j=nsrc.index(') noexcept nogil:',i)
    args=nsrc[i+len(f'cdef void {name}('):j]
    names=[re.split(r'[\s\*]+',a.split('=')[0].strip())[-1] for a in args.split(',') if a.strip()]
    rest=nsrc[j+len(') noexcept nogil:'):]
    k=re.search(r'\n(?=def |cdef )',rest); body=rest[:k.start()] if k else rest
    lines=[]
    for ln in body.split('\n'):
        m=re.match(r'^(\s*)cdef\s+'+CT+r'\s+(.*)$',ln)
        if m:
            if '=' in m.group(2): lines.append(m.group(1)+m.group(2))
            continue
        lines.append(ln)
    code=f"def {name}({', '.join(names)}):"+'\n'.join(lines)
    t=Lit(code).visit(ast.parse(code)); ast.fix_missing_locations(t)
    T=z3.Real('T')     # sqrt atom: T*T = second2_conversion
    ns={'_L':lambda t: Fr(t),'pi':Q(z3.Real('PI')),'G':Q(z3.Real('G')),'sqrt':lambda x: (SQ.append(x),Q(T))[1]}
    exec(compile(t,name,'exec'),ns); return ns[name]
SQ=[]
nd=load_c('cf_non_dimensionalize_physicals'); rd=load_c('cf_redimensionalize_radial_functions')
r,rho,g,w,mur,mui,K,Rp,rhob=z3.Reals('r rho g w mur mui K Rp rhob')
PI,G,T=z3.Real('PI'),z3.Real('G'),z3.Real('T')
ra,da,ga,ba,sa=[Q(r)],[Q(rho)],[Q(g)],[Q(K)],[Q(mur,mui)]
Rto,dto,fto,Gto=[None],[None],[None],[None]
nd(1,Q(w),Q(Rp),Q(rhob),ra,da,ga,ba,sa,Rto,dto,fto,Gto)
# scale factors S from redim applied to a vector of ones
ones=[Q(1)]*6
rd(ones,Q(Rp),Q(rhob),1,1); S=ones
class Self: pass
def rhs(cls,l,yv,rr,rho_,g_,K_,mu_,w_,G4pi_):
    f=load_diffeq(cls); Sx=Self(); Sx.t_now=rr; Sx.update_interp=lambda **k: None
    Sx.y_ptr=[c for v in yv for c in (v.real,v.imag)]; Sx.dy_ptr=[None]*12
    Sx.shear_modulus=mu_; Sx.bulk_modulus=K_; Sx.density=rho_; Sx.gravity=g_; Sx.frequency_to_use=w_; Sx.grav_coeff=G4pi_
    Sx.llp1=Fr(l*(l+1)); Sx.lp1=Fr(l+1); Sx.lm1=Fr(l-1)
    f(Sx); return [Sx.dy_ptr[2*i]+Q(0,1)*Sx.dy_ptr[2*i+1] for i in range(6)]
l=int(sys.argv[1]) if len(sys.argv)>1 else 2
yn=[Q(*z3.Reals(f'y{i}r y{i}i')) for i in range(6)]       # non-dimensional y
ydim=[S[i]*yn[i] for i in range(6)]
four=Q(4)*Q(PI)
for cls in ('SolidDynamicCompressible','SolidStaticCompressible','SolidDynamicIncompressible','SolidStaticIncompressible'):
    f_nd=rhs(cls,l,yn,ra[0],da[0],ga[0],ba[0],sa[0],fto[0],four*Gto[0])
    f_dim=rhs(cls,l,ydim,Q(r),Q(rho),Q(g),Q(K),Q(mur,mui),Q(w),four*Q(G))
    ok=[]
    for i in range(6):
        d=f_dim[i]*Q(Rp)-S[i]*f_nd[i]          # d/dr_dim = (1/L) d/dr_nd
        so=z3.Solver(); so.set('timeout',120000)
        so.add(r>0,rho>0,g>0,mur>0,K>0,Rp>0,rhob>0,PI>3,G>0,T>0)
        sq=SQ[0]; so.add(T*T*sq.d==sq.re)      # T^2 = 1/(pi G rhob)
        so.add(z3.Or(d.re!=0,d.im!=0))
        t=time.time(); ok.append(f'{so.check()}({round(time.time()-t,2)})')
    print(cls,ok,flush=True)
