"""C03 probe: bilinear (reciprocity) invariant dB/dr = 0 for two solutions of the REAL odes.pyx classes."""
import re, ast, z3, time, sys
pre=open('p13.py').read()
exec(pre.split("# --- transliterate the diffeq")[0])
from fractions import Fraction as Fr
class Lit(ast.NodeTransformer):
    def __init__(s,src): s.src=src
    def visit_Constant(s,n):
        if isinstance(n.value,float):
            return ast.copy_location(ast.Call(func=ast.Name(id='_L',ctx=ast.Load()),args=[ast.Constant(ast.get_source_segment(s.src,n))],keywords=[]),n)
        return n
src=open('/repo/TidalPy/RadialSolver/derivatives/odes.pyx').read()
def load_diffeq(cls):
    body=src[src.index(f'cdef class {cls}('):]
    nxt=body.find('\ncdef class ',10); body=body[:nxt] if nxt>0 else body
    m=re.search(r'cdef void diffeq\(self\) noexcept nogil:\n',body); fn=body[m.end():]
    fn=fn.split('\ncdef RadialSolverBase cf_build_solver')[0]
    lines=[re.sub(r'<\s*double complex\s*>','',ln) for ln in fn.split('\n') if not ln.strip().startswith('cdef ')]
    code='def diffeq(self):\n'+'\n'.join(lines)
    t=Lit(code).visit(ast.parse(code)); ast.fix_missing_locations(t)
    ns={'_L':lambda t: Fr(t)}; exec(compile(t,cls,'exec'),ns); return ns['diffeq']
class Self: pass
def run(cls,l,ny):
    f=load_diffeq(cls)
    r,rho,g,w,G4pi,mur,mui,K=z3.Reals('r rho g w G4pi mur mui K')
    def mk(tag):
        S=Self(); S.t_now=Q(r); S.update_interp=lambda **k: None
        vs=[z3.Real(f'{tag}{i}') for i in range(2*ny)]
        S.y_ptr=[Q(v) for v in vs]; S.dy_ptr=[None]*(2*ny)
        S.shear_modulus=Q(mur,mui); S.bulk_modulus=Q(K); S.density=Q(rho); S.gravity=Q(g); S.frequency_to_use=Q(w); S.grav_coeff=Q(G4pi)
        S.llp1=Fr(l*(l+1)); S.lp1=Fr(l+1); S.lm1=Fr(l-1)
        f(S)
        y=[Q(vs[2*i],vs[2*i+1]) for i in range(ny)]; dy=[S.dy_ptr[2*i]+Q(0,1)*S.dy_ptr[2*i+1] for i in range(ny)]
        return y,dy
    y,dy=mk('a'); z,dz=mk('b')
    llp1=l*(l+1)
    def d(i,j,coef):   # d/dr[ r^2 coef (y_i z_j - z_i y_j) ]
        return Q(2)*r*coef*(y[i]*z[j]-z[i]*y[j]) + Q(r)*r*coef*(dy[i]*z[j]+y[i]*dz[j]-dz[i]*y[j]-z[i]*dy[j])
    if ny==6: dB=d(0,1,Q(1))+d(2,3,Q(llp1))+d(4,5,Q(1)/G4pi)
    so=z3.Solver(); so.set('timeout',120000); so.add(r>0,rho>0,g>0,G4pi>0,mur>0,K>0)
    so.add(z3.Or(dB.re!=0,dB.im!=0))
    t=time.time(); print(cls,'l',l,so.check(),round(time.time()-t,2))
for cls in ('SolidDynamicCompressible','SolidStaticCompressible','SolidDynamicIncompressible','SolidStaticIncompressible'):
    run(cls,int(sys.argv[1]) if len(sys.argv)>1 else 2,6)
