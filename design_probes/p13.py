"""End-to-end: real odes.pyx diffeq (transliterated) + real sensitivity.py kernel -> C05 pointwise identity."""
import re, ast, z3, time, sys, textwrap
from rat2 import Q
import rat2
# --- make Q usable by real code: python complex coercion, .real/.imag, abs, pow
_of=Q.of
def of(x):
    if isinstance(x,Q): return x
    if isinstance(x,complex): return Q(z3.RealVal(repr(x.real)) if x.real else 0, z3.RealVal(repr(x.imag)) if x.imag else 0)
    from fractions import Fraction as Fr
    if isinstance(x,Fr): return Q(z3.RealVal(str(x.numerator))/z3.RealVal(str(x.denominator)) if x.denominator!=1 else z3.RealVal(str(x.numerator)))
    if isinstance(x,float):
        f=Fr(x); return Q(z3.RealVal(str(f.numerator))/z3.RealVal(str(f.denominator)) if f.denominator!=1 else z3.RealVal(str(f.numerator)))
    return Q(x)
Q.of=staticmethod(of)
Q.real=property(lambda s: Q(s.re,0,s.den)); Q.imag=property(lambda s: Q(s.im,0,s.den))
def qpow(s,n):
    n=int(n); r=Q(1)
    for _ in range(abs(n)): r=r*s
    return r if n>=0 else r.inv()
Q.__pow__=qpow
class NP:
    float64=float; complex128=complex; nan=None
    @staticmethod
    def real(x): return Q.of(x).real
    @staticmethod
    def imag(x): return Q.of(x).imag
    @staticmethod
    def abs(x):
        class A:   # abs only ever used squared in the kernel: return marker supporting **2
            def __init__(s,q): s.q=q
            def __pow__(s,n): assert n==2; q=s.q; return q*Q(q.re,-q.im,q.den)
        return A(Q.of(x))
    @staticmethod
    def empty(n,dtype=None): return [None]*n
# --- transliterate the diffeq of one class
src=open('/repo/TidalPy/RadialSolver/derivatives/odes.pyx').read()
cls=sys.argv[1] if len(sys.argv)>1 else 'SolidDynamicCompressible'
body=src[src.index(f'cdef class {cls}('):]
body=body[:body.index('\ncdef class ',10)]
m=re.search(r'cdef void diffeq\(self\) noexcept nogil:\n',body); fn=body[m.end():]
lines=[]
for ln in fn.split('\n'):
    s=ln.strip()
    if s.startswith('cdef '): continue
    ln=re.sub(r'<\s*double complex\s*>','',ln)
    lines.append(ln)
code='def diffeq(self):\n'+'\n'.join(lines)
from fractions import Fraction as Fr
class Lit(ast.NodeTransformer):
    """float literal -> exact Fraction of its source text; complex literal 1.0j kept"""
    def __init__(s,src): s.src=src
    def visit_Constant(s,n):
        if isinstance(n.value,float):
            txt=ast.get_source_segment(s.src,n)
            return ast.copy_location(ast.Call(func=ast.Name(id='_L',ctx=ast.Load()),args=[ast.Constant(txt)],keywords=[]),n)
        return n
def _L(txt): return Fr(txt)
def exact(code_or_tree,src):
    t=ast.parse(code_or_tree) if isinstance(code_or_tree,str) else code_or_tree
    t=Lit(src).visit(t); ast.fix_missing_locations(t); return t
ns={'_L':_L}
exec(compile(exact(code,code),'odes.pyx:'+cls,'exec'),ns)
class Self: pass
l=int(sys.argv[2]) if len(sys.argv)>2 else 2
yr=z3.Reals('y1r y2r y3r y4r y5r y6r'); yi=z3.Reals('y1i y2i y3i y4i y5i y6i')
r,rho,g,w,G4pi,mur,mui,K=z3.Reals('r rho g w G4pi mur mui K')
S=Self(); S.t_now=Q(r); S.update_interp=lambda **k: None
S.y_ptr=[Q(v) for pair in zip(yr,yi) for v in pair]; S.dy_ptr=[None]*12
S.shear_modulus=Q(mur,mui); S.bulk_modulus=Q(K); S.density=Q(rho); S.gravity=Q(g); S.frequency_to_use=Q(w); S.grav_coeff=Q(G4pi)
S.llp1=Fr(l*(l+1)); S.lp1=Fr(l+1); S.lm1=Fr(l-1)
ns['diffeq'](S)
dy=[S.dy_ptr[2*i]+Q(0,1)*S.dy_ptr[2*i+1] for i in range(6)]
y=[Q(a,b) for a,b in zip(yr,yi)]
# --- real sensitivity kernel: run sensitivity_to_shear on a 3-slice grid, middle slice; replace its finite-difference gradient by ODE dy1
ssrc=open('/repo/TidalPy/radial_solver/sensitivity.py').read()
tree=ast.parse(ssrc)
fnode=[n for n in tree.body if isinstance(n,ast.FunctionDef) and n.name=='sensitivity_to_shear'][0]
fnode.decorator_list=[]; fnode.returns=None
for a in fnode.args.args: a.annotation=None
mod=ast.Module(body=[fnode],type_ignores=[]); mod=exact(mod,ssrc)
ns2={'np':NP,'_L':_L}; exec(compile(mod,'sensitivity.py','exec'),ns2)
class Arr2:
    def __init__(s,rows): s.rows=rows
    def __getitem__(s,ij): i,j=ij; return s.rows[i][j]
class Arr1(list):
    @property
    def shape(s): return (len(s),)
# grid r-h, r, r+h with y1 linear in r with slope dy1 (so that the 3-point stencil returns exactly dy1): y1(r+-h)=y1 +- h dy1
h=z3.Real('h')
rows=[[y[i]-(dy[i]*h if i==0 else 0), y[i], y[i]+(dy[i]*h if i==0 else 0)] for i in range(6)]
out=ns2['sensitivity_to_shear'](Arr2(rows), Arr1([Q(r)-h,Q(r),Q(r)+h]), Arr1([Q(mur,mui)]*3), Arr1([Q(K)]*3), order_l=l)
H=out[1]
conj=lambda q: Q(q.re,-q.im,q.den)
llp1=l*(l+1)
def dterm(i,j,coef):
    return Q(2)*r*coef*conj(y[i])*y[j] + Q(r)*r*coef*(conj(dy[i])*y[j]+conj(y[i])*dy[j])
lhs=(dterm(0,1,Q(1))+dterm(2,3,Q(llp1))+dterm(4,5,Q(1)/G4pi)).imag
rhs=H*mui
so=z3.Solver(); so.set('timeout',300000)
so.add(r>0,rho>0,g>0,w>0,G4pi>0,mur>0,mui>=0,K>0,h>0,h<r)
so.add(z3.Or(lhs.re*rhs.d != rhs.re*lhs.d, H.im!=0))
t=time.time(); print(cls,'l',l,so.check(),round(time.time()-t,2))
