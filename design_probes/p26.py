"""C16 probe: variant-naming loop of build_from_world as z3 strings; unwinding assertion over a chain of derivations."""
import z3, time
def derive(name, tag):
    """one build_from_world(new_name=None, no 'name' in new_config): variant=True always. returns (new_name, loops_forever_condition)"""
    V=z3.StringVal('_variant')
    has=z3.Contains(name,V)
    pre=z3.SubString(name,0,z3.IndexOf(name,V,0))
    cand=z3.Concat(pre,z3.StringVal('_variant_2'))        # i = 2 and never incremented: every iteration builds the same candidate
    exits_first_iter=cand!=name
    new=z3.If(has,cand,z3.Concat(name,V))
    loops=z3.And(has,z3.Not(exits_first_iter))            # state unchanged after one iteration with the exit test false -> no exit ever
    return new,loops
n0=z3.String('n0')
s=z3.Solver(); s.set('timeout',60000)
s.add(z3.Length(n0)<=12, z3.Length(n0)>=1, z3.Not(z3.Contains(n0,z3.StringVal('_variant'))))   # a fresh world name
name=n0; conds=[]
for k in range(1,5):
    name,loops=derive(name,k)
    s.push(); s.add(*[z3.Not(c) for c in conds]); s.add(loops)
    t=time.time(); r=s.check(); print('derivation',k,'can loop forever:',r,round(time.time()-t,2), (s.model()[n0] if str(r)=='sat' else ''))
    s.pop(); conds.append(loops)
# distinctness on terminating paths
a=z3.String('a'); new,loops=derive(a,0)
s2=z3.Solver(); s2.add(z3.Length(a)<=12, z3.Not(loops), new==a); print('new name equals old name possible:',s2.check())
