import z3, time
from rat import Q
w,mu,eta,cm,cv,A,F,c,s_=z3.Reals('w mu eta cm cv A F c s')
pos=[w>0,mu>0,eta>0,cm>0,cv>0,A>0,F>0,c>0,s_>0,c*c+s_*s_==1]
sine=Q(c,-s_)
vm=Q(cm)*mu; vv=Q(cv)*eta; vt=vv/vm; mt=Q(eta)/mu; mp=mt*w
vp=vt*w+Q(0,-1)
den=mp*F*sine*vp + mp*A*vp + Q(0,-1)*(Q(A)*vp + Q(A)*mp/cm)
M=(Q(eta)*w*A*vp)/den
J=Q(1)/mu + Q(0,-1)/(Q(eta)*w) + Q(1)/(vm+Q(0,1)*w*vv) + Q(F)/(Q(mu)*A)*sine
P=M*J
goals=[('re(MJ)=1',P.re==P.d),('im(MJ)=0',P.im==0),('ReM>=0',M.re*M.d>=0),('ImM>=0',M.im*M.d>=0),('|M|<=mu',M.re*M.re+M.im*M.im<=mu*mu*M.d*M.d)]
for name,goal in goals:
    s=z3.Solver(); s.set('timeout',120000); s.add(pos); s.add(z3.Not(goal))
    t=time.time(); r=s.check(); print(name,r,round(time.time()-t,2), flush=True)
