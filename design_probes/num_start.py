import numpy as np, cmath, math
from scipy.special import spherical_jn
from ode_num import ode
def z_calc(x2,l):
    x=cmath.sqrt(x2)
    return x*spherical_jn(l+1,x)/spherical_jn(l,x)
def kamata_sdc(w,r,rho,K,mu,l,G):
    lame=K-(2/3)*mu
    dyn=w*w; alpha2=(lame+2*mu)/rho; beta2=mu/rho; gamma=4*math.pi*G*rho/3
    ri=1/r; r2i=ri*ri; r2=r*r; lp1=l+1; dlp1=2*l+1; llp1=l*lp1
    qp=(dyn/beta2)+((dyn+4*gamma)/alpha2); qn=(dyn/beta2)-((dyn+4*gamma)/alpha2)
    quad=qn*qn+((4*l*(l+1)*gamma*gamma)/(alpha2*beta2))
    sq=cmath.sqrt(quad)
    out=[]
    for k2 in (0.5*(qp+sq),0.5*(qp-sq)):
        f=(beta2*k2-dyn)/gamma; h=f-lp1; z=z_calc(k2*r2,l)
        y1=-f*z*ri
        y2=-rho*f*alpha2*k2+(2*mu*r2i)*(2*f+llp1)*z
        y3=z*ri
        y4=mu*k2-(2*mu*r2i)*(f+1)*z
        y5=3*gamma*f-h*(l*gamma-dyn)
        y6=dlp1*y5*ri
        out.append(np.array([y1,y2,y3,y4,y5,y6]))
    y5=l*gamma-dyn
    out.append(np.array([l*ri,2*mu*l*(l-1)*r2i,ri,2*mu*(l-1)*r2i,y5,dlp1*y5*ri-3*l*gamma*ri]))
    return out
w=0.7; rho=1.3; K=2.9; mu=1.1+0.2j; l=2; G=0.8
gamma=4*math.pi*G*rho/3
r=0.9; h=1e-6
S0=kamata_sdc(w,r-h,rho,K,mu,l,G); S1=kamata_sdc(w,r+h,rho,K,mu,l,G); S=kamata_sdc(w,r,rho,K,mu,l,G)
for i in range(3):
    ds=(S1[i]-S0[i])/(2*h)
    As=np.array(ode(list(S[i]),r,mu,K,rho,gamma*r,w,G,l))
    res=ds-As
    lam=np.vdot(S[i],res)/np.vdot(S[i],S[i])
    print(i,'lambda',lam,'rel resid', np.linalg.norm(res-lam*S[i])/np.linalg.norm(res))
    print('   comps', np.round(np.abs(res-lam*S[i])/(np.abs(res)+1e-30),6))
print('--- scan r')
for r in [0.9,0.3,0.1,0.03,0.01,0.001]:
    h=r*1e-5
    S0=kamata_sdc(w,r-h,rho,K,mu,l,G); S1=kamata_sdc(w,r+h,rho,K,mu,l,G); S=kamata_sdc(w,r,rho,K,mu,l,G)
    out=[]
    for i in range(3):
        ds=(S1[i]-S0[i])/(2*h)
        As=np.array(ode(list(S[i]),r,mu,K,rho,gamma*r,w,G,l))
        res=ds-As
        lam=np.vdot(S[i],res)/np.vdot(S[i],S[i])
        out.append(np.linalg.norm(res-lam*S[i])/np.linalg.norm(As))
    print(r,out)
print('--- span test')
for r in [0.9,0.3,0.01]:
    h=r*1e-5
    S0=kamata_sdc(w,r-h,rho,K,mu,l,G); S1=kamata_sdc(w,r+h,rho,K,mu,l,G); S=kamata_sdc(w,r,rho,K,mu,l,G)
    M=np.array(S).T
    out=[]
    for i in range(3):
        ds=(S1[i]-S0[i])/(2*h)
        As=np.array(ode(list(S[i]),r,mu,K,rho,gamma*r,w,G,l))
        res=ds-As
        c,*_=np.linalg.lstsq(M,res,rcond=None)
        out.append(np.linalg.norm(res-M@c)/np.linalg.norm(As))
    print(r,out)
print('--- span{s_i,s_3} test')
for r in [0.9,0.3]:
    h=r*1e-5
    S0=kamata_sdc(w,r-h,rho,K,mu,l,G); S1=kamata_sdc(w,r+h,rho,K,mu,l,G); S=kamata_sdc(w,r,rho,K,mu,l,G)
    for i in range(2):
        M=np.array([S[i],S[2]]).T
        ds=(S1[i]-S0[i])/(2*h)
        As=np.array(ode(list(S[i]),r,mu,K,rho,gamma*r,w,G,l))
        res=ds-As
        c,*_=np.linalg.lstsq(M,res,rcond=None)
        print(r,i,np.linalg.norm(res-M@c)/np.linalg.norm(As), c)
