"""Numeric survey on the COMPILED find_starting_conditions + transliterated (real-source) diffeq run with Python complex:
is span{starting vectors} invariant under the ODE flow in a homogeneous sphere?  (run with /venv/bin/python)"""
import re, math, numpy as np, warnings
warnings.filterwarnings('ignore')
from TidalPy.RadialSolver.starting.driver import find_starting_conditions
src=open('/repo/TidalPy/RadialSolver/derivatives/odes.pyx').read()
def load_diffeq(cls):
    body=src[src.index(f'cdef class {cls}('):]
    nxt=body.find('\ncdef class ',10); body=body[:nxt] if nxt>0 else body
    m=re.search(r'cdef void diffeq\(self\) noexcept nogil:\n',body); fn=body[m.end():]
    fn=fn.split('\ncdef RadialSolverBase cf_build_solver')[0]
    lines=[re.sub(r'<\s*double complex\s*>','',ln) for ln in fn.split('\n') if not ln.strip().startswith('cdef ')]
    ns={}; exec('def diffeq(self):\n'+'\n'.join(lines),ns); return ns['diffeq']
class Self: pass
def rhs(cls,l,y,r,rho,g,K,mu,w,G):
    f=load_diffeq(cls); S=Self(); S.t_now=r; S.update_interp=lambda **k: None
    ny=len(y); S.y_ptr=[c for v in y for c in (v.real,v.imag)]; S.dy_ptr=[0.0]*(2*ny)
    S.shear_modulus=mu; S.bulk_modulus=K; S.density=rho; S.gravity=g; S.frequency_to_use=w; S.grav_coeff=4*math.pi*G
    S.llp1=l*(l+1.); S.lp1=l+1.; S.lm1=l-1.; S.degree_l=l
    f(S); return np.array([S.dy_ptr[2*i]+1j*S.dy_ptr[2*i+1] for i in range(ny)])
def start(lt,st,inc,kam,w,r,rho,K,mu,l,G,ns,ny):
    a=np.full((ns,ny),np.nan+0j,dtype=np.complex128,order='C')
    find_starting_conditions(lt,int(st),int(inc),kam,w,r,rho,K,mu,l,G,a); return a
w=0.7; rho=1.3; K=2.9; mu=1.1+0.2j; G=0.8; gam=4*math.pi*G*rho/3
cases=[('solid dyn comp',0,False,False,'SolidDynamicCompressible',3,6),('solid stat comp',0,True,False,'SolidStaticCompressible',3,6),
       ('solid dyn incomp',0,False,True,'SolidDynamicIncompressible',3,6),('liquid dyn comp',1,False,False,'LiquidDynamicCompressible',2,4),
       ('liquid dyn incomp',1,False,True,'LiquidDynamicIncompressible',2,4),('liquid static',1,True,False,'LiquidStaticCompressible',1,2)]
for l in (2,3):
  for name,lt,st,inc,cls,ns,ny in cases:
    for kam in (False,True):
        for r in (0.9,0.2):
            try:
                h=r*1e-5
                S0,S,S1=[start(lt,st,inc,kam,w,rr,rho,K,mu,l,G,ns,ny) for rr in (r-h,r,r+h)]
            except Exception as e:
                print(f'l={l} {name:18s} kamata={kam!s:5s} r={r}: {type(e).__name__}'); break
            M=S.T; out=[]
            for i in range(ns):
                ds=(S1[i]-S0[i])/(2*h); As=rhs(cls,l,list(S[i]),r,rho,gam*r,K,mu if lt==0 else 0j,w,G); rr=ds-As
                c,*_=np.linalg.lstsq(M,rr,rcond=None)
                out.append(float(np.linalg.norm(rr-M@c)/max(np.linalg.norm(As),1e-300)))
            print(f'l={l} {name:18s} kamata={kam!s:5s} r={r}: span residual per solution',[f'{x:.1e}' for x in out])
