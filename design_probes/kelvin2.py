"""Find polynomial regular solutions of the code's static incompressible ODE (homogeneous sphere) by exact linear algebra,
then apply tidal BC and compare Love numbers to Kelvin closed form."""
from fractions import Fraction as Fr
import sympy as sp
def run(l, rho=Fr(3), mu=Fr(7,2), G4pi=Fr(5), R=Fr(2)):
    r=sp.symbols('r')
    gam=G4pi*rho/3        # g = gam*r  (4 pi G rho /3)
    cs=[[sp.Symbol(f'c{i}_{j}') for j in range(7)] for i in range(6)]
    y=[sum(cs[i][j]*r**(l-2+j) for j in range(7)) for i in range(6)]
    a=[c for row in cs for c in row]; b=[]
    y1,y2,y3,y4,y5,y6=y
    llp1=l*(l+1); lp1=l+1; lm1=l-1; ri=1/r; two=2*mu*ri; dg=rho*gam*r; gt=G4pi*rho
    t13=2*y1-llp1*y3
    dy=[ -t13*ri,
         ri*(y1*(12*mu*ri-4*dg)+y3*llp1*(dg-6*mu*ri)+y4*llp1+y5*rho*lp1-y6*rho*r),
         -y1*ri+y3*ri+y4/mu,
         ri*(y1*(dg-3*two)-y2+y3*(two*(2*llp1-1))-3*y4-y5*rho),
         y1*gt-y5*lp1*ri+y6,
         ri*(y1*gt*lm1+y6*lm1+t13*gt)]
    eqs=[]
    for i in range(6):
        res=sp.expand((sp.diff(y[i],r)-dy[i])*r**3)
        eqs+= [c for c in sp.Poly(res,r).all_coeffs() if c!=0]
    sol=sp.linsolve(eqs,list(a)+list(b))
    S=list(sol)[0]
    free=sorted(set().union(*[e.free_symbols for e in S]),key=str)
    print('l',l,'free params',free)
    # basis vectors at r=R
    vecs=[]
    for f in free:
        sub={g:(1 if g==f else 0) for g in free}
        coeffs=[e.subs(sub) for e in S]
        ysub=[yy.subs(dict(zip(list(a)+list(b),coeffs))).subs(r,R) for yy in y]
        vecs.append(ysub)
    # surface BC tidal: y2=0,y4=0,y6=(2l+1)/R
    M=sp.Matrix([[v[1] for v in vecs],[v[3] for v in vecs],[v[5] for v in vecs]])
    c=M.LUsolve(sp.Matrix([0,0,sp.Rational(2*l+1)/R]))
    ys=[sum(c[j]*vecs[j][i] for j in range(len(vecs))) for i in range(6)]
    gs=gam*R
    k=ys[4]-1; h=ys[0]*gs; ls=ys[2]*gs
    m=sp.Rational(2*l*l+4*l+3,l)*mu/(rho*gs*R)
    kk=sp.Rational(3,2*(l-1))/(1+m)
    print('  k',sp.nsimplify(k),'closed',kk,'| h',h,'closed',(2*l+1)*kk/3,'| l',ls,'closed',kk/l)
run(2); run(3)
