import numpy as np, cmath, math
from scipy.special import spherical_jn
from ode_num import ode
def dfact(n):
    r=1
    while n>1: r*=n; n-=2
    return r
def phi(l,z2):
    z=cmath.sqrt(z2); return dfact(2*l+1)*spherical_jn(l,z)/z**l
def take(w,r,rho,K,mu,l,G,swap):
    lame=K-(2/3)*mu; dyn=w*w; alpha2=(lame+2*mu)/rho; beta2=mu/rho; gamma=4*math.pi*G*rho/3
    lp1=l+1; lm1=l-1; dlp1=2*l+1; dlp3=2*l+3; llp1=l*lp1; r2=r*r; ri=1/r
    qp=(dyn/beta2)+((dyn+4*gamma)/alpha2); qn=(dyn/beta2)-((dyn+4*gamma)/alpha2)
    quad=qn*qn+((4*llp1*gamma**2)/(alpha2*beta2)); sq=cmath.sqrt(quad)
    ks={'neg':0.5*(qp-sq),'pos':0.5*(qp+sq)}; idx={'neg':0,'pos':1}
    out=[None]*3; y5={}
    for name,k2 in ks.items():
        f=(beta2*k2-dyn)/gamma; h=f-lp1; z2=k2*r2
        ph=phi(l,z2); ph1=phi(l+1,z2); ps=(2*(2*l+3)/z2)*(1-ph)
        y1=(-r**lp1/dlp3)*(.5*l*h*ps+f*ph1)
        y2=-(lame+2*mu)*r**l*f*ph+(mu*r**l/dlp3)*(-l*lm1*h*ps+2*(2*f+llp1)*ph1)
        y3=(-r**lp1/dlp3)*(0.5*h*ps-ph1)
        y4=mu*r**l*(ph-(1/dlp3)*(lm1*h*ps+2*(f+1)*ph1))
        y5v=r**(l+2)*((alpha2*f-lp1*beta2)/r2-(3*gamma*f/(2*dlp3))*ps)
        y5[name]=y5v
        out[idx[name]]=[y1,y2,y3,y4,y5v,(h,ps)]
    for name in ks:
        h,ps=out[idx[name]][5]
        src = {'pos':0,'neg':1}[name] if swap else idx[name]     # code: pos uses [0*num_ys+4], neg uses [1*num_ys+4]
        y5src=out[src][4]
        out[idx[name]][5]=dlp1*ri*y5src+(3*l*gamma*h*r**lp1/(2*dlp3))*ps
    y5_3=(l*gamma-dyn)*r**l
    out[2]=[l*r**lm1,2*mu*l*lm1*r**(l-2),r**lm1,2*mu*lm1*r**(l-2),y5_3,dlp1*ri*y5_3-3*l*gamma*r**lm1]
    return [np.array(v) for v in out]
w=0.7; rho=1.3; K=2.9; mu=1.1+0.2j; l=2; G=0.8; gamma=4*math.pi*G*rho/3
for swap in (True,False):
    for r in (0.9,0.1):
        h=r*1e-5
        S0=take(w,r-h,rho,K,mu,l,G,swap); S1=take(w,r+h,rho,K,mu,l,G,swap); S=take(w,r,rho,K,mu,l,G,swap)
        res=[]
        M=np.array(S).T
        for i in range(3):
            ds=(S1[i]-S0[i])/(2*h); As=np.array(ode(list(S[i]),r,mu,K,rho,gamma*r,w,G,l)); rr=ds-As
            c,*_=np.linalg.lstsq(M,rr,rcond=None)
            res.append((float(np.linalg.norm(rr)/np.linalg.norm(As)), float(np.linalg.norm(rr-M@c)/np.linalg.norm(As))))
        print('as-coded (swapped y5 index)' if swap else 'own y5 index', 'r',r,'[true-solution resid, span resid] per sol:',[tuple(round(x,10) for x in t) for t in res])
