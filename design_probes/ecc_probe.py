import ast, sys, time
from fractions import Fraction as Fr
import hansen as H
N=H.N
class P:
    def __init__(s,c): s.c=c+[Fr(0)]*(N+1-len(c))
    @staticmethod
    def of(x):
        if isinstance(x,P): return x
        return P([Fr(str(x))])
    def __add__(a,b): return P(H.sadd(a.c,P.of(b).c))
    __radd__=__add__
    def __neg__(a): return P(H.sscale(a.c,-1))
    def __sub__(a,b): return a+(-P.of(b))
    def __rsub__(a,b): return P.of(b)+(-a)
    def __mul__(a,b): return P(H.smul(a.c,P.of(b).c))
    __rmul__=__mul__
    def __pow__(a,n):
        if n>=0: return P(H.spow(a.c,n))
        return P(H.sinv(H.spow(a.c,-n)))
    def __truediv__(a,b): return a*P(H.sinv(P.of(b).c))
    def __rtruediv__(a,b): return P.of(b)*P(H.sinv(a.c))
l=int(sys.argv[1]); T=int(sys.argv[2])
src=open(f'/repo/TidalPy/tides/eccentricity_funcs/orderl{l}.py').read()
tree=ast.parse(src)
fn=[n for n in tree.body if isinstance(n,ast.FunctionDef) and n.name==f'eccentricity_funcs_trunc{T}'][0]
fn.decorator_list=[]; fn.returns=None
for a in fn.args.args: a.annotation=None
mod=ast.Module(body=[fn],type_ignores=[]); ast.fix_missing_locations(mod)
ns={}; exec(compile(mod,'<ecc>','exec'),ns)
res=ns[fn.name](P([Fr(0),Fr(1)]))
t0=time.time(); bad=0; n=0; worst=0
present=set()
for p,d in res.items():
    for q,val in d.items():
        present.add((p,q)); n+=1
        g2=H.G2(l,p,q)
        closed = any(val.c[k]!=0 for k in range(T+1,N+1))
        top = N if closed else T
        for k in range(top+1):
            a=val.c[k]; b=g2[k]
            err=abs(a-b); rel=err/abs(b) if b!=0 else (err)
            if rel>1e-13:
                bad+=1
                if bad<15: print('MISMATCH',(p,q),'e^',k,float(a),float(b),float(rel))
            worst=max(worst,float(rel))
# omitted modes
miss=0
for p in range(l+1):
    for q in range(-T//2-2,T//2+3):
        if (p,q) in present: continue
        g2=H.G2(l,p,q)
        if any(g2[k]!=0 for k in range(T+1)):
            miss+=1; print('OMITTED-NONZERO',(p,q),[str(x) for x in g2[:T+1] if x!=0][:3])
print('l',l,'trunc',T,'entries',n,'bad',bad,'omitted-bad',miss,'worst rel',worst,'time',round(time.time()-t0,1))
