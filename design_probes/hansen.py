"""Exact power series (in e) of Hansen coefficients X^{n,m}_k(e) with Fractions, truncated at order N."""
from fractions import Fraction as Fr
from math import comb, factorial
N=24
def smul(a,b):
    r=[Fr(0)]*(N+1)
    for i,x in enumerate(a):
        if x==0: continue
        for j,y in enumerate(b):
            if i+j>N: break
            if y: r[i+j]+=x*y
    return r
def sadd(a,b): return [x+y for x,y in zip(a,b)]
def sscale(a,c): return [x*c for x in a]
def spow(a,n):
    r=[Fr(1)]+[Fr(0)]*N
    for _ in range(n): r=smul(r,a)
    return r
def sinv(a):
    # 1/a, a[0]!=0
    r=[Fr(0)]*(N+1); r[0]=1/a[0]
    for n in range(1,N+1):
        s=sum(a[k]*r[n-k] for k in range(1,n+1))
        r[n]=-s/a[0]
    return r
def binom_series(alpha,x):
    # (1+x)^alpha for series x with x[0]==0, alpha Fraction
    r=[Fr(1)]+[Fr(0)]*N; term=[Fr(1)]+[Fr(0)]*N; c=Fr(1)
    for k in range(1,N+1):
        c=c*(alpha-(k-1))/k
        term=smul(term,x)
        r=sadd(r,sscale(term,c))
    return r
E=[Fr(0),Fr(1)]+[Fr(0)]*(N-1)
E2=smul(E,E)
sq=binom_series(Fr(1,2),sscale(E2,-1))         # sqrt(1-e^2)
# beta = e/(1+sqrt(1-e^2))
beta=smul(E,sinv(sadd([Fr(1)]+[Fr(0)]*N,sq)))
def gbinom(a,j):
    # generalized binomial C(a,j), a integer (may be negative)
    r=Fr(1)
    for i in range(j): r=r*(a-i)/(i+1)
    return r
def hansen(n,m,k):
    """X^{n,m}_k = (1+beta^2)^{-(n+1)} * [z^0] z^{m-k} (1-beta z)^{n+1-m} (1-beta/z)^{n+1+m} exp(k e (z-1/z)/2)"""
    # Laurent polynomial in z with series coefficients; truncated |power| <= N+|m-k|
    P=N+abs(m-k)+2
    def lz(): return {}
    # A(z)=(1-beta z)^{a}, a=n+1-m ; B(z)=(1-beta/z)^{b}, b=n+1+m
    a=n+1-m; b=n+1+m
    bp=[spow(beta,j) for j in range(N+1)]
    A={j: sscale(bp[j], gbinom(a,j)*(-1)**j) for j in range(N+1)}
    B={-j: sscale(bp[j], gbinom(b,j)*(-1)**j) for j in range(N+1)}
    # exp(k e (z - 1/z)/2) = sum_s J_s(k e) z^s ; J_s(x)=sum_t (-1)^t (x/2)^{2t+s}/(t!(t+s)!)
    ke2=sscale(E,Fr(k,2))
    kp=[spow(ke2,j) for j in range(N+1)]
    def J(s):
        sa=abs(s); r=[Fr(0)]*(N+1)
        for t in range(0,(N-sa)//2+1):
            r=sadd(r,sscale(kp[2*t+sa],Fr((-1)**t,factorial(t)*factorial(t+sa))))
        if s<0 and sa%2==1: r=sscale(r,-1)
        return r
    tot=[Fr(0)]*(N+1)
    # need i + j' + s + (m-k) = 0 with i>=0 (A), j'=-j<=0 (B)
    for i in range(N+1):
        for j in range(N+1-i):
            s=-(m-k)-i+j
            if abs(s)>N: continue
            tot=sadd(tot,smul(smul(A[i],B[-j]),J(s)))
    pref=binom_series(Fr(-(n+1)),smul(beta,beta))
    return smul(pref,tot)
def G2(l,p,q):
    g=hansen(-(l+1),l-2*p,l-2*p+q)
    return smul(g,g)
if __name__=='__main__':
    g=hansen(-3,2,3); print([str(x) for x in g[:6]])   # expect 7/2 e - 123/16 e^3
    g=hansen(-3,2,2); print([str(x) for x in g[:6]])   # 1 - 5/2 e^2 + 13/16 e^4
    g=hansen(-3,0,0); print([str(x) for x in g[:7]])   # (1-e^2)^(-3/2)
