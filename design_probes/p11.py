import sys,time,z3
from mini import *
import mini
which=sys.argv[1] if len(sys.argv)>1 else 'nsr_modes_med_eccen_no_obliquity'
f=load(f'/repo/TidalPy/tides/potential/{which}.py','tidal_potential',{'np':NP,'G':R(z3.Real('G')),'MIN_SPIN_ORBITAL_DIFF':1e-10,'bool_':bool,'Dict':dict})
theta=sym('theta','angle'); phi=sym('phi','angle'); tt=R(z3.Real('t'),kind='time',lin={'t':1})
n=sym('n','freq'); o=sym('o','freq'); e=sym('e'); Mh=sym('Mh'); a=sym('a'); rad=sym('rad'); obl=2*sym('oblh','angle')
import inspect
params=list(inspect.signature(f).parameters)
print(params)
vals={'radius':rad,'longitude':phi,'colatitude':theta,'time':tt,'orbital_frequency':n,'rotation_frequency':o,'eccentricity':e,'host_mass':Mh,'semi_major_axis':a,'obliquity':obl,'use_static':False}
t0=time.time()
out=f(*[vals[p] for p in params])
print('executed in',round(time.time()-t0,2),'modes',list(out[2].keys()))
# Laplace identity per mode: s^2 U_tt + s c U_t + U_pp = -6 s^2 U
c,s=mini.BASE['theta']
tot=0
for name,(U,Ut,Up,Utt,Upp,Utp) in out[2].items():
    S=R(s); C=R(c)
    lhs=S*S*Utt+S*C*Ut+Upp+6*S*S*U
    so=z3.Solver(); so.set('timeout',60000); so.add(mini.AX); so.add(s>0)
    so.add(lhs.num!=0)
    t1=time.time(); r=so.check(); dt=time.time()-t1; tot+=dt
    print(name,r,round(dt,2))
print('total',round(tot,1))
