import z3, time
F=z3.Float64(); rm=z3.RNE()
x,y=z3.FP('x',F),z3.FP('y',F)
zero=z3.FPVal(0.0,F); inf=z3.FPVal(float('inf'),F); nan=z3.FPVal(float('nan'),F)
def hypot(a,b):
    aa=z3.fpAbs(a); bb=z3.fpAbs(b)
    big=z3.If(z3.fpLT(aa,bb),bb,aa); small=z3.If(z3.fpLT(aa,bb),aa,bb)
    yx=z3.fpDiv(rm,small,big)
    core=z3.fpMul(rm,big,z3.fpSqrt(rm,z3.fpAdd(rm,z3.FPVal(1.0,F),z3.fpMul(rm,yx,yx))))
    r=z3.If(z3.fpEQ(big,zero),zero,core)
    r=z3.If(z3.Or(z3.fpIsNaN(a),z3.fpIsNaN(b)),nan,r)
    r=z3.If(z3.Or(z3.fpIsInf(a),z3.fpIsInf(b)),inf,r)
    return r
def csqrt(a,b):
    # returns (re,im) following models of complex.pyx branch order (arith path simplified w/o scaling)
    half=z3.FPVal(0.5,F); two=z3.FPVal(2.0,F)
    t_pos=z3.fpSqrt(rm,z3.fpMul(rm,z3.fpAdd(rm,a,hypot(a,b)),half))
    t_neg=z3.fpSqrt(rm,z3.fpMul(rm,z3.fpAdd(rm,z3.fpNeg(a),hypot(a,b)),half))
    ar_re=z3.If(z3.fpGEQ(a,zero),t_pos,z3.fpDiv(rm,z3.fpAbs(b),z3.fpMul(rm,two,t_neg)))
    ar_im=z3.If(z3.fpGEQ(a,zero),z3.fpDiv(rm,b,z3.fpMul(rm,two,t_pos)), z3.If(z3.fpIsNegative(b),z3.fpNeg(t_neg),t_neg))
    re,im=ar_re,ar_im
    # isinf(a)
    re=z3.If(z3.fpIsInf(a), z3.If(z3.fpIsNegative(a), z3.If(z3.fpIsNaN(b),nan,zero), inf), re)
    im=z3.If(z3.fpIsInf(a), z3.If(z3.fpIsNegative(a), inf, z3.If(z3.fpIsNaN(b),nan,zero)), im)
    re=z3.If(z3.fpIsNaN(a),nan,re); im=z3.If(z3.fpIsNaN(a),nan,im)
    re=z3.If(z3.fpIsInf(b),inf,re); im=z3.If(z3.fpIsInf(b),b,im)
    c0=z3.fpEQ(b,zero)
    re=z3.If(z3.And(c0,z3.fpEQ(a,zero)),zero, z3.If(z3.And(c0,z3.fpGT(a,zero)), z3.fpSqrt(rm,a), re))
    im=z3.If(z3.And(c0,z3.fpEQ(a,zero)),zero, z3.If(z3.And(c0,z3.fpGT(a,zero)), zero, im))
    return re,im
re,im=csqrt(x,y)
def q(name,pre,post):
    s=z3.Solver(); s.set('timeout',120000); s.add(pre); s.add(z3.Not(post))
    t=time.time(); r=s.check(); print(name,r,round(time.time()-t,2), s.model() if str(r)=='sat' else '')
# Annex G: csqrt(conj z) = conj csqrt(z)  -> sign of imag follows sign of y when y is zero and x>0
q('x>0,y=-0 -> im=-0', [z3.fpGT(x,zero), z3.fpIsZero(y), z3.fpIsNegative(y)], z3.And(z3.fpIsZero(im),z3.fpIsNegative(im)))
q('y=inf -> (inf,inf) any x', [z3.fpIsInf(y), z3.Not(z3.fpIsNegative(y))], z3.And(z3.fpIsInf(re),z3.fpIsInf(im)))
q('x=-inf, y finite pos -> (+0, +inf)', [z3.fpIsInf(x), z3.fpIsNegative(x), z3.Not(z3.fpIsNaN(y)),z3.Not(z3.fpIsInf(y)), z3.Not(z3.fpIsNegative(y))], z3.And(z3.fpIsZero(re),z3.fpIsInf(im),z3.Not(z3.fpIsNegative(im))))
q('x=-inf, y finite neg -> (+0, -inf)', [z3.fpIsInf(x), z3.fpIsNegative(x), z3.Not(z3.fpIsNaN(y)),z3.Not(z3.fpIsInf(y)), z3.fpIsNegative(y)], z3.And(z3.fpIsZero(re),z3.fpIsInf(im),z3.fpIsNegative(im)))
