"""Prototype of the overloading executor (real values, trig atoms, sqrt reuse, masks, forward-mode d/dtheta d/dphi)."""
import z3, ast, time, sys
from fractions import Fraction as Fr
def RV(x):
    if isinstance(x,Fr): return z3.RealVal(str(x.numerator))/z3.RealVal(str(x.denominator)) if x.denominator!=1 else z3.RealVal(str(x.numerator))
    if isinstance(x,int): return z3.RealVal(x)
    if isinstance(x,float): return RV(Fr(x))
    raise TypeError(x)
AX=[]          # axioms (z3 bools)
ATOMS={}
def atom(name,*ax):
    if name not in ATOMS:
        v=z3.Real(name); ATOMS[name]=v
    return ATOMS[name]
class R:
    """real rational function num/prod(den), plus optional linear form over base symbols, plus dual parts (d/dtheta, d/dphi) computed lazily via 'der' dict"""
    __array_priority__=1000
    def __init__(s,num,den=None,lin=None,kind=None):
        s.num=num; s.den=dict(den or {}); s.lin=lin; s.kind=kind   # kind: 'freq' linform in (n,o) ; 'angle' linform in base angles
    @staticmethod
    def of(x):
        if isinstance(x,R): return x
        if isinstance(x,bool): return R(RV(int(x)))
        if isinstance(x,(int,float,Fr)):
            fr=Fr(x); return R(RV(fr),lin={'1':fr},kind='const')
        raise TypeError(type(x))
    def d(s):
        t=None
        for k,(term,m) in s.den.items():
            for _ in range(m): t=term if t is None else t*term
        return z3.RealVal(1) if t is None else t
    def _lift(s,tgt):
        p=None
        for k,(t,m) in tgt.items():
            have=s.den.get(k,(t,0))[1]
            for _ in range(m-have): p=t if p is None else p*t
        return s.num if p is None else s.num*p
    def _linop(a,b,sign):
        if a.lin is None or b.lin is None: return None,None
        kinds={a.kind,b.kind}-{'const'}
        if len(kinds)>1: return None,None
        lin=dict(a.lin)
        for k,v in b.lin.items(): lin[k]=lin.get(k,0)+sign*v
        return lin,(kinds.pop() if kinds else 'const')
    def __add__(a,b):
        b=R.of(b); tgt=dict(a.den)
        for k,(t,m) in b.den.items():
            if tgt.get(k,(t,0))[1]<m: tgt[k]=(t,m)
        lin,kind=a._linop(b,1)
        return R(a._lift(tgt)+b._lift(tgt),tgt,lin,kind)
    __radd__=__add__
    def __neg__(a): return R(-a.num,a.den,None if a.lin is None else {k:-v for k,v in a.lin.items()},a.kind)
    def __sub__(a,b): return a+(-R.of(b))
    def __rsub__(a,b): return R.of(b)+(-a)
    def __mul__(a,b):
        b=R.of(b); den=dict(a.den)
        for k,(t,m) in b.den.items(): den[k]=(t,den.get(k,(t,0))[1]+m)
        lin=kind=None
        if a.kind=='const' and b.lin is not None: c=a.lin.get('1',0); lin={k:c*v for k,v in b.lin.items()}; kind=b.kind
        elif b.kind=='const' and a.lin is not None: c=b.lin.get('1',0); lin={k:c*v for k,v in a.lin.items()}; kind=a.kind
        elif a.kind=='time' and b.kind=='freq': lin={k+'*t':v for k,v in b.lin.items()}; kind='angle'
        elif b.kind=='time' and a.kind=='freq': lin={k+'*t':v for k,v in a.lin.items()}; kind='angle'
        return R(a.num*b.num,den,lin,kind)
    __rmul__=__mul__
    def inv(a):
        n=z3.simplify(a.num); key=n.sexpr()
        return R(a.d(),{key:(n,1)})
    def __truediv__(a,b):
        b=R.of(b)
        if b.kind=='const': return a*R.of(1/b.lin['1'])
        return a*b.inv()
    def __rtruediv__(a,b): return R.of(b)*a.inv()
    def __pow__(a,n):
        if isinstance(n,R): n=n.lin['1']
        n=Fr(n); assert n.denominator==1; n=int(n)
        r=R.of(1)
        for _ in range(abs(n)): r=r*a
        return r if n>=0 else r.inv()
    def __gt__(a,b): return B(z3.simplify((a-R.of(b)).num*1>0) if not (a-R.of(b)).den else ((a-R.of(b)).num*(a-R.of(b)).d()>0))
    def __imul__(a,b): return a*b
class B:
    def __init__(s,c): s.c=c
    def __mul__(a,b):
        if isinstance(b,B): return B(z3.And(a.c,b.c))
        b=R.of(b); return R(z3.If(a.c,b.num,z3.RealVal(0)),b.den)
    __rmul__=__mul__
    __imul__=__mul__
BASE={}   # base angle name -> (c,s)
def base(name):
    if name not in BASE:
        c=z3.Real('c_'+name); s=z3.Real('s_'+name); BASE[name]=(c,s); AX.append(c*c+s*s==1)
    return BASE[name]
def cis(lin):
    re,im=R.of(1),R.of(0)
    for k,v in sorted(lin.items()):
        if k=='1': assert v==0; continue
        v=Fr(v); assert v.denominator==1,(k,v)
        c,s=base(k); C=R(c); S=R(s)
        if v<0: S=-S
        for _ in range(abs(int(v))): re,im=re*C-im*S, re*S+im*C
    return re,im
class NP:
    float64=float
    @staticmethod
    def cos(x): assert x.kind in('angle','const'),x.kind; return cis(x.lin)[0]
    @staticmethod
    def sin(x): return cis(x.lin)[1]
    @staticmethod
    def sqrt(x):
        # reuse: look for base sines with s^2 == x
        for name,(c,s) in BASE.items():
            so=z3.Solver(); so.add(AX); so.add(R(s).num*R(s).num*x.d()!=x.num)
            if so.check()==z3.unsat:
                SQRT_ASSUME.append((name,s)); return R(s)
        raise NotImplementedError('sqrt atom')
    @staticmethod
    def abs(x):
        return R(z3.If(x.num*x.d()>=0,x.num,-x.num),x.den)
    @staticmethod
    def ones_like(x,dtype=None): return B(z3.BoolVal(True)) if dtype is not None else R.of(1)
    @staticmethod
    def zeros_like(x,dtype=None): return R.of(0)
SQRT_ASSUME=[]
def sym(name,kind=None):
    v=z3.Real(name); return R(v,lin={name:Fr(1)} if kind else None,kind=kind)
def load(path,fname,extra):
    tree=ast.parse(open(path).read())
    fn=[n for n in tree.body if isinstance(n,ast.FunctionDef) and n.name==fname][0]
    fn.decorator_list=[]; fn.returns=None
    for a in fn.args.args: a.annotation=None
    # drop annotated-assign annotations
    class T(ast.NodeTransformer):
        def visit_AnnAssign(s,n): return ast.copy_location(ast.Assign(targets=[n.target],value=n.value),n) if n.value else None
    fn=T().visit(fn)
    mod=ast.Module(body=[fn],type_ignores=[]); ast.fix_missing_locations(mod)
    ns=dict(extra); exec(compile(mod,path,'exec'),ns); return ns[fname]
