"""C14 probe: are the returned angular derivatives the true partial derivatives of the returned potential? (real functions, forward-mode duals)"""
import sys,time,z3,inspect
from mini import *
import mini
from fractions import Fraction as Fr
class D:
    """dual number over mini.R : v + eps*d ; carries angle info through v"""
    def __init__(s,v,d=None): s.v=R.of(v); s.d=R.of(0) if d is None else R.of(d)
    @staticmethod
    def of(x): return x if isinstance(x,D) else D(x)
    @property
    def lin(s): return s.v.lin
    @property
    def kind(s): return s.v.kind
    def __add__(a,b): b=D.of(b); return D(a.v+b.v,a.d+b.d)
    __radd__=__add__
    def __neg__(a): return D(-a.v,-a.d)
    def __sub__(a,b): return a+(-D.of(b))
    def __rsub__(a,b): return D.of(b)+(-a)
    def __mul__(a,b):
        if isinstance(b,B): return D(b*a.v,b*a.d)
        b=D.of(b); return D(a.v*b.v,a.v*b.d+a.d*b.v)
    __rmul__=__mul__
    def __truediv__(a,b):
        b=D.of(b); return D(a.v/b.v,(a.d*b.v-a.v*b.d)/(b.v*b.v))
    def __rtruediv__(a,b): return D.of(b)/a
    def __pow__(a,n):
        if isinstance(n,(R,D)): n=(n.v if isinstance(n,D) else n).lin['1']
        n=int(Fr(n)); r=D(1)
        for _ in range(abs(n)): r=r*a
        return r if n>=0 else D(1)/r
    def __gt__(a,b): return a.v>(b.v if isinstance(b,D) else b)
    def __imul__(a,b): return a*b
    def __iadd__(a,b): return a+b
_Bmul=B.__mul__
def Bmul(a,b):
    if isinstance(b,D): return D(_Bmul(a,b.v),_Bmul(a,b.d))
    return _Bmul(a,b)
B.__mul__=Bmul; B.__rmul__=Bmul; B.__imul__=Bmul
WRT=None
class NPD(NP):
    @staticmethod
    def _ang(x): return x.v if isinstance(x,D) else x
    @staticmethod
    def cos(x):
        a=NPD._ang(x); c=NP.cos(a)
        k=a.lin.get(WRT,0) if a.lin else 0
        return D(c,-k*NP.sin(a))
    @staticmethod
    def sin(x):
        a=NPD._ang(x); s=NP.sin(a); k=a.lin.get(WRT,0) if a.lin else 0
        return D(s,k*NP.cos(a))
    @staticmethod
    def sqrt(x):
        x=D.of(x); s=NP.sqrt(x.v); return D(s,x.d/(2*s))
    @staticmethod
    def abs(x): return D.of(x)   # probe: frequencies assumed positive
    @staticmethod
    def ones_like(x,dtype=None): return NP.ones_like(x,dtype)
    @staticmethod
    def zeros_like(x,dtype=None): return D(0)
def run(which,wrt):
    global WRT; WRT=wrt
    f=load(f'/repo/TidalPy/tides/potential/{which}.py','tidal_potential',{'np':NPD,'G':D(R(z3.Real('G'))),'MIN_SPIN_ORBITAL_DIFF':1e-10,'bool_':bool,'Dict':dict})
    theta=D(sym('theta','angle')); phi=D(sym('phi','angle')); tt=D(R(z3.Real('t'),kind='time',lin={'t':1}))
    n=D(sym('n','freq')); o=D(sym('o','freq')); e=D(sym('e')); Mh=D(sym('Mh')); a=D(sym('a')); rad=D(sym('rad')); obl=D(2*sym('oblh','angle'))
    vals={'radius':rad,'longitude':phi,'colatitude':theta,'time':tt,'orbital_frequency':n,'rotation_frequency':o,'eccentricity':e,'host_mass':Mh,'semi_major_axis':a,'obliquity':obl,'use_static':False}
    params=list(inspect.signature(f).parameters)
    return f(*[vals[p] for p in params])[2]
def eq(x,y):
    d=x-y; so=z3.Solver(); so.set('timeout',60000); so.add(mini.AX)
    for nm,(c,s) in mini.BASE.items():
        if nm=='theta': so.add(s>0)
    so.add(d.num!=0); return str(so.check())
files=sys.argv[1:] or ['synchronous_low_e','nsr_modes_med_eccen_no_obliquity','nsr_med_eccen_no_obliquity','nsr_modes_med_eccen_med_obliquity','nsr_med_eccen_med_obliquity','nsr_modes_med_eccen_gen_obliquity','nsr_med_eccen_gen_obliquity','nsr_modes_low_eccen_gen_obliquity']
for which in files:
    t0=time.time()
    try:
        T=run(which,'theta'); P=run(which,'phi')
    except Exception as ex:
        print(which,'EXEC-FAIL',type(ex).__name__,str(ex)[:100]); continue
    bad=[]; n=0
    for name in T:
        U,Ut,Up,Utt,Upp,Utp=T[name]; U2,Ut2,Up2,Utt2,Upp2,Utp2=P[name]
        checks={'U_t':(U.d,Ut.v),'U_tt':(Ut.d,Utt.v),'U_p':(U2.d,Up2.v),'U_pp':(Up2.d,Upp2.v),'U_tp(from U_t)':(Ut2.d,Utp2.v),'U_tp(from U_p)':(Up.d,Utp.v)}
        for cn,(x,y) in checks.items():
            n+=1; r=eq(x,y)
            if r!='unsat': bad.append((name,cn,r))
    nz=sum(1 for name in T if eq(T[name][0].d,R.of(0))=='sat'); print('   non-vacuous dU/dtheta modes:',nz)
    print(which,'modes',len(T),'checks',n,'not-unsat',len(bad),'time',round(time.time()-t0,1))
    for b in bad[:10]: print('    ',b)
