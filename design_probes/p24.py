import sys,time,z3,inspect
from mini import *
import mini
NP.abs=staticmethod(lambda x: x)
def run(which,static=False, sync=False, zero_obl=False):
    f=load(f'/repo/TidalPy/tides/potential/{which}.py','tidal_potential',{'np':NP,'G':R(z3.Real('G')),'MIN_SPIN_ORBITAL_DIFF':1e-10,'bool_':bool,'Dict':dict})
    theta=sym('theta','angle'); phi=sym('phi','angle'); tt=R(z3.Real('t'),kind='time',lin={'t':1})
    n=sym('n','freq'); o=n if sync else sym('o','freq'); e=sym('e'); Mh=sym('Mh'); a=sym('a'); rad=sym('rad')
    obl=(0*sym('oblh','angle')) if zero_obl else 2*sym('oblh','angle')
    vals={'radius':rad,'longitude':phi,'colatitude':theta,'time':tt,'orbital_frequency':n,'rotation_frequency':o,'eccentricity':e,'host_mass':Mh,'semi_major_axis':a,'obliquity':obl,'use_static':static}
    params=list(inspect.signature(f).parameters)
    return f(*[vals[p] for p in params])[2]
def total(d,k):
    t=R.of(0)
    for v in d.values(): t=t+v[k]
    return t
def eq(x,y,extra=[]):
    d=x-y; so=z3.Solver(); so.set('timeout',120000); so.add(mini.AX+extra); so.add(d.num!=0)
    r=so.check(); return str(r), (so.model() if str(r)=='sat' else None)
pairs=[('nsr_modes_med_eccen_no_obliquity','nsr_med_eccen_no_obliquity'),('nsr_modes_med_eccen_med_obliquity','nsr_med_eccen_med_obliquity'),('nsr_modes_med_eccen_gen_obliquity','nsr_med_eccen_gen_obliquity')]
for a_,b_ in pairs:
    for static in (False,True):
        A=run(a_,static); Bd=run(b_,static)
        res=[eq(total(A,k),total(Bd,k))[0] for k in range(6)]
        print(f'{a_} (sum of {len(A)} modes) vs {b_} ({len(Bd)} entries) static={static}:',res)
# gen obliquity at I=0 vs no obliquity
A=run('nsr_modes_med_eccen_gen_obliquity',zero_obl=True); Bd=run('nsr_modes_med_eccen_no_obliquity')
print('gen-obliquity(I=0) vs no-obliquity:',[eq(total(A,k),total(Bd,k))[0] for k in range(6)])
