"""C15 probe: real calculate_strain_stress on a 1x1x1x1 grid with symbolic complex inputs."""
import ast, z3, time, sys
exec(open('p13.py').read().split("# --- transliterate the diffeq")[0])   # Q patches + NP
from fractions import Fraction as Fr
class Lit(ast.NodeTransformer):
    def __init__(s,src): s.src=src
    def visit_Constant(s,n):
        if isinstance(n.value,float):
            return ast.copy_location(ast.Call(func=ast.Name(id='_L',ctx=ast.Load()),args=[ast.Constant(ast.get_source_segment(s.src,n))],keywords=[]),n)
        return n
class ND:
    def __init__(s,shape): s.shape=shape; s.d={}
    def __setitem__(s,k,v): s.d[k]=Q.of(v)
    def __getitem__(s,k): return s.d[k]
NP.empty=staticmethod(lambda shape,dtype=None: ND(shape))
cth,sth=z3.Reals('cth sth')
NP.sin=staticmethod(lambda x: Q(sth)); NP.tan=staticmethod(lambda x: Q(sth)/Q(cth))
src=open('/repo/TidalPy/tides/multilayer/stress_strain.py').read()
tree=ast.parse(src)
fn=[n for n in tree.body if isinstance(n,ast.FunctionDef) and n.name=='calculate_strain_stress'][0]
fn.decorator_list=[]; fn.returns=None
for a in fn.args.args: a.annotation=None
mod=ast.Module(body=[fn],type_ignores=[]); mod=Lit(src).visit(mod); ast.fix_missing_locations(mod)
ns={'np':NP,'prange':range,'_L':lambda t: Fr(t)}
exec(compile(mod,'stress_strain.py','exec'),ns)
def cx(n): a,b=z3.Reals(f'{n}r {n}i'); return Q(a,b)
class A3:
    def __init__(s,v): s.v=v
    def __getitem__(s,k): return s.v
class A2:
    def __init__(s,rows): s.rows=rows
    def __getitem__(s,ij): return s.rows[ij[0]]
l=int(sys.argv[1]) if len(sys.argv)>1 else 2
U,Ut,Up,Utp,Upp=[cx(n) for n in ('U','Ut','Up','Utp','Upp')]
# Laplace identity assumption: Utt = -l(l+1) U - cot Ut - Upp/sin^2
Utt=Q(-l*(l+1))*U-(Q(cth)/Q(sth))*Ut-Upp/(Q(sth)*Q(sth))
y=[cx(f'y{i}') for i in range(1,7)]
r=z3.Real('r'); mu=cx('mu'); K=cx('K')
strains,stresses=ns['calculate_strain_stress'](A3(U),A3(Ut),A3(Up),A3(Utt),A3(Upp),A3(Utp),A2(y),[0],[0],[0],[Q(r)],[mu],[K],Q(1),order_l=l)
e=[strains[(k,0,0,0,0)] for k in range(6)]; s=[stresses[(k,0,0,0,0)] for k in range(6)]
lam=K-mu*Q(z3.RealVal(2)/3); tr=e[0]+e[1]+e[2]
def eqz(a,b):
    d=a-b; return z3.And(d.re==0,d.im==0)
goals={'hooke_diag':z3.And(*[eqz(s[k],2*mu*e[k]+lam*tr) for k in range(3)]),'hooke_off':z3.And(*[eqz(s[k],2*mu*e[k]) for k in range(3,6)]),
 's_rr=y2U':eqz(s[0],y[1]*U),'s_rth=y4Ut':eqz(s[3],y[3]*Ut),'s_rph=y4Up/sin':eqz(s[4],y[3]*Up/Q(sth))}
base=[r>0,sth>0,cth*cth+sth*sth==1]
for name,gl in goals.items():
    so=z3.Solver(); so.set('timeout',120000); so.add(base); so.add(z3.Not(gl))
    t=time.time(); rr=so.check(); print(name,rr,round(time.time()-t,2))
