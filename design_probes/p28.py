exec(open('p27.py').read().split("l=int(sys.argv[1])")[0])
for lt,st,ns in ((0,True,3),(1,True,1),(1,False,2)):
    U=[Q(z3.Real(f'u{i}')) for i in range(18)]; bcv=[Q(z3.Real(f'b{i}')) for i in range(15)]; const=Arr(3)
    try:
        bc(const,INFO,bcv,U,Q(z3.Real('g')),Q(z3.Real('G')),ns,6,0,lt,st,False)
        print('layer_type',lt,'static',st,': all writes inside declared extents')
    except IndexError as e: print('layer_type',lt,'static',st,':',e)
