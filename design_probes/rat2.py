import z3
def _r(x):
    return x if z3.is_expr(x) else z3.RealVal(x)
def _prod(fs):
    t=None
    for k,(term,m) in fs.items():
        for _ in range(m):
            t=term if t is None else t*term
    return z3.RealVal(1) if t is None else t
class Q:
    """(re + i im)/prod(den factors)"""
    def __init__(s,re,im=0,den=None): s.re=_r(re); s.im=_r(im); s.den=dict(den or {})
    @property
    def d(s): return _prod(s.den)
    @staticmethod
    def of(x): return x if isinstance(x,Q) else Q(x)
    def _lift(s,target):
        miss={}
        for k,(t,m) in target.items():
            have=s.den.get(k,(t,0))[1]
            if m>have: miss[k]=(t,m-have)
        if not miss: return s.re,s.im
        p=_prod(miss); return s.re*p, s.im*p
    def __add__(s,o):
        o=Q.of(o)
        tgt=dict(s.den)
        for k,(t,m) in o.den.items():
            if tgt.get(k,(t,0))[1]<m: tgt[k]=(t,m)
        a=s._lift(tgt); b=o._lift(tgt)
        return Q(a[0]+b[0],a[1]+b[1],tgt)
    __radd__=__add__
    def __neg__(s): return Q(-s.re,-s.im,s.den)
    def __sub__(s,o): return s+(-Q.of(o))
    def __rsub__(s,o): return Q.of(o)+(-s)
    def __mul__(s,o):
        o=Q.of(o); den=dict(s.den)
        for k,(t,m) in o.den.items(): den[k]=(t,den.get(k,(t,0))[1]+m)
        return Q(s.re*o.re-s.im*o.im, s.re*o.im+s.im*o.re, den)
    __rmul__=__mul__
    def inv(s):
        re=z3.simplify(s.re); im=z3.simplify(s.im)
        D=s.d
        if z3.is_rational_value(im) and im.numerator_as_long()==0:
            n=re; key=n.sexpr(); return Q(D,0,{key:(n,1)})
        n=z3.simplify(re*re+im*im); key=n.sexpr()
        return Q(re*D,-im*D,{key:(n,1)})
    def __truediv__(s,o): return s*Q.of(o).inv()
    def __rtruediv__(s,o): return Q.of(o)*s.inv()
