"""C01 probe: Kelvin closed form from the REAL sources: SolidStaticIncompressible.diffeq + cf_apply_surface_bc (zgesv contract stub)
+ cf_collapse_layer_solution + find_love_cf, formal-indeterminate mode (mu is one real symbol)."""
import re, ast, z3, time, sys, itertools
exec(open('p19.py').read().split("class Self: pass")[0])     # Q patches, Lit, load_diffeq (real odes.pyx)
import sympy as sp
CT=r'(?:unsigned\s+)?(?:double complex|double|float|int|long|char|size_t|ssize_t|Py_ssize_t|bint|unsigned char|unsigned int)'
class Arr(list):
    def __init__(s,n): super().__init__([None]*n); s.extent=n
    def __setitem__(s,i,v):
        if not (0<=i<s.extent): raise IndexError(f'OUT-OF-EXTENT write index {i} extent {s.extent}')
        list.__setitem__(s,i,v)
def load_cfunc(path,name,extra):
    src=open(path).read()
    i=src.index(f'cdef void {name}('); j=src.index(') noexcept nogil:',i)
    args=src[i+len(f'cdef void {name}('):j]
    names=[re.split(r'[\s\*]+',a.strip())[-1] for a in args.split(',') if a.strip()]
    rest=src[j+len(') noexcept nogil:'):]
    k=re.search(r'\n(?=def |cdef )',rest); body=rest[:k.start()] if k else rest
    lines=[]
    for ln in body.split('\n'):
        m=re.match(r'^(\s*)cdef\s+'+CT+r'\s*(\*+)?\s*(.*)$',ln)
        if m:
            ind,stars,restl=m.groups(); restl=restl.strip()
            am=re.match(r'^((?:\[\d+\])+)\s+(\w+)$',restl)
            if am:
                n=1
                for d in re.findall(r'\[(\d+)\]',am.group(1)): n*=int(d)
                lines.append(f'{ind}{am.group(2)} = Arr({n})'); continue
            if '=' in restl: lines.append(ind+restl.lstrip('* ')); continue
            continue
        lines.append(ln)
    code='\n'.join(lines)
    code=re.sub(r'<[^<>=]*?>\s*(?=[\w\(&])','',code)
    code=re.sub(r'&(\w+)\[0\]\[0\]',r'\1',code); code=re.sub(r'&(\w+)\[0\]',r'\1',code); code=re.sub(r'&(\w+)',r'Ref(lambda: \1)',code)
    code=f"def {name}({', '.join(names)}):"+code
    t=Lit(code).visit(ast.parse(code)); ast.fix_missing_locations(t)
    ns={'_L':lambda t: Fr(t),'Arr':Arr,'Ref':lambda f: f,'NAN':None,'pi':Q(z3.Real('PI')),'cf_build_dblcmplx':lambda a,b: Q.of(a)}
    ns.update(extra); exec(compile(t,name,'exec'),ns); return ns[name]
# --- zgesv contract stub: fresh unknowns x with A x = b (column-major), info = 0
CONS=[]
def zgesv(n_ref,nrhs_ref,A,lda_ref,ipiv,b,ldb_ref,info):
    n=n_ref(); xs=[Q(z3.Real(f'x{j}')) for j in range(n)]
    for i in range(n):
        lhs=Q(0)
        for j in range(n): lhs=lhs+A[i+j*n]*xs[j]
        d=lhs-b[i]; CONS.append(d.re==0)
    for j in range(n): b[j]=xs[j]
    INFO[0]=0
INFO=[None]
bc=load_cfunc('/repo/TidalPy/RadialSolver/boundaries/boundaries.pyx','cf_apply_surface_bc',{'zgesv':zgesv})
collapse=load_cfunc('/repo/TidalPy/RadialSolver/collapse/collapse.pyx','cf_collapse_layer_solution',{})
love_src=open('/repo/TidalPy/RadialSolver/love.pyx').read()
love=load_cfunc('/repo/TidalPy/RadialSolver/love.pyx','find_love_cf',{})
l=int(sys.argv[1]) if len(sys.argv)>1 else 2
# --- oracle basis: polynomial solutions of the incompressible static ODE with symbolic parameters (sympy linear solve; untrusted)
r,rho,mu,gam=sp.symbols('r rho mu gam',positive=True)     # gam = 4 pi G rho / 3 ; G4pi = 3 gam / rho
cs=[[sp.Symbol(f'c{i}_{j}') for j in range(7)] for i in range(6)]
y=[sum(cs[i][j]*r**(l-2+j) for j in range(7)) for i in range(6)]
y1,y2,y3,y4,y5,y6=y; llp1=l*(l+1); lp1=l+1; lm1=l-1; ri=1/r; two=2*mu*ri; dg=rho*gam*r; gt=3*gam
t13=2*y1-llp1*y3
dy=[-t13*ri, ri*(y1*(12*mu*ri-4*dg)+y3*llp1*(dg-6*mu*ri)+y4*llp1+y5*rho*lp1-y6*rho*r), -y1*ri+y3*ri+y4/mu,
    ri*(y1*(dg-3*two)-y2+y3*(two*(2*llp1-1))-3*y4-y5*rho), y1*gt-y5*lp1*ri+y6, ri*(y1*gt*lm1+y6*lm1+t13*gt)]
eqs=[]
for i in range(6):
    eqs+=[c for c in sp.Poly(sp.expand((sp.diff(y[i],r)-dy[i])*r**3),r).all_coeffs() if c!=0]
unk=[c for row in cs for c in row]
sol=list(sp.linsolve(eqs,unk))[0]
free=sorted(set().union(*[e.free_symbols for e in sol])-{rho,mu,gam},key=str)
print('free',free)
zr,zrho,zmu,zgam=z3.Reals('r rho mu gam')
def toQ(expr):
    num,den=sp.fraction(sp.together(expr))
    def poly(e):
        e=sp.Poly(sp.expand(e),r,rho,mu,gam); tot=None
        for (a,b,c,d),co in e.terms():
            term=z3.RealVal(str(sp.Rational(co).p))/z3.RealVal(str(sp.Rational(co).q)) if sp.Rational(co).q!=1 else z3.RealVal(str(sp.Rational(co).p))
            for v,k in ((zr,a),(zrho,b),(zmu,c),(zgam,d)):
                for _ in range(k): term=term*v
            tot=term if tot is None else tot+term
        return tot if tot is not None else z3.RealVal(0)
    return Q(poly(num))/Q(poly(den))
basis=[]
for f in free:
    sub={g:(1 if g==f else 0) for g in free}
    co=[e.subs(sub) for e in sol]
    basis.append([toQ(sum(co[i*7+j]*r**(l-2+j) for j in range(7))) for i in range(6)])
# (1) solver check: each basis vector satisfies the REAL diffeq (derivative by dual numbers is overkill: differentiate in sympy, check residual with solver)
f=load_diffeq('SolidStaticIncompressible')
class Self: pass
ok=[]
for b_i,f_sym in zip(basis,free):
    S=Self(); S.t_now=Q(zr); S.update_interp=lambda **k: None
    S.y_ptr=[c for v in b_i for c in (v,Q(0))]; S.dy_ptr=[None]*12
    S.shear_modulus=Q(zmu); S.bulk_modulus=None; S.density=Q(zrho); S.gravity=Q(zgam)*zr; S.frequency_to_use=Q(0); S.grav_coeff=Q(3)*zgam/Q(zrho)
    S.llp1=Fr(l*(l+1)); S.lp1=Fr(l+1); S.lm1=Fr(l-1)
    f(S)
    sub={g:(1 if g==f_sym else 0) for g in free}; co=[e.subs(sub) for e in sol]
    for i in range(6):
        dsym=toQ(sp.diff(sum(co[i*7+j]*r**(l-2+j) for j in range(7)),r))
        d=dsym-S.dy_ptr[2*i]
        so=z3.Solver(); so.add(zr>0,zrho>0,zmu>0,zgam>0); so.add(d.re!=0); ok.append(str(so.check()))
print('(1) basis satisfies real SolidStaticIncompressible.diffeq:',set(ok),len(ok))
# (2) surface algebra with the real boundaries/collapse/love code at r = R
R_=z3.Real('R')
def atR(q): return Q(z3.substitute(q.re,(zr,R_)),0,{k:(z3.substitute(t,(zr,R_)),m) for k,(t,m) in q.den.items()})
U=[None]*18
for j,b_i in enumerate(basis):
    for yy in range(6): U[j*6+yy]=atR(b_i[yy])
bcv=[Q(0),Q(0),Q(2*l+1)/Q(R_)]+[None]*12
const=Arr(3); 
bc(const,INFO,bcv,U,Q(zgam)*R_,Q(3)*zgam/(Q(4)*Q(z3.Real('PI'))*zrho),3,6,0,0,True,True)
sol_out=[None]*6
collapse(sol_out,const,[ [U[j*6+k] for k in range(6)] for j in range(3)],[Q(R_)],[Q(zrho)],[Q(zgam)*R_],Q(0),0,1,3,6,6,6,0,0,True,True)
lv=[None]*3
love(lv,sol_out,Q(zgam)*R_)
gs=Q(zgam)*R_
m_l=Q(Fr(2*l*l+4*l+3,l))*zmu/(Q(zrho)*gs*R_)
kk=Q(Fr(3,2*(l-1)))/(Q(1)+m_l)
goals={'k':lv[0]-kk,'h':lv[1]-Q(Fr(2*l+1,3))*kk,'l':lv[2]-kk/Q(l)}
for nm,d in goals.items():
    so=z3.Solver(); so.set('timeout',120000); so.add(R_>0,zrho>0,zmu>0,zgam>0); so.add(CONS); so.add(d.re!=0)
    t=time.time(); print('(2)',nm,'= Kelvin:',so.check(),round(time.time()-t,2))
so=z3.Solver(); so.add(R_>0,zrho>0,zmu>0,zgam>0); so.add(CONS); print('vacuity twin (assumptions satisfiable):',so.check())
d=lv[0]-Q(2)*kk; so=z3.Solver(); so.add(R_>0,zrho>0,zmu>0,zgam>0); so.add(CONS); so.add(d.re!=0); print('false goal k = 2*Kelvin:',so.check())
