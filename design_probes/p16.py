"""C18 probe: run the REAL multiprocessing_run source under a shimmed environment (in-memory FS, inline pool, crash injection)."""
import ast, sys, types, io, os as real_os, time, math, warnings, numpy as real_np
from collections import namedtuple
from datetime import datetime
src=open('/repo/TidalPy/utilities/multiprocessing/multiprocessing.py').read()
tree=ast.parse(src)
keep=[n for n in tree.body if isinstance(n,(ast.FunctionDef,ast.Assign))]
mod=ast.Module(body=keep,type_ignores=[]); ast.fix_missing_locations(mod)
class Crash(BaseException): pass
class FS:
    def __init__(s): s.files={}; s.dirs=set(); s.ops=[]; s.crash_at=None; s.count=0
    def tick(s,what):
        s.ops.append(what)
        if s.crash_at is not None and s.count==s.crash_at: raise Crash(what)
        s.count+=1
fs=FS()
class F(io.StringIO):
    def __init__(s,path,mode):
        super().__init__(fs.files.get(path,'') if 'a' in mode or 'r' in mode else ''); s.path=path; s.mode=mode
        if 'a' in mode: s.seek(0,2)
    def __exit__(s,*a):
        if 'r' not in s.mode: fs.tick(('write',s.mode,s.path.split('/')[-1])); fs.files[s.path]=s.getvalue()
        return False
    def __enter__(s): return s
def _open(path,mode='r'):
    if 'r' in mode and path not in fs.files: raise FileNotFoundError(path)
    return F(path,mode)
class Path:
    join=staticmethod(lambda *a: '/'.join(a))
    isdir=staticmethod(lambda p: p in fs.dirs)
    isfile=staticmethod(lambda p: p in fs.files)
class OS:
    path=Path
    @staticmethod
    def makedirs(p): fs.tick(('mkdir',p.split('/')[-1])); fs.dirs.add(p)
    @staticmethod
    def listdir(p): return sorted({x[len(p)+1:].split('/')[0] for x in list(fs.files)+list(fs.dirs) if x.startswith(p+'/')})
class NPX:
    def __getattr__(s,k): return getattr(real_np,k)
    @staticmethod
    def save(p,arr): fs.files[p]=('npy',arr)
    @staticmethod
    def savez(p,**kw): fs.tick(('savez',p.split('/')[-1])); fs.files[p]=dict(kw)
    @staticmethod
    def load(p):
        if p not in fs.files: raise FileNotFoundError(p)
        return fs.files[p]
class Pool:
    def __init__(s,processes=None): pass
    def __enter__(s): return s
    def __exit__(s,*a): return False
    def starmap(s,f,cases,chunksize=1): return [f(*c) for c in cases]
class MP: Pool=Pool
class PS:
    @staticmethod
    def cpu_count(): return 16
    @staticmethod
    def virtual_memory():
        class M: total=1<<50
        return M
def find_nearest(array,value): return int((real_np.abs(real_np.asarray(array)-value)).argmin())
g={'math':math,'python_mp':MP,'os':OS,'time':time,'warnings':warnings,'namedtuple':namedtuple,'datetime':datetime,'List':list,'np':NPX(),'version':'x',
   'find_nearest':find_nearest,'convert_time_to_hhmmss':lambda *a,**k:'0','pathos_installed':False,'pathos_mp':None,'psutil':PS,'psutil_installed':True,'open':_open,'print':lambda *a,**k:None}
exec(compile(mod,'multiprocessing.py','exec'),g)
run=g['multiprocessing_run']; MI=g['MultiprocessingInput']
executed=[]
def study(run_dir,x,y,x_name,y_name):
    executed.append((x,y)); return {'z':real_np.asarray(x+10*y)}
def inputs(kind): return (MI('x','X',0.,1.,'linear',kind([0.5]),2), MI('y','Y',0.,1.,'linear',kind([]),2))
# uninterrupted reference
fs.__init__(); executed.clear()
ref=run('D','s',study,inputs(list),force_restart=False,verbose=False,perform_memory_check=False)
nops=fs.count
print('uninterrupted: results',[(r.case_number,r.input_index) for r in ref],'fs-effects',nops)
print('per-case effect order:',[o for o in fs.ops if 'index' in str(o) or 'mp_' in str(o) or o[0]=='write'][:12])
# crash at every effect, then restart
outcomes={}
for kind in (list,tuple):
  for k in range(nops):
    fs.__init__(); executed.clear(); fs.crash_at=k
    try: run('D','s',study,inputs(kind),force_restart=False,verbose=False,perform_memory_check=False)
    except Crash as c: pass
    first=list(executed); fs.crash_at=None; executed.clear()
    try:
        res=run('D','s',study,inputs(kind),force_restart=False,verbose=False,perform_memory_check=False)
        redo=[e for e in executed if e in first]
        outcomes[(kind.__name__,k)]=('ok',len(res) if res is not None else None)
    except Exception as e:
        outcomes[(kind.__name__,k)]=('EXC',type(e).__name__,str(e)[:60])
bad={k:v for k,v in outcomes.items() if v[0]!='ok' or v[1]!=6}
print('crash points',len(outcomes),'bad',len(bad))
for k,v in list(bad.items())[:12]: print('  ',k,v)
