import z3
def _r(x):
    return x if z3.is_expr(x) else z3.RealVal(x)
class Q:
    """complex rational function: (re + i im)/d with polynomial z3 terms"""
    def __init__(s,re,im=0,d=1): s.re=_r(re); s.im=_r(im); s.d=_r(d)
    @staticmethod
    def of(x): return x if isinstance(x,Q) else Q(x)
    def __add__(s,o):
        o=Q.of(o)
        if z3.eq(s.d,o.d): return Q(s.re+o.re,s.im+o.im,s.d)
        return Q(s.re*o.d+o.re*s.d, s.im*o.d+o.im*s.d, s.d*o.d)
    __radd__=__add__
    def __neg__(s): return Q(-s.re,-s.im,s.d)
    def __sub__(s,o): return s+(-Q.of(o))
    def __rsub__(s,o): return Q.of(o)+(-s)
    def __mul__(s,o):
        o=Q.of(o); return Q(s.re*o.re-s.im*o.im, s.re*o.im+s.im*o.re, s.d*o.d)
    __rmul__=__mul__
    def inv(s):
        n=s.re*s.re+s.im*s.im
        return Q(s.re*s.d, -s.im*s.d, n)
    def __truediv__(s,o): return s*Q.of(o).inv()
    def __rtruediv__(s,o): return Q.of(o)*s.inv()
