"""C19 probe: Henning melt law monotone in melt fraction; exp atoms + instantiated monotonicity axioms. Real function source."""
import z3, time, ast
from mini import *
import mini
from fractions import Fraction as Fr
# comparisons on R
def _cmp(op):
    def f(a,b):
        d=a-R.of(b); n=d.num; den=d.d()
        # sign of den unknown in general: require den>0 as side assumption (recorded)
        mini.AX.append(den>0) if d.den else None
        return B(op(n))
    return f
R.__gt__=_cmp(lambda n:n>0); R.__ge__=_cmp(lambda n:n>=0); R.__lt__=_cmp(lambda n:n<0); R.__le__=_cmp(lambda n:n<=0)
B.__add__=lambda a,b: NotImplemented
EXP={}
def exp(x):
    x=R.of(x); key=(z3.simplify(x.num).sexpr(),z3.simplify(x.d()).sexpr())
    if key not in EXP:
        v=z3.Real(f'E{len(EXP)}'); mini.AX.append(v>0); EXP[key]=(v,x)
    return R(EXP[key][0])
NP.exp=staticmethod(exp)
def exp_axioms():
    ax=[]; items=list(EXP.values())
    for i,(v,x) in enumerate(items):
        xn=x.num*x.d()
        ax.append(z3.Implies(xn==0, v==1)); ax.append(z3.Implies(xn<=0, v<=1)); ax.append(z3.Implies(xn>=0, v>=1))
        for (w,y) in items[i+1:]:
            d=x-y; dn=d.num*d.d()
            ax.append(z3.Implies(dn<=0, v<=w)); ax.append(z3.Implies(dn>=0, v>=w)); ax.append(z3.Implies(dn==0, v==w))
    return ax
# literal rewriting
class Lit(ast.NodeTransformer):
    def __init__(s,src): s.src=src
    def visit_Constant(s,n):
        if isinstance(n.value,float):
            return ast.copy_location(ast.Call(func=ast.Name(id='_L',ctx=ast.Load()),args=[ast.Constant(ast.get_source_segment(s.src,n))],keywords=[]),n)
        return n
def load2(path,fname,extra):
    src=open(path).read(); tree=ast.parse(src)
    fn=[n for n in tree.body if isinstance(n,ast.FunctionDef) and n.name==fname][0]
    fn.decorator_list=[]; fn.returns=None
    for a in fn.args.args: a.annotation=None
    mod=ast.Module(body=[fn],type_ignores=[]); mod=Lit(src).visit(mod); ast.fix_missing_locations(mod)
    ns=dict(extra); ns['_L']=lambda t: Fr(t); exec(compile(mod,path,'exec'),ns); return ns[fname]
hen=load2('/repo/TidalPy/rheology/partial_melt/melting_models.py','henning',{'np':NP})
T,eta0,etal,mu0,sol,liq,mul=[sym(n) for n in ('T','eta0','etal','mu0','sol','liq','mul')]
cm,cw,s1,s2,p1,p2,sf=[sym(n) for n in ('cm','cw','s1','s2','p1','p2','sf')]
f1,f2=sym('phi1'),sym('phi2')
def call(phi): return hen(phi,T,eta0,etal,mu0,sol,liq,mul,cm,cw,s1,s2,p1,p2,sf)
v1,m1=call(f1); v2,m2=call(f2)
base=[x.num>0 for x in (T,eta0,etal,mu0,sol,mul,cm,cw,s1,s2,p1,p2,sf)]+[liq.num>sol.num, f1.num>=0,f2.num<=1,f1.num<=f2.num, cm.num<1]
def q(name,goal,extra=[]):
    so=z3.Solver(); so.set('timeout',120000); so.add(base+mini.AX+exp_axioms()+extra); so.add(z3.Not(goal))
    t=time.time(); r=so.check(); print(name,r,round(time.time()-t,2), [ (d,so.model()[d]) for d in so.model().decls() if d.name() in('phi1','phi2','cm','cw','etal','mul')] if str(r)=='sat' else '')
q('visc >= liquid visc', v1.num*v1.d()>=etal.num*v1.d()) if False else None
q('viscosity non-increasing in melt fraction', (v1-v2).num>=0)
q('visc >= liquid viscosity', (v1-etal).num>=0)
q('shear >= liquid shear', (m1-mul).num>=0)
q('beyond window: shear == liquid shear', (m2-mul).num==0, [f2.num>(cm+cw).num])
q('beyond window: visc == liquid visc', (v2-etal).num==0, [f2.num>(cm+cw).num])
q('phi=0: premelt values', z3.And((v1-eta0).num==0,(m1-mu0).num==0), [f1.num==0, eta0.num>=etal.num, mu0.num>=mul.num])
