"""C02 probe: one interface step on the REAL interfaces.pyx + reversed.pyx (transliterated), arbitrary pre-state."""
import re, ast, z3, time, sys, itertools
pre=open('p13.py').read()
exec(pre.split("# --- transliterate the diffeq")[0])
from fractions import Fraction as Fr
import math
CT=r'(?:unsigned\s+)?(?:double complex|double|float|int|long|char|size_t|ssize_t|Py_ssize_t|bint|unsigned char|unsigned int)'
class Lit(ast.NodeTransformer):
    def __init__(s,src): s.src=src
    def visit_Constant(s,n):
        if isinstance(n.value,float):
            return ast.copy_location(ast.Call(func=ast.Name(id='_L',ctx=ast.Load()),args=[ast.Constant(ast.get_source_segment(s.src,n))],keywords=[]),n)
        return n
def load_cfunc(path,name):
    src=open(path).read()
    i=src.index(f'cdef void {name}(')
    j=src.index(') noexcept nogil:',i)
    args=src[i+len(f'cdef void {name}('):j]
    names=[re.split(r'[\s\*]+',a.strip())[-1] for a in args.split(',') if a.strip()]
    rest=src[j+len(') noexcept nogil:'):]
    k=re.search(r'\n(?=def |cdef )',rest); body=rest[:k.start()] if k else rest
    lines=[]
    for ln in body.split('\n'):
        m=re.match(r'^(\s*)cdef\s+'+CT+r'\s*\**\s*(.*)$',ln)
        if m:
            if '=' in m.group(2): lines.append(m.group(1)+m.group(2).strip())
            continue
        lines.append(ln)
    code=f"def {name}({', '.join(names)}):"+'\n'.join(lines)
    t=Lit(code).visit(ast.parse(code)); ast.fix_missing_locations(t)
    ns={'_L':lambda t: Fr(t),'cmplx_NAN':None,'cmplx_zero':Q(0),'cf_build_dblcmplx':lambda a,b: Q.of(a)+Q(0,1)*Q.of(b),'pi':Q(z3.Real('PI')),'NAN':None}
    exec(compile(t,name,'exec'),ns); return ns[name]
fwd=load_cfunc('/repo/TidalPy/RadialSolver/interfaces/interfaces.pyx','cf_solve_upper_y_at_interface')
rev=load_cfunc('/repo/TidalPy/RadialSolver/interfaces/reversed.pyx','cf_top_to_bottom_interface_bc')
def nsol(t,st): return 3 if t==0 else (1 if st else 2)
g_lo,g_up,rho_lo,rho_up,G=z3.Reals('g_lo g_up rho_lo rho_up G')   # top of lower layer / bottom of upper layer
def cx(n): a,b=z3.Reals(f'{n}r {n}i'); return Q(a,b)
results=[]
for lt,ls,ut,us in itertools.product((0,1),(True,False),(0,1),(True,False)):
    nl,nu=nsol(lt,ls),nsol(ut,us)
    U=[None]*18
    for j in range(nl):
        for y in range(2*nl): U[j*6+y]=cx(f'U{j}{y}')
    up=[None]*18
    # glue exactly as solver.pyx: interface_gravity = 0.5*(gravity_lower(of upper) + last_layer_upper_gravity)
    ig=(Q(g_up)+Q(g_lo))*Fr(1,2)
    if lt==0 and ut==0: ld=None
    elif ut!=0 and lt==0: ld=Q(rho_up)
    elif ut==0 and lt!=0: ld=Q(rho_lo)
    else:
        if us and ls: ld=Q(rho_up)
        elif us and not ls: ld=Q(rho_up)
        elif (not us) and ls: ld=Q(rho_lo)
        else: ld=None
    fwd(U,up,nl,nu,6,lt,ls,False,ut,us,False,ig,ld,Q(G))
    Cup=[cx(f'C{j}') for j in range(nu)]+[None]*(3-nu)
    Clo=[None]*3
    rev(Clo,Cup,U,Q(g_lo),Q(g_up),Q(rho_lo),Q(rho_up),lt,ut,ls,us,False,False,nl,6)
    def comb(C,V,n,idx): 
        tot=Q(0)
        for j in range(n): tot=tot+C[j]*V[j*6+idx]
        return tot
    # physical y index -> storage index
    def store(t,st): return {0:0,1:1,2:2,3:3,4:4,5:5} if t==0 else ({4:0,'y7':1} if st else {0:0,1:1,4:2,5:3})
    sl,su=store(lt,ls),store(ut,us)
    goals={}
    for y in (0,1,4,5):
        if y in sl and y in su: goals[f'y{y+1} continuous']=(comb(Clo,U,nl,sl[y]),comb(Cup,up,nu,su[y]))
    if lt==0 and ut!=0: goals['y4=0 at solid top']=(comb(Clo,U,nl,3),Q(0))
    if ut==0 and lt!=0: goals['y4=0 at solid bottom']=(comb(Cup,up,nu,3),Q(0))
    fourpiG=Q(4)*Q(z3.Real('PI'))*Q(G)
    def y7(C,V,n,t,st,g):   # y7 = y6 + 4 pi G/g * y2
        s=store(t,st)
        if 'y7' in s: return comb(C,V,n,s['y7'])
        return comb(C,V,n,s[5])+fourpiG/g*comb(C,V,n,s[1])
    if (lt!=0 and ls) or (ut!=0 and us):
        if not (lt==0 and ut==0): goals['y7 continuous']=(y7(Clo,U,nl,lt,ls,ig),y7(Cup,up,nu,ut,us,ig))
    for name,(a,b) in goals.items():
        d=a-b
        so=z3.Solver(); so.set('timeout',60000); so.add(g_lo>0,g_up>0,rho_lo>0,rho_up>0,G>0)
        so.add(z3.Or(d.re!=0,d.im!=0))
        t=time.time(); r=so.check(); results.append(((lt,ls,ut,us),name,str(r),round(time.time()-t,2)))
kinds={0:'sol',1:'liq'}
for (lt,ls,ut,us),name,r,dt in results:
    if r!='unsat': print(f"{kinds[lt]}{'-st' if ls else '-dy'} -> {kinds[ut]}{'-st' if us else '-dy'}: {name}: {r} {dt}")
print('goals',len(results),'unsat',sum(1 for x in results if x[2]=='unsat'),'time',round(sum(x[3] for x in results),1))
