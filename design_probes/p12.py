import sys,time,z3
from mini import *
import mini
lmax=int(sys.argv[1]); N=int(sys.argv[2])
def sign(x): return R(z3.If(x.num*x.d()>0,z3.RealVal(1),z3.If(x.num*x.d()<0,z3.RealVal(-1),z3.RealVal(0))))
NP.sign=staticmethod(sign)
e=sym('e'); oblh=sym('oblh','angle'); obl=2*oblh
ecc={l:load(f'/repo/TidalPy/tides/eccentricity_funcs/orderl{l}.py',f'eccentricity_funcs_trunc{N}',{'np':NP})(e) for l in range(2,lmax+1)}
inc={l:load(f'/repo/TidalPy/tides/inclination_funcs/orderl{l}.py','calc_inclination',{'np':NP})(obl) for l in range(2,lmax+1)}
guc=load('/repo/TidalPy/tides/universal_coeffs.py','get_universal_coeffs',{'TidalPyValueException':Exception})
ct=load('/repo/TidalPy/tides/modes/mode_manipulation.py','calculate_terms',{'np':NP,'get_universal_coeffs':guc,'Dict':dict,'Tuple':tuple})
# abstract tables: keep the key structure and aliasing of the real tables, replace each distinct value object by a fresh symbol
def abstract(tab,prefix):
    memo={}
    def fresh(v,key):
        if id(v) not in memo: memo[id(v)]=sym(f'{prefix}_{len(memo)}')
        return memo[id(v)]
    out={}
    for l,d in tab.items():
        if prefix=='E': out[l]={p:{q:fresh(v,(l,p,q)) for q,v in dd.items()} for p,dd in d.items()}
        else: out[l]={k:fresh(v,(l,k)) for k,v in d.items()}
    return out
if len(sys.argv)>3: ecc=abstract(ecc,'E'); inc=abstract(inc,'F')
n=sym('n'); o=sym('o'); a=sym('a'); Rr=sym('Rr')
t0=time.time()
uf,res=ct(o,n,a,Rr,ecc,inc)
print('executed',round(time.time()-t0,2),'unique freqs',len(uf),'entries',sum(len(v) for v in res.values()))
tot=0;bad=0
for sig,byl in res.items():
    for l,(h,dM,dw,dO) in byl.items():
        diff=h-(n*dM-o*dO)
        so=z3.Solver(); so.set('timeout',60000); so.add(mini.AX); so.add(diff.num!=0)
        t1=time.time(); r=so.check(); tot+=time.time()-t1
        if str(r)!='unsat': bad+=1; print(sig,l,r)
print('not-unsat',bad,'solver total',round(tot,2))
