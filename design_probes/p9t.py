import z3, time, ast, sys
from fractions import Fraction as Fr
from math import comb, factorial
exec(open('p8c.py').read().split("s_,c_=z3.Reals")[0])   # pw, RV, F_lmp
s_,c_=z3.Reals('s c')

t=z3.Real('t'); W=1+t*t
def Wp(n): return pw(W,n)
class V:
    def __init__(s,n,k=0): s.n=n; s.k=k
    @staticmethod
    def of(x):
        if isinstance(x,V): return x
        if isinstance(x,int): return V(z3.RealVal(x))
        if isinstance(x,float):
            f=Fr(x); return V(z3.RealVal(str(f.numerator))/z3.RealVal(str(f.denominator)))
        raise TypeError(x)
    def al(a,b):
        b=V.of(b); k=max(a.k,b.k)
        return a.n*Wp(k-a.k), b.n*Wp(k-b.k), k
    def __add__(a,b): x,y,k=a.al(b); return V(x+y,k)
    __radd__=__add__
    def __sub__(a,b): x,y,k=a.al(b); return V(x-y,k)
    def __rsub__(a,b): x,y,k=a.al(b); return V(y-x,k)
    def __mul__(a,b): b=V.of(b); return V(a.n*b.n,a.k+b.k)
    __rmul__=__mul__
    def __neg__(a): return V(-a.n,a.k)
    def __pow__(a,n):
        assert isinstance(n,int) and n>=0
        return V(pw(a.n,n),a.k*n)

def F_lmp(l,m,p,sinI,cosI):
    k=(l-m)//2
    tot=V(z3.RealVal(0))
    for tt in range(0,min(p,k)+1):
        c0=Fr(factorial(2*l-2*tt), factorial(tt)*factorial(l-tt)*factorial(l-m-2*tt)*2**(2*l-2*tt))
        inner=V(z3.RealVal(0))
        for s in range(0,m+1):
            cs_=0
            for c in range(0, l+1):
                a=l-m-2*tt+s; b=m-s; d=p-tt-c
                if c>a or d<0 or d>b: continue
                cs_+=comb(a,c)*comb(b,d)*(-1)**(c-k)
            if cs_==0: continue
            inner=inner+ V(z3.RealVal(comb(m,s)*cs_))*cosI**s
        tot=tot+V(RV(c0))*sinI**(l-m-2*tt)*inner
    return tot

class Angle:
    def __init__(s,k): s.k=k   # angle = k * (I/2)
    def __truediv__(s,o): assert o==2.; return Angle(Fr(s.k)/2)
    def __rmul__(s,o): return Angle(s.k*int(o))
def cs(k):
    k=int(k); re,im=V(z3.RealVal(1)),V(z3.RealVal(0))
    cc=V(1-t*t,1); ss=V(2*t,1)
    for _ in range(k): re,im=re*cc-im*ss, re*ss+im*cc
    return re,im
class NP:
    @staticmethod
    def sin(a): return cs(a.k)[1]
    @staticmethod
    def cos(a): return cs(a.k)[0]
    @staticmethod
    def ones_like(a): return V(z3.RealVal(1))
l=int(sys.argv[1])
src=open(f'/repo/TidalPy/tides/inclination_funcs/orderl{l}.py').read()
tree=ast.parse(src)
fn=[n for n in tree.body if isinstance(n,ast.FunctionDef) and n.name=='calc_inclination'][0]
fn.decorator_list=[]; fn.returns=None
for a in fn.args.args: a.annotation=None
mod=ast.Module(body=[fn],type_ignores=[]); ast.fix_missing_locations(mod)
ns={'np':NP}
exec(compile(mod,'<incl>','exec'),ns)
res=ns['calc_inclination'](Angle(2))   # I = 2*(I/2)
sinI=NP.sin(Angle(2)); cosI=NP.cos(Angle(2))
tol=z3.RealVal("1e-12")
tot=0; worst=0
for (m,p),val in sorted(res.items()):
    f_=F_lmp(l,m,p,sinI,cosI); orc=f_*f_
    d1=val-orc; b1=V(tol)*(1+orc)
    x,y,k=d1.al(b1)
    q=z3.Or(x>y, -x>y)
    s=z3.Solver(); s.set('timeout',120000); s.add(t>=0,t<=1); s.add(q)
    t0=time.time(); r=s.check(); dt=time.time()-t0; tot+=dt; worst=max(worst,dt)
    if str(r)!='unsat': print((m,p),r,round(dt,2), s.model() if str(r)=='sat' else '')
print('l',l,'entries',len(res),'total',round(tot,1),'worst',round(worst,2))
