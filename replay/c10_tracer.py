"""Executed by /venv/bin/python: provenance tracing of the REAL quick_tidal_dissipation / quick_dual_body_tidal_dissipation (TidalPy/toolbox/quick_tides.py).

The numeric leaves imported by quick_tides are wrapped at their import site (find_mode_manipulators outputs, calc_tidal_susceptibility, CPL/CTL helpers, compliance_dict_helper, Kepler and
unit conversions, the dynamics derivatives); inputs are tagged symbols. For every configuration the provenance term of each returned quantity is reported together with the term of the
REFERENCE pipeline: the same leaves called directly in the documented order with the documented arguments (written here independently of quick_tides.py).
stdin: JSON {"configs": [ {...}, ... ]} ; stdout: @@RESULT@@ json list of {"config", "got": {name: {value, term}}, "want": {...}}"""
import sys, os, json, warnings, math, logging
sys.stdin_data = sys.stdin.read()
sys.stdin = open(os.devnull)
warnings.filterwarnings('ignore')
logging.disable(logging.CRITICAL)
import numpy as np
sys.path.insert(0, os.path.dirname(os.path.abspath(__file__)))
from prov import PROV, KEEP, TF, TD, TT, term_of, wrap_out, plain, traced
import TidalPy
import TidalPy.toolbox.quick_tides as qt

_fmm = qt.find_mode_manipulators


def fmm(*a, **k):
    ct, cm, ef, inf = _fmm(*a, **k)
    return traced('calculate_terms', ct), traced('collapse_modes', cm), traced('ecc_func', ef), traced('incl_func', inf)


qt.find_mode_manipulators = fmm
for nm in ('calc_tidal_susceptibility', 'cpl_neg_imk_helper_func', 'ctl_neg_imk_helper_func', 'compliance_dict_helper', 'days2rads', 'orbital_motion2semi_a',
           'semia_eccen_derivatives', 'semia_eccen_derivatives_dual', 'spin_rate_derivative'):
    setattr(qt, nm, traced(nm, getattr(qt, nm)))
LEAF = {nm: getattr(qt, nm) for nm in ('calc_tidal_susceptibility', 'cpl_neg_imk_helper_func', 'ctl_neg_imk_helper_func', 'compliance_dict_helper', 'days2rads', 'orbital_motion2semi_a',
                                       'semia_eccen_derivatives', 'semia_eccen_derivatives_dual', 'spin_rate_derivative')}


def jval(v):
    if v is None:
        return None
    if isinstance(v, (complex, np.complexfloating)):
        return [float(v.real), float(v.imag)]
    try:
        a = np.asarray(v)
        if a.dtype.kind == 'c':
            return [float(x) for x in np.concatenate([a.real.ravel(), a.imag.ravel()])]
        if a.dtype.kind in 'fiub':
            return [float(x) for x in a.ravel()] if a.ndim else float(a)
    except Exception:
        pass
    return None


def T(name, v):
    return TF(v, ['in', name])


def describe(d):
    out = {}
    for k, v in d.items():
        if isinstance(v, dict) and not isinstance(v, TD) and k in ('host', 'secondary'):
            for kk, vv in describe(v).items():
                out['%s.%s' % (k, kk)] = vv
            continue
        if k in ('use_array',):
            continue
        if isinstance(v, dict) and not isinstance(v, TD):
            for kk, vv in v.items():
                out['%s[%s]' % (k, kk)] = {'value': jval(vv), 'term': term_of(vv)}
            continue
        out[k] = {'value': jval(v), 'term': term_of(v)}
    return out


def reference_single(p, c, tag=''):
    """the documented pipeline for ONE body p raised by a host of mass p['host_mass'] (all leaves called directly)"""
    n = p['orbital_frequency'] if p.get('orbital_frequency') is not None else LEAF['days2rads'](p['orbital_period'])
    a = LEAF['orbital_motion2semi_a'](n, p['host_mass'], p['target_mass'])
    if p.get('spin_frequency') is not None:
        spin = p['spin_frequency']
    elif p.get('spin_period') is not None:
        spin = LEAF['days2rads'](p['spin_period'])
    else:
        spin = n
    use_obl = bool(c.get('use_obliquity', True)) and p.get('obliquity') is not None
    obl = p['obliquity'] if p.get('obliquity') is not None else 0.
    ecc = p['eccentricity'] if p.get('eccentricity') is not None else 0.
    ct, cm, ef, inf = qt.find_mode_manipulators(max_order_l=c['max_tidal_order_l'], eccentricity_truncation_lvl=c['eccentricity_truncation_lvl'], use_obliquity=use_obl)
    sus = LEAF['calc_tidal_susceptibility'](p['host_mass'], p['target_radius'], a)
    er = ef(ecc)
    orr = inf(obl)
    uf, terms = ct(spin, n, a, p['target_radius'], er, orr, multiply_modes_by_sign=True)
    rheo = c['rheology'].lower()
    if rheo in ('cpl', 'fixed_q'):
        comp = LEAF['cpl_neg_imk_helper_func'](uf, p['fixed_k2'], p['fixed_q'])
        mu, cplctl = 1., True
    elif rheo == 'ctl':
        from TidalPy.tides.ctl_funcs import linear_dt
        dt = p['fixed_dt'] if p.get('fixed_dt') is not None else (1. / p['fixed_q']) * (1. / n)
        comp = LEAF['ctl_neg_imk_helper_func'](uf, p['fixed_k2'], linear_dt, (dt,))
        mu, cplctl = 1., True
    else:
        from TidalPy.rheology.complex_compliance import known_models
        mu, cplctl = p['shear_modulus'], False
        comp = LEAF['compliance_dict_helper'](uf, known_models[rheo], (p['shear_modulus'] ** (-1), p['viscosity']), tuple(p['cc_inputs']) if p.get('cc_inputs') is not None else tuple())
    res = cm(p['target_gravity'], p['target_radius'], p['target_density'], mu, p.get('tidal_scale', 1.), p['host_mass'], sus, comp, terms, max_order_l=c['max_tidal_order_l'], cpl_ctl_method=cplctl)
    out = {'tidal_heating': res[0], 'dUdM': res[1], 'dUdw': res[2], 'dUdO': res[3], 'tidal_torque': p['host_mass'] * res[3], 'semi_major_axis': a, 'orbital_frequency': n,
           'love_number_by_orderl': res[4], 'negative_imk_by_orderl': res[5], 'effective_q_by_orderl': res[6]}
    out['_spin'], out['_ecc'] = spin, ecc
    return out


def run_single(c):
    p = {}
    base = dict(host_mass=1.9e27, target_radius=1.8e6, target_mass=8.9e22, target_gravity=1.8, target_density=3500., target_moi=1.0e35, viscosity=1.0e17, shear_modulus=5.0e10,
                eccentricity=0.07, obliquity=0.2, orbital_frequency=2.0e-5, orbital_period=3.6, spin_frequency=2.7e-5, spin_period=2.7, fixed_k2=0.33, fixed_q=120., fixed_dt=40., tidal_scale=0.9)
    for k in c['given']:
        p[k] = T(k, base[k])
    if c.get('cc_inputs'):
        p['cc_inputs'] = (T('cc_alpha', 0.31), T('cc_zeta', 1.7))
    kw = dict(p)
    if 'cc_inputs' in kw:
        kw['complex_compliance_inputs'] = kw.pop('cc_inputs')
    kw.update(rheology=c['rheology'], max_tidal_order_l=c['max_tidal_order_l'], eccentricity_truncation_lvl=c['eccentricity_truncation_lvl'], use_obliquity=c.get('use_obliquity', True),
              calculate_orbit_spin_derivatives=True)
    if c.get('via') == 'dict':
        # the dictionary front end: host / secondary given as dictionaries with the documented keys
        kw.pop('calculate_orbit_spin_derivatives')
        host = {'mass': kw.pop('host_mass')}
        sec = {'radius': kw.pop('target_radius'), 'mass': kw.pop('target_mass'), 'gravity_surface': kw.pop('target_gravity'), 'density_bulk': kw.pop('target_density'), 'moi': kw.pop('target_moi')}
        got = qt.single_dissipation_from_dict_or_world_instance(host, sec, **kw)
    else:
        got = qt.quick_tidal_dissipation(**kw)
    for k in ('fixed_k2', 'fixed_q', 'tidal_scale'):
        p.setdefault(k, {'fixed_k2': 0.3, 'fixed_q': 100., 'tidal_scale': 1.}[k])
    ref = reference_single(p, c)
    ds = LEAF['spin_rate_derivative'](ref['dUdO'], p['target_moi'], p['host_mass'])
    da, de = LEAF['semia_eccen_derivatives'](ref['semi_major_axis'], ref['orbital_frequency'], ref['_ecc'], p['target_mass'], ref['dUdM'], ref['dUdw'], p['host_mass'])
    ref.update(spin_rate_derivative=ds * 1., eccentricity_derivative=de * 1., semi_major_axis_derivative=da * 1.)
    ref = {k: v for k, v in ref.items() if not k.startswith('_')}
    return describe(got), describe(ref)


def run_dual(c):
    base = {'radii': (7.0e7, 1.82e6), 'masses': (1.9e27, 8.9e22), 'gravities': (24.8, 1.8), 'densities': (1300., 3500.), 'mois': (2.4e42, 1.1e35), 'viscosities': (1.0e20, 1.0e16),
            'shear_moduli': (1.0e11, 5.0e10), 'obliquities': (0.1, 0.2), 'spin_frequencies': (5.0e-5, 3.0e-5), 'fixed_k2s': (0.31, 0.29), 'fixed_qs': (90., 110.), 'tidal_scales': (0.8, 0.9)}
    kw = {}
    P = [{}, {}]
    names = {'radii': 'target_radius', 'masses': 'target_mass', 'gravities': 'target_gravity', 'densities': 'target_density', 'mois': 'target_moi', 'viscosities': 'viscosity',
             'shear_moduli': 'shear_modulus', 'obliquities': 'obliquity', 'spin_frequencies': 'spin_frequency', 'fixed_k2s': 'fixed_k2', 'fixed_qs': 'fixed_q', 'tidal_scales': 'tidal_scale'}
    for k in c['given_pairs']:
        pair = tuple(T('%s#%d' % (k, i), base[k][i]) for i in range(2))
        kw[k] = pair
        for i in range(2):
            P[i][names[k]] = pair[i]
    if c.get('cc_inputs'):
        cc = ((T('cc_alpha#0', 0.31), T('cc_zeta#0', 1.7)), (T('cc_alpha#1', 0.27), T('cc_zeta#1', 0.8)))
        kw['complex_compliance_inputs'] = cc
        P[0]['cc_inputs'], P[1]['cc_inputs'] = cc
    e = T('eccentricity', 0.07)
    n = T('orbital_frequency', 2.0e-5)
    kw.update(eccentricity=e, orbital_frequency=n, rheologies=c['rheology'], max_tidal_order_l=c['max_tidal_order_l'], eccentricity_truncation_lvl=c['eccentricity_truncation_lvl'],
              use_obliquity=c.get('use_obliquity', True))
    if c.get('via') == 'dict':
        keys = {'radii': 'radius', 'masses': 'mass', 'gravities': 'gravity_surface', 'densities': 'density_bulk', 'mois': 'moi'}
        hd, sd = {}, {}
        for k_, nm_ in keys.items():
            pair = kw.pop(k_)
            hd[nm_], sd[nm_] = pair
        got = qt.dual_dissipation_from_dict_or_world_instance(hd, sd, **kw)
    else:
        got = qt.quick_dual_body_tidal_dissipation(**kw)
    refs = []
    for i in range(2):
        p = dict(P[i])
        p['host_mass'] = P[1 - i]['target_mass']
        p['eccentricity'], p['orbital_frequency'] = e, n
        for k in ('fixed_k2', 'fixed_q', 'tidal_scale'):
            p.setdefault(k, {'fixed_k2': 0.3, 'fixed_q': 100., 'tidal_scale': 1.}[k])
        r = reference_single(p, c)
        r['spin_rate_derivative'] = LEAF['spin_rate_derivative'](r['dUdO'], p['target_moi'], p['host_mass']) * 1.
        refs.append((p, r))
    (p0, r0), (p1, r1) = refs
    a_pair = LEAF['orbital_motion2semi_a'](n, p0['target_mass'], p1['target_mass'])     # Kepler III with (host, secondary) masses as documented
    da, de = LEAF['semia_eccen_derivatives_dual'](a_pair, n, e, p0['target_mass'], r0['dUdM'], r0['dUdw'], p1['target_mass'], r1['dUdM'], r1['dUdw'])
    ref = {'host': {k: v for k, v in r0.items() if not k.startswith('_')}, 'secondary': {k: v for k, v in r1.items() if not k.startswith('_')},
           'eccentricity_derivative': de * 1., 'semi_major_axis_derivative': da * 1.}
    return describe(got), describe(ref)


spec = json.loads(sys.stdin_data)
results = []
for c in spec['configs']:
    try:
        got, want = (run_dual if c.get('dual') else run_single)(c)
        results.append({'config': c, 'got': got, 'want': want})
    except BaseException as ex:
        import traceback
        results.append({'config': c, 'error': repr(ex)[:300], 'trace': traceback.format_exc()[-1200:]})
print('\n@@RESULT@@' + json.dumps(results))
