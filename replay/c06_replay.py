"""Executed by /venv/bin/python in a subprocess: call the real radial_solver with a configuration, report exception / success protocol / input arrays before-after.
stdin JSON: {layers: [[type, static, incomp], ...], solve_for, nondimensionalize, raise_on_fail, slices_per_layer, break: <name>, ...}; stdout last line @@RESULT@@{json}"""
import sys, json, os
import numpy as np
cfg = json.load(sys.stdin)
import TidalPy
from TidalPy.RadialSolver import radial_solver
from TidalPy.utilities.spherical_helper import calculate_mass_gravity_arrays
from TidalPy.rheology.models import Maxwell
layers = cfg.get('layers', [['solid', True, False]])
N = cfg.get('slices_per_layer', 20)
planet_r = 6000.0e3
nl = len(layers)
bounds = [planet_r * (i + 1) / nl for i in range(nl)]
parts = []
lo = 0.1
for i, b in enumerate(bounds):
    seg = np.linspace(lo, b, N + (0 if i == 0 else 1))
    parts.append(seg if i == 0 else seg[1:])
    lo = b
radius = np.concatenate(parts)
density = np.empty_like(radius); visc = np.empty_like(radius); shear = np.empty_like(radius)
for i, (t, st, inc) in enumerate(layers):
    m = (radius <= bounds[i]) & (radius > (bounds[i - 1] if i else -1))
    density[m] = 8500. - 1500. * i
    if cfg.get('gradient'):
        # density decreasing linearly inside each layer (so that 'top of the layer below' and 'bottom of the layer above' are different numbers)
        density[m] = np.linspace(8500. - 1500. * i + 400., 8500. - 1500. * i - 400., int(m.sum()))
    visc[m] = 1e26 if t == 'solid' else 1e6
    shear[m] = 1e11 if t == 'solid' else 0.0
bulk = 1.0e11 * np.ones_like(radius)
freq = cfg.get('frequency', 1.0 / (86400. * 0.2))
cshear = np.empty(radius.size, dtype=np.complex128)
Maxwell().vectorize_modulus_viscosity(freq, shear, visc, cshear)
vol, mass, grav = calculate_mass_gravity_arrays(radius, density)
rho_bulk = float(np.sum(mass) / np.sum(vol))
upper = tuple(bounds)
if cfg.get('break') == 'thin_layer':
    upper = tuple([radius[2]] + list(bounds[1:])) if nl > 1 else (radius[2],)
if cfg.get('break') == 'nan_density':
    rho_bulk = float('nan')
if cfg.get('break') == 'zero_density':
    rho_bulk = 0.0
if cfg.get('break') == 'inf_density':
    rho_bulk = float('inf')
if cfg.get('break') == 'nan_frequency':
    freq = float('nan')
arrays = [radius, density, grav, bulk, cshear]
copies = [a.copy() for a in arrays]
out = {'exception': None, 'success': None}
kw = dict(degree_l=cfg.get('degree_l', 2), solve_for=tuple(cfg['solve_for']) if cfg.get('solve_for') is not None else None, use_kamata=True,
          integration_method=cfg.get('method', 'rk45'), integration_rtol=1e-6, integration_atol=1e-9, nondimensionalize=cfg.get('nondimensionalize', True),
          raise_on_fail=cfg.get('raise_on_fail', False), verbose=False, max_num_steps=cfg.get('max_num_steps', 500000))
if 'expected_size' in cfg:
    kw['expected_size'] = int(cfg['expected_size'])
lt = tuple(l[0] for l in layers)
if cfg.get('break') == 'bad_layer_type':
    lt = tuple(['plasma'] + list(lt[1:]))
if cfg.get('break') == 'bad_method':
    kw['integration_method'] = 'euler'
call_arrays = {'radius': radius, 'density': density, 'gravity': grav, 'bulk': bulk, 'shear': cshear}
if cfg.get('truncate'):
    # a mismatching array length must be rejected before the C level is reached (the guard elements behind the view keep the process alive if it is not)
    nm_ = cfg['truncate']
    buf_ = np.concatenate([call_arrays[nm_], call_arrays[nm_][:8]])
    call_arrays[nm_] = buf_[:call_arrays[nm_].size - 5]
st_t, inc_t = tuple(bool(l[1]) for l in layers), tuple(bool(l[2]) for l in layers)
if cfg.get('short_tuple') == 'is_static':
    st_t = st_t[:-1]
if cfg.get('short_tuple') == 'is_incompressible':
    inc_t = inc_t[:-1]
if cfg.get('short_tuple') == 'upper_radius':
    upper = upper[:-1]
try:
    sol = radial_solver(call_arrays['radius'], call_arrays['density'], call_arrays['gravity'], call_arrays['bulk'], call_arrays['shear'], freq, rho_bulk, lt, st_t, inc_t, upper, **kw)
    out['success'] = bool(sol.success)
    out['message'] = str(sol.message)
    out['result_is_none'] = sol.result is None
    out['love_is_none'] = sol.love is None
    out['k_is_none'] = sol.k is None
    if sol.success:
        out['k'] = [complex(x).real for x in np.atleast_1d(sol.k)]
        out['finite'] = bool(np.all(np.isfinite(sol.result)))
        # Love numbers re-derived from the surface row of the public result array, per solution type: k = y5(R) - 1, h = g_s y1(R), l = g_s y3(R)
        res = np.asarray(sol.result)
        nty = res.shape[0] // 6
        gs = float(grav[-1])
        love = np.atleast_2d(np.asarray(sol.love))
        worst = 0.0
        rows = []
        for t in range(nty):
            k_, h_, l_ = res[6 * t + 4, -1] - 1.0, gs * res[6 * t + 0, -1], gs * res[6 * t + 2, -1]
            for a, b in zip((k_, h_, l_), love[t]):
                worst = max(worst, abs(a - b) / (abs(a) + abs(b) + 1e-300))
            rows.append([[complex(k_).real, complex(k_).imag], [complex(love[t][0]).real, complex(love[t][0]).imag]])
        out['love_vs_result_surface'] = worst
        # continuity of the potential y5 (and of y1, y2, y6 where neither side is a static liquid) between the last slice of a layer and the first slice of the next:
        # the upper layer is started from the interface map of the lower layer's top values, so the two slices must agree to round-off
        jumps = []
        idx = 0
        counts = [int(((radius <= bounds[i]) & (radius > (bounds[i - 1] if i else -1))).sum()) for i in range(nl)]
        for i in range(nl - 1):
            idx += counts[i]
            lo_static_liq = layers[i][0] != 'solid' and bool(layers[i][1])
            up_static_liq = layers[i + 1][0] != 'solid' and bool(layers[i + 1][1])
            rows = [4] if (lo_static_liq or up_static_liq) else [0, 1, 4, 5]
            for t in range(nty):
                for rw in rows:
                    a_, b_ = res[6 * t + rw, idx - 1], res[6 * t + rw, idx]
                    jumps.append(float(abs(a_ - b_) / (abs(a_) + abs(b_) + 1e-300)))
        out['interface_jumps_max'] = max(jumps) if jumps else 0.0
        out['love'] = [[[complex(v).real, complex(v).imag] for v in love[t]] for t in range(nty)]
        out['love_rows'] = rows
except BaseException as e:
    out['exception'] = type(e).__name__
    out['exception_text'] = str(e)[:200]
diffs = []
for a, c in zip(arrays, copies):
    with np.errstate(all='ignore'):
        d = np.abs(a - c) / (np.abs(c) + 1e-300)
        d = np.where(~np.isfinite(a) & np.isfinite(c), 1e300, d)        # a finite input that came back NaN / inf is a change (not a value to be ignored)
    d = d[np.isfinite(d)]
    diffs.append(float(d.max()) if d.size else 0.0)
out['max_rel_change'] = diffs
out['radius_last'] = float(radius[-1])
print('\n@@RESULT@@' + json.dumps(out))
