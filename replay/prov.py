"""Provenance helpers shared by the tracers executed in /venv/bin/python (c13_tracer.py, c10_tracer.py): a float subclass that carries a term through inline arithmetic,
term_of / wrap_out / traced (uninterpreted leaf functions). Terms are JSON lists: ['in', name] | ['c', repr] | ['app', f, args, kwargs] | ['proj', i, t] | ['op', sym, a, b] | ..."""
import hashlib
import numpy as np

PROV, KEEP = {}, []


class TF(float):
    def __new__(cls, v, term):
        o = float.__new__(cls, v)
        o.term = term
        return o

    def _bin(self, other, sym, f, rev=False):
        if isinstance(other, np.ndarray):
            return NotImplemented
        try:
            ov = float(other)
        except (TypeError, ValueError):
            return NotImplemented
        a, b = (term_of(other), self.term) if rev else (self.term, term_of(other))
        val = f(ov, float(self)) if rev else f(float(self), ov)
        return TF(val, ['op', sym, a, b])

    def __add__(self, o): return self._bin(o, '+', lambda a, b: a + b)
    def __radd__(self, o): return self._bin(o, '+', lambda a, b: a + b, True)
    def __sub__(self, o): return self._bin(o, '-', lambda a, b: a - b)
    def __rsub__(self, o): return self._bin(o, '-', lambda a, b: a - b, True)
    def __mul__(self, o): return self._bin(o, '*', lambda a, b: a * b)
    def __rmul__(self, o): return self._bin(o, '*', lambda a, b: a * b, True)
    def __truediv__(self, o): return self._bin(o, '/', lambda a, b: a / b)
    def __rtruediv__(self, o): return self._bin(o, '/', lambda a, b: a / b, True)
    def __neg__(self): return TF(-float(self), ['op', 'neg', self.term])
    def __pos__(self): return self
    def __abs__(self): return TF(abs(float(self)), ['app', 'abs', [self.term], []])

    def __pow__(self, o):
        try:
            ov = float(o)
        except (TypeError, ValueError):
            return NotImplemented
        return TF(float(self) ** ov, ['app', 'pow', [self.term, term_of(o)], []])


class TD(dict):
    term = None


class TT(tuple):
    term = None


def term_of(x):
    t = getattr(x, 'term', None)
    if t is not None:
        return t
    if id(x) in PROV:
        return PROV[id(x)]
    if isinstance(x, (bool, np.bool_)):
        return ['c', repr(bool(x))]
    if isinstance(x, (int, float, np.floating, np.integer)):
        return ['c', repr(float(x))]
    if isinstance(x, (complex, np.complexfloating)):
        return ['c', repr(complex(x))]
    if isinstance(x, (str, type(None))):
        return ['c', repr(x)]
    if isinstance(x, np.ndarray):
        if x.ndim == 0 and x.dtype.kind == 'f':
            return ['c', repr(float(x))]
        return ['c', 'ndarray:' + hashlib.sha256(np.ascontiguousarray(x).tobytes()).hexdigest()[:20]]
    if isinstance(x, dict):
        return ['dict', [[repr(k), term_of(v)] for k, v in x.items()]]
    if isinstance(x, (tuple, list)):
        return ['tup', [term_of(v) for v in x]]
    if callable(x):
        return ['fn', getattr(x, '__name__', type(x).__name__)]
    return ['c', 'object:' + type(x).__name__]


def wrap_out(v, term):
    if isinstance(v, (float, np.floating)) or (isinstance(v, np.ndarray) and v.ndim == 0 and v.dtype.kind == 'f'):
        return TF(float(v), term)
    if isinstance(v, tuple):
        t = TT(wrap_out(x, ['proj', i, term]) for i, x in enumerate(v))
        t.term = term
        return t
    if isinstance(v, dict) and type(v) is dict:
        d = TD(v)
        d.term = term
        return d
    PROV[id(v)] = term
    KEEP.append(v)
    return v


def plain(x):
    if isinstance(x, TF):
        return float(x)
    if isinstance(x, TT) or type(x) is tuple:
        return tuple(plain(v) for v in x)
    if type(x) is list:
        return [plain(v) for v in x]
    if isinstance(x, TD):
        return {k: plain(v) for k, v in x.items()}
    return x


def traced(name, f):
    def g(*a, **k):
        term = ['app', name, [term_of(x) for x in a], [[kk, term_of(v)] for kk, v in sorted(k.items())]]
        return wrap_out(f(*[plain(x) for x in a], **{kk: plain(v) for kk, v in k.items()}), term)
    g.__name__ = name
    g.__wrapped__ = f
    return g


