"""module-level study function for the real multiprocessing replay (must be picklable); phase and failing cases are read from files at call time
(worker processes may come from a fork server started earlier, so environment variables set later are not visible)"""
import os
import numpy as np
COUNTER_DIR = os.environ.get('C18_COUNTER_DIR', '/tmp')


def _read(name, default=''):
    try:
        return open(os.path.join(COUNTER_DIR, name)).read().strip()
    except OSError:
        return default


def study(run_dir, x, y, x_name, y_name):
    tag = os.path.basename(run_dir)
    phase = _read('PHASE', '0')
    with open(os.path.join(COUNTER_DIR, tag + '.' + phase), 'a') as f:
        f.write('x')
    n = int(tag.split('_run_')[-1])
    fail = set(int(v) for v in _read('FAIL').split(',') if v)
    if n in fail and phase == '1':
        raise ValueError('case %d fails' % n)
    return {'value': np.asarray([x * 1000.0 + y])}
