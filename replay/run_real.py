"""Executed by /venv/bin/python: call real TidalPy functions on concrete inputs (replay of solver models).
stdin: JSON {"calls":[{"module":m,"func":f,"args":[...],"kwargs":{...},"attr_path":[...]}]} ; stdout: last line JSON list of results."""
import sys, json, os, importlib, traceback
os.environ.setdefault('TIDALPY_TEST_MODE', '1')
import numpy as np

def dec(x):
    if isinstance(x, dict):
        if 'c' in x and len(x) == 1:
            return complex(x['c'][0], x['c'][1])
        if 'a' in x:
            return np.array([dec(v) for v in x['a']], dtype=x.get('dtype', 'float64')).reshape(x.get('shape', -1))
        if 't' in x:
            return tuple(dec(v) for v in x['t'])
        return {k: dec(v) for k, v in x.items()}
    if isinstance(x, list):
        return [dec(v) for v in x]
    return x

def enc(x):
    if isinstance(x, (complex, np.complexfloating)):
        return {'c': [float(x.real), float(x.imag)]}
    if isinstance(x, (np.floating, float)):
        return float(x)
    if isinstance(x, (np.integer, int)) and not isinstance(x, bool):
        return int(x)
    if isinstance(x, (bool, np.bool_)):
        return bool(x)
    if isinstance(x, np.ndarray):
        return {'a': [enc(v) for v in x.ravel().tolist()], 'shape': list(x.shape), 'dtype': str(x.dtype)}
    if isinstance(x, (tuple, list)):
        return [enc(v) for v in x]
    if isinstance(x, dict) or hasattr(x, 'items'):
        return {str(k): enc(v) for k, v in x.items()}
    if x is None or isinstance(x, str):
        return x
    if callable(x):
        # function objects (lookup dictionaries): module-qualified name of the underlying Python function
        g = getattr(x, 'py_func', x)
        return 'fn:%s.%s' % (getattr(g, '__module__', '?'), getattr(g, '__name__', repr(g)))
    return repr(x)

spec = json.load(sys.stdin)
out = []
for c in spec['calls']:
    try:
        m = importlib.import_module(c['module'])
        f = m
        for p in c['func'].split('.'):
            f = getattr(f, p)
        if c.get('py_func') and hasattr(f, 'py_func'):
            f = f.py_func
        if c.get('get_attr'):
            out.append({'ok': True, 'value': enc(f)})
            continue
        if 'init_args' in c:
            obj = f(*dec(c['init_args']), **dec(c.get('init_kwargs', {})))
            f = getattr(obj, c.get('method', '__call__'))
        call_args = dec(c.get('args', []))
        r = f(*call_args, **dec(c.get('kwargs', {})))
        if c.get('return_args'):
            # the (possibly mutated) argument objects of THIS call
            r = [r] + [call_args[i] for i in c['return_args']]
        out.append({'ok': True, 'value': enc(r)})
    except BaseException as e:
        out.append({'ok': False, 'error': repr(e), 'type': type(e).__name__, 'trace': traceback.format_exc()[-1500:]})
print('\n@@RESULT@@' + json.dumps(out))
