"""Executed by /venv/bin/python: public-API replay for the C11 assembly obligations.
Calls quick_tidal_dissipation / quick_dual_body_tidal_dissipation at generic points and reports the residuals of the balances and of the
argument plumbing (relative to the sum of the absolute values of the terms). stdout: @@RESULT@@ json"""
import sys, os, json, warnings
sys.stdin = open(os.devnull)
warnings.filterwarnings('ignore')
import numpy as np
import logging
logging.disable(logging.CRITICAL)
from TidalPy.constants import G
from TidalPy.toolbox.quick_tides import quick_tidal_dissipation, quick_dual_body_tidal_dissipation
from TidalPy.dynamics import single_dissipation as sd, dual_dissipation as dd
from TidalPy.utilities.conversions import orbital_motion2semi_a

out = {}
M0, M1 = 1.9e27, 8.9e22
R0, R1 = 7.0e7, 1.82e6
C0, C1 = 0.26 * M0 * R0 ** 2, 0.378 * M1 * R1 ** 2
n = 2. * np.pi / (1.77 * 86400.)


def rel(x, parts):
    s = sum(abs(p) for p in parts)
    return float(abs(x) / s) if s > 0 else float(abs(x))


worst = {'single:energy': 0., 'single:de': 0., 'single:kepler': 0., 'single:angmom': 0., 'dual:energy': 0., 'dual:angmom': 0., 'dual:args': 0., 'dual:kepler': 0.}
try:
    for e in (0.05, 0.3):
        for spin in (2.5 * n, 0.4 * n):
            r = quick_tidal_dissipation(host_mass=M0, target_radius=R1, target_mass=M1, target_gravity=G * M1 / R1 ** 2, target_density=M1 / (4. / 3. * np.pi * R1 ** 3), target_moi=C1,
                                        viscosity=1.e16, shear_modulus=5.e10, rheology='maxwell', eccentricity=e, obliquity=None, orbital_frequency=n, spin_frequency=spin,
                                        max_tidal_order_l=2, eccentricity_truncation_lvl=6, use_obliquity=False, calculate_orbit_spin_derivatives=True)
            a = r['semi_major_axis']
            da, de, ds = r['semi_major_axis_derivative'], r['eccentricity_derivative'], r['spin_rate_derivative']
            t1, t2 = G * M0 * M1 / (2. * a * a) * da, C1 * spin * ds
            worst['single:energy'] = max(worst['single:energy'], rel(t1 + t2 + r['tidal_heating'], [t1, t2, r['tidal_heating']]))
            de_ref = sd.eccentricity_derivative(a, n, e, M1, r['dUdM'], r['dUdw'], M0)
            worst['single:de'] = max(worst['single:de'], rel(de - de_ref, [de, de_ref]))
            worst['single:kepler'] = max(worst['single:kepler'], rel(n * n * a ** 3 - G * (M0 + M1), [G * (M0 + M1)]))
            beta = M0 * M1 / (M0 + M1)
            L = beta * np.sqrt(G * (M0 + M1) * a * (1. - e * e))
            p1, p2, p3 = L * da / (2. * a), -L * e * de / (1. - e * e), C1 * ds
            worst['single:angmom'] = max(worst['single:angmom'], rel(p1 + p2 + p3, [p1, p2, p3]))
    for e in (0.05, 0.3):
        for s0, s1 in ((2.5 * n, 1.5 * n), (-1.0 * n, 3.0 * n)):
            res = quick_dual_body_tidal_dissipation(radii=(R0, R1), masses=(M0, M1), gravities=(G * M0 / R0 ** 2, G * M1 / R1 ** 2),
                                                    densities=(M0 / (4. / 3. * np.pi * R0 ** 3), M1 / (4. / 3. * np.pi * R1 ** 3)), mois=(C0, C1),
                                                    viscosities=(1.e20, 1.e16), shear_moduli=(1.e11, 5.e10), rheologies='maxwell', spin_frequencies=(s0, s1), eccentricity=e,
                                                    orbital_frequency=n, max_tidal_order_l=2, eccentricity_truncation_lvl=6, use_obliquity=False)
            a = res['host']['semi_major_axis']
            da, de = res['semi_major_axis_derivative'], res['eccentricity_derivative']
            ds0, ds1 = res['host']['spin_rate_derivative'], res['secondary']['spin_rate_derivative']
            heat = res['host']['tidal_heating'] + res['secondary']['tidal_heating']
            t = [G * M0 * M1 / (2. * a * a) * da, C0 * s0 * ds0, C1 * s1 * ds1]
            worst['dual:energy'] = max(worst['dual:energy'], rel(sum(t) + heat, t + [heat]))
            beta = M0 * M1 / (M0 + M1)
            L = beta * np.sqrt(G * (M0 + M1) * a * (1. - e * e))
            p = [L * da / (2. * a), -L * e * de / (1. - e * e), C0 * ds0, C1 * ds1]
            worst['dual:angmom'] = max(worst['dual:angmom'], rel(sum(p), p))
            da_ref, de_ref = dd.semia_eccen_derivatives(a, n, e, M0, res['host']['dUdM'], res['host']['dUdw'], M1, res['secondary']['dUdM'], res['secondary']['dUdw'])
            worst['dual:args'] = max(worst['dual:args'], rel(da - da_ref, [da, da_ref]), rel(de - de_ref, [de, de_ref]))
            worst['dual:kepler'] = max(worst['dual:kepler'], rel(n * n * a ** 3 - G * (M0 + M1), [G * (M0 + M1)]))
    a_k = orbital_motion2semi_a(n, M0, M1)
    worst['kepler:function'] = rel(n * n * a_k ** 3 - G * (M0 + M1), [G * (M0 + M1)])
    out = {'ok': True, 'worst': worst}
except BaseException as ex:
    import traceback
    out = {'ok': False, 'error': repr(ex), 'trace': traceback.format_exc()[-1500:]}
print('\n@@RESULT@@' + json.dumps(out))
