"""real replay for the C19 Radiogenics glue obligation: build a real layered world with a two-isotope table, re-initialise the model (optionally after replacing the table by a
one-isotope table) and compare the heating the real object reports with the real model function called directly on the CURRENT table. input: JSON on stdin; output: @@RESULT@@ json"""
import sys, json, copy
import numpy as np
inp = json.load(sys.stdin)
from TidalPy.structures import build_world, build_from_world
from TidalPy.radiogenics.radiogenic_models import isotope as iso_fn
A, Bt, tref, t = inp['A'], inp['B'], inp['tref'], inp['t']
mk = lambda tab: {n: {'iso_mass_fraction': f, 'element_concentration': c, 'half_life': h, 'hpr': q} for n, (f, c, h, q) in tab.items()}
cfg = {'layers': {'Mantle': {'is_tidal': False, 'radiogenics': {'model': 'isotope', 'ref_time': tref, 'isotopes': mk(A)}}}}
world = build_from_world(build_world('io_simple'), cfg)
rad = world.Mantle.radiogenics
mass = world.Mantle.mass * rad.config.get('radiogenic_layer_mass_fraction', 1.)
def heat():
    world.set_state(time=t)
    return float(np.asarray(rad.calculate()).ravel()[0])
def direct(tab):
    v = list(tab.values())
    return float(iso_fn(t, mass, tuple(x[0] for x in v), tuple(x[1] for x in v), tuple(x[2] for x in v), tuple(x[3] for x in v), tref))
out = {'fresh': [heat(), direct(A)]}
rad.reinit()
out['reinit'] = [heat(), direct(A)]
rad.config['isotopes'] = mk(Bt)
rad.reinit()
out['replaced'] = [heat(), direct(Bt)]
print('@@RESULT@@' + json.dumps(out))
