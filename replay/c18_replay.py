"""Executed by /venv/bin/python: reconstruct an interrupted multiprocessing study with the REAL multiprocessing_run and restart it for real.
argv[1] = scratch dir; stdin JSON {grid:[n1,n2], must_kind, k:{case: progress}, fail:[cases], steps:{index: effect name}}"""
import sys, os, json, shutil, glob
import numpy as np
td = sys.argv[1]
cfg = json.load(sys.stdin)
cdir = os.path.join(td, 'counters'); os.makedirs(cdir)
os.environ['C18_COUNTER_DIR'] = cdir
open(os.path.join(cdir, 'FAIL'), 'w').write(','.join(str(x) for x in cfg.get('fail', [])))
import TidalPy
from TidalPy.utilities.multiprocessing import multiprocessing_run, MultiprocessingInput
import c18_study
n1, n2 = cfg['grid']
mk = list if cfg['must_kind'] == 'list' else tuple
X0, Y0, DX, DY, MUST = cfg.get('limits', [1.0, 1.0, 0.0, 0.0, 1.5])
inputs = (MultiprocessingInput('x', 'X value', X0, float(n1) + DX, 'linear', mk([]), n1), MultiprocessingInput('y', 'Y value', Y0, float(n2) + DY, 'linear', mk([MUST]), n2))
sdir = os.path.join(td, 'study')
out = {'restart_exception': None}
runs = cfg.get('runs') or [{'k': cfg['k'], 'effects': {}}]
steps = {int(s): w for s, w in cfg.get('steps', {}).items()}
default_effects = [steps[s] for s in sorted(steps)]


def completed_now():
    return set(int(d.split('_run_')[-1]) for d in glob.glob(os.path.join(sdir, 'index_*_run_*')) if os.path.isfile(os.path.join(d, 'mp_success.log')) and os.path.isfile(os.path.join(d, 'mp_results.npz')))


def executed_in(phase):
    return set(int(f.split('_run_')[-1].split('.')[0]) for f in os.listdir(cdir) if f.endswith('.%d' % phase) and '_run_' in f)


completed_before = set()
reexec = set()
r2 = None
for r, run in enumerate(runs, start=1):
    # interrupted run r: a complete REAL run, then every effect the model says did not happen is removed again (effects of case i in this run, in order: run['effects'][i])
    open(os.path.join(cdir, 'PHASE'), 'w').write(str(r))
    try:
        multiprocessing_run(sdir, 'demo', c18_study.study, inputs, force_restart=False, verbose=False, max_procs=4, perform_memory_check=False)
    except BaseException as e:
        if r == 1:
            raise
        out['restart_exception'] = 'run %d (a restart that is itself interrupted later): %s: %s' % (r, type(e).__name__, str(e)[:150])
        break
    ex_r = executed_in(r) if r > 1 else None
    if ex_r is not None:
        reexec |= (ex_r & completed_before)
    for d in glob.glob(os.path.join(sdir, 'index_*_run_*')):
        i = int(d.split('_run_')[-1])
        if ex_r is not None and i not in ex_r:
            continue                                   # not touched by this run
        ki = run['k'].get(str(i), 99)
        effs = run.get('effects', {}).get(str(i)) or default_effects
        for s_, w in enumerate(effs):
            if s_ < ki:
                continue
            if w.startswith('mkdir'):
                shutil.rmtree(d, ignore_errors=True)
            elif w.startswith('create mp_success') and os.path.isdir(d):
                p = os.path.join(d, 'mp_success.log')
                if os.path.exists(p):
                    os.remove(p)
            elif w.startswith('savez') and os.path.isdir(d):
                p = os.path.join(d, 'mp_results.npz')
                if os.path.exists(p):
                    os.remove(p)
    completed_before |= completed_now()
completed1 = sorted(completed_before)
final = len(runs) + 1
if out['restart_exception'] is None:
    open(os.path.join(cdir, 'PHASE'), 'w').write(str(final))
    try:
        r2 = multiprocessing_run(sdir, 'demo', c18_study.study, inputs, force_restart=False, verbose=False, max_procs=4, perform_memory_check=False)
    except BaseException as e:
        out['restart_exception'] = '%s: %s' % (type(e).__name__, str(e)[:150])
        r2 = None
    if r2 is None and out['restart_exception'] is None:
        out['restart_exception'] = 'multiprocessing_run returned None (the pool aborted)'
xs = list(np.linspace(X0, float(n1) + DX, n1)); ys = sorted(set(list(np.linspace(Y0, float(n2) + DY, n2)) + [MUST]))
want = {(i, j): xs[i] * 1000.0 + ys[j] for i in range(len(xs)) for j in range(len(ys))}
seen = {}
caseno_wrong, value_wrong = [], []
if r2 is not None:
    for r in r2:
        if hasattr(r, 'case_number'):
            cn, idx, res = r.case_number, r.input_index, r.result
        else:
            cn, idx, res = r[0], r[1], r[2]
        idx = tuple(int(v) for v in idx)
        val = None if res is None else float(np.asarray(res['value']).ravel()[0])
        seen.setdefault(idx, []).append((int(cn), val))
    for idx, v in seen.items():
        if idx in want:
            if v[0][1] is None or abs(v[0][1] - want[idx]) > 1e-9:
                value_wrong.append([list(idx), v[0][1], want[idx]])
            if v[0][0] != idx[0] * len(ys) + idx[1]:
                caseno_wrong.append([list(idx), v[0][0]])
out['one_per_case'] = r2 is not None and set(seen) == set(want) and all(len(v) == 1 for v in seen.values())
out['caseno_wrong'] = caseno_wrong[:6]
out['value_wrong'] = value_wrong[:6]
re2 = executed_in(final)
out['executed_in_restart'] = sorted(re2)
out['completed_in_first_run'] = sorted(completed1)
out['reexecuted_completed'] = sorted((set(re2) & set(completed1)) | reexec)
print('\n@@RESULT@@' + json.dumps(out))
