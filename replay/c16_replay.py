"""Executed by /venv/bin/python: real world construction / scaling / derivation chains through the public API."""
import sys, json, copy
cfg = json.load(sys.stdin)
import numpy as np
import TidalPy
from TidalPy.structures.world_builder import build_world, build_from_world, scale_from_world
out = {}
if 'naming_chain' in cfg:
    w = build_world('io_simple')
    base = copy.deepcopy(w.config)
    base['name'] = cfg['name']
    w = build_world(cfg['name'], base)
    names = [w.name]
    for i in range(cfg['naming_chain']):
        w = build_from_world(w, {}, None)
        names.append(w.name)
    out['names'] = names
    out['distinct'] = all(a != b for a, b in zip(names, names[1:]))
elif 'naming_mixed' in cfg:
    w = build_world('io_simple')
    base = copy.deepcopy(w.config)
    base['name'] = cfg['name']
    w = build_world(cfg['name'], base)
    names, cnames = [w.name], [w.config.get('name')]
    for kd, explicit in cfg['naming_mixed']:
        if kd == 'build':
            w = build_from_world(w, {}, None)
        elif kd == 'named':
            w = build_from_world(w, {}, explicit)
        else:
            w = scale_from_world(w, radius_scale=1.25)
        names.append(w.name)
        cnames.append(w.config.get('name'))
    out['names'], out['config_names'] = names, cnames
    out['distinct'] = all(a != b for a, b in zip(names, names[1:]))
    out['config_records_name'] = all(a == b for a, b in zip(names, cnames))
elif cfg.get('kind') == 'derived_mass':
    w = build_world('io_simple')
    out['config_has_mass_after_build'] = 'mass' in w.config
    w2 = scale_from_world(w, radius_scale=0.5)
    s2 = float(sum(l.mass for l in w2.layers))
    out['scaled_world_mass'], out['scaled_sum_of_layer_masses'] = float(w2.mass), s2
    out['bad'] = abs(float(w2.mass) - s2) > 1e-9 * s2
elif cfg.get('kind') == 'mass_below':
    from TidalPy.constants import G
    w = build_world(cfg.get('world', 'earth_simple'))
    rows, bad = [], []
    below = 0.0
    for l in w.layers:
        rows.append([l.name, float(l.mass_below), float(below)])
        if abs(l.mass_below - below) > 1e-9 * (abs(below) + 1.0):
            bad.append(l.name)
        below += l.mass
    top = list(w.layers)[-1]
    out['rows'], out['g_top'], out['g_want'] = rows, float(top.gravity_outer), float(G * below / top.radius ** 2)
    if abs(out['g_top'] - out['g_want']) > 1e-9 * out['g_want']:
        bad.append('surface gravity')
    out['bad'] = bad
elif 'scale' in cfg:
    w = build_world('io_simple')
    if cfg.get('twice'):
        # a previously scaled world (its configuration carries thickness / radius_inner) is the source of the scaling under test
        w = scale_from_world(w, radius_scale=1.25)
    snap = copy.deepcopy(w.config)
    w2 = scale_from_world(w, radius_scale=cfg['scale'])
    s = cfg['scale']
    bad = []
    if abs(w2.radius - s * w.radius) > 1e-9 * w.radius:
        bad.append('world radius')
    for a, b in zip(w.layers, w2.layers):
        for attr in ('radius', 'thickness', 'radius_inner'):
            if abs(getattr(b, attr) - s * getattr(a, attr)) > 1e-9 * w.radius * s:
                bad.append('%s.%s' % (a.name, attr))
        if abs(b.volume / w2.volume - a.volume / w.volume) > 1e-12:
            bad.append('%s volume fraction' % a.name)
    if json.dumps(snap, sort_keys=True, default=str) != json.dumps(w.config, sort_keys=True, default=str):
        bad.append('source config mutated')
    out['scale_bad'] = bad
    out['names'] = [w.name, w2.name]
else:
    w = build_world('io_simple')
    bad = []
    prev = 0.0
    for l in w.layers:
        if abs(l.radius_inner - prev) > 1e-6:
            bad.append('%s inner radius' % l.name)
        prev = l.radius
        if not np.all(np.diff(l.radii) > 0):
            bad.append('%s slices' % l.name)
        if abs(np.sum(l.volume_slices) - l.volume) > 1e-9 * l.volume:
            bad.append('%s slice volumes' % l.name)
    if abs(prev - w.radius) > 1e-6:
        bad.append('top radius')
    if abs(sum(l.volume for l in w.layers) - w.volume) > 1e-9 * w.volume:
        bad.append('volume sum')
    if not np.all(np.diff(w.mass_below_slices) >= 0):
        bad.append('enclosed mass')
    from TidalPy.constants import G
    if abs(w.gravity_outer - G * w.mass / w.radius ** 2) > 1e-9 * w.gravity_outer:
        bad.append('surface gravity')
    out['geometry_bad'] = bad
print('\n@@RESULT@@' + json.dumps(out))
