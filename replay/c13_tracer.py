"""Executed by /venv/bin/python: concolic provenance tracing through the REAL world / orbit / tides classes.

Leaf numeric functions are wrapped at their import sites: the wrapper calls the real function on the concrete values and attaches the uninterpreted term
f(arg terms). Setter inputs are tagged floats ('in', name); a float subclass carries terms through inline arithmetic. For each history the derived
quantities of the world after the history and of a freshly built world put directly into the final state are reported as (value, term).
stdin: JSON {"world": "cpl"|"ctl", "histories": [[op, ...], ...]} ; op = {"via": "world"|"orbit", "kw": {state_name: tag}} ; stdout: @@RESULT@@ json"""
import sys, json, itertools, warnings, math
warnings.filterwarnings('ignore')
import numpy as np
import TidalPy
from TidalPy.structures import build_world, build_from_world
from TidalPy.structures.orbit import PhysicsOrbit
import TidalPy.tides.methods.base as tbase
import TidalPy.tides.methods.global_approx as tga
import TidalPy.structures.orbit.base as obase
import TidalPy.structures.orbit.physics as ophys
import TidalPy.structures.world_types.tidal as wtid
import TidalPy.structures.world_types.basic as wbas

PROV, KEEP = {}, []
OPQ = itertools.count()


class TF(float):
    def __new__(cls, v, term):
        o = float.__new__(cls, v)
        o.term = term
        return o

    def _bin(self, other, sym, f, rev=False):
        try:
            ov = float(other)
        except (TypeError, ValueError):
            return NotImplemented
        a, b = (term_of(other), self.term) if rev else (self.term, term_of(other))
        val = f(ov, float(self)) if rev else f(float(self), ov)
        return TF(val, ['op', sym, a, b])

    def __add__(self, o): return self._bin(o, '+', lambda a, b: a + b)
    def __radd__(self, o): return self._bin(o, '+', lambda a, b: a + b, True)
    def __sub__(self, o): return self._bin(o, '-', lambda a, b: a - b)
    def __rsub__(self, o): return self._bin(o, '-', lambda a, b: a - b, True)
    def __mul__(self, o): return self._bin(o, '*', lambda a, b: a * b)
    def __rmul__(self, o): return self._bin(o, '*', lambda a, b: a * b, True)
    def __truediv__(self, o): return self._bin(o, '/', lambda a, b: a / b)
    def __rtruediv__(self, o): return self._bin(o, '/', lambda a, b: a / b, True)
    def __neg__(self): return TF(-float(self), ['op', 'neg', self.term])
    def __pos__(self): return self
    def __abs__(self): return TF(abs(float(self)), ['app', 'abs', [self.term], []])

    def __pow__(self, o):
        try:
            ov = float(o)
        except (TypeError, ValueError):
            return NotImplemented
        return TF(float(self) ** ov, ['app', 'pow', [self.term, term_of(o)], []])


class TD(dict):
    term = None


class TT(tuple):
    term = None


def term_of(x):
    t = getattr(x, 'term', None)
    if t is not None:
        return t
    if id(x) in PROV:
        return PROV[id(x)]
    if isinstance(x, (bool, np.bool_)):
        return ['c', repr(bool(x))]
    if isinstance(x, (int, float, np.floating, np.integer)):
        return ['c', repr(float(x))]
    if isinstance(x, (complex, str, type(None))):
        return ['c', repr(x)]
    if isinstance(x, np.ndarray) and x.ndim == 0:
        return ['c', repr(float(x))]
    if isinstance(x, dict):
        return ['dict', [[repr(k), term_of(v)] for k, v in x.items()]]
    if isinstance(x, (tuple, list)):
        return ['tup', [term_of(v) for v in x]]
    if callable(x):
        return ['fn', getattr(x, '__name__', type(x).__name__)]
    return ['opaque', type(x).__name__, next(OPQ)]


def wrap_out(v, term):
    if isinstance(v, (float, np.floating)) or (isinstance(v, np.ndarray) and v.ndim == 0):
        return TF(float(v), term)
    if isinstance(v, tuple):
        t = TT(wrap_out(x, ['proj', i, term]) for i, x in enumerate(v))
        t.term = term
        return t
    if isinstance(v, dict) and type(v) is dict:
        d = TD(v)
        d.term = term
        return d
    PROV[id(v)] = term
    KEEP.append(v)
    return v


def plain(x):
    return float(x) if isinstance(x, TF) else x


def traced(name, f):
    def g(*a, **k):
        term = ['app', name, [term_of(x) for x in a], [[kk, term_of(v)] for kk, v in sorted(k.items())]]
        return wrap_out(f(*[plain(x) for x in a], **{kk: plain(v) for kk, v in k.items()}), term)
    g.__name__ = name
    return g


_fmm = tbase.find_mode_manipulators


def fmm(*a, **k):
    ct, cm, ef, inf = _fmm(*a, **k)
    return traced('calculate_terms', ct), traced('collapse_modes', cm), traced('ecc_func', ef), traced('incl_func', inf)


tbase.find_mode_manipulators = fmm
tbase.calc_tidal_susceptibility = traced('suscept', tbase.calc_tidal_susceptibility)
for nm in ('cpl_neg_imk_helper_func', 'ctl_neg_imk_helper_func'):
    if hasattr(tga, nm):
        setattr(tga, nm, traced(nm, getattr(tga, nm)))
for m in (obase, wtid, wbas, ophys):
    for nm in ('rads2days', 'days2rads', 'orbital_motion2semi_a', 'semi_a2orbital_motion', 'semia_eccen_derivatives', 'semia_eccen_derivatives_dual', 'spin_rate_derivative'):
        if hasattr(m, nm):
            setattr(m, nm, traced(nm, getattr(m, nm)))

spec = json.load(sys.stdin)
star = build_world('55cnc')
base_world = build_world('earth_simple')
use_ctl = spec.get('world') == 'ctl'
cfg = {'force_spin_sync': False, 'type': 'simple_tidal', 'mass': 5.972e24, 'slices': 100,
       'tides': {'model': 'global_approx', 'fixed_q': 125.0, 'use_ctl': use_ctl, 'eccentricity_truncation_lvl': 2, 'max_tidal_order_l': 2, 'obliquity_tides_on': bool(spec.get('obliquity', False))}}

VAL = {'orbital_period': lambda k: 50.0 + 7.0 * k, 'eccentricity': lambda k: 0.05 + 0.03 * k, 'spin_period': lambda k: 10.0 + 3.0 * k, 'obliquity': lambda k: 0.1 + 0.04 * k,
       'semi_major_axis': lambda k: 3.0e10 * (1 + 0.21 * k), 'orbital_frequency': lambda k: 2 * math.pi / (86400. * (41.0 + 5.0 * k)), 'spin_frequency': lambda k: 2 * math.pi / (86400. * (9.0 + 2.0 * k)),
       'time': lambda k: 100.0 + 50 * k}
GROUP = {'orbital_period': 'orbit_sep', 'semi_major_axis': 'orbit_sep', 'orbital_frequency': 'orbit_sep', 'spin_period': 'spin', 'spin_frequency': 'spin'}


def tagged(name, k):
    return TF(VAL[name](k), ['in', '%s#%d' % (name, k)])


def fresh_pair():
    w = build_from_world(base_world, new_config=cfg)
    o = PhysicsOrbit(star, tidal_host=star, tidal_bodies=w)
    return w, o


def observe(w, o):
    out = {}

    def put(nm, getter):
        try:
            v = getter()
        except Exception as e:
            out[nm] = {'error': repr(e)[:100]}
            return
        if v is None:
            out[nm] = {'value': None, 'term': ['c', 'None']}
            return
        try:
            out[nm] = {'value': float(v), 'term': term_of(v)}
        except (TypeError, ValueError):
            out[nm] = {'value': None, 'term': term_of(v)}
    put('tidal_heating_global', lambda: w.tidal_heating_global)
    put('dUdM', lambda: w.dUdM)
    put('dUdw', lambda: w.dUdw)
    put('dUdO', lambda: w.dUdO)
    put('eccentricity', lambda: w.eccentricity)
    put('orbital_frequency', lambda: w.orbital_frequency)
    put('orbital_period', lambda: w.orbital_period)
    put('semi_major_axis', lambda: w.semi_major_axis)
    put('spin_frequency', lambda: w.spin_frequency)
    put('obliquity', lambda: w.obliquity)
    put('tidal_susceptibility', lambda: w.tides.tidal_susceptibility)
    put('orbit.eccentricity', lambda: o.get_eccentricity(w))
    put('orbit.semi_major_axis', lambda: o.get_semi_major_axis(w))
    put('orbit.orbital_frequency', lambda: o.get_orbital_frequency(w))
    put('orbit.orbital_period', lambda: o.get_orbital_period(w))
    put('orbit.de_dt', lambda: o.get_eccentricity_time_derivative(w))
    put('orbit.da_dt', lambda: o.get_semi_major_axis_time_derivative(w))
    return out


results = []
for hist in spec['histories']:
    try:
        w, o = fresh_pair()
        final = {}
        init = {'orbital_period': tagged('orbital_period', 0), 'eccentricity': tagged('eccentricity', 0), 'spin_period': tagged('spin_period', 0)}
        if spec.get('obliquity'):
            init['obliquity'] = tagged('obliquity', 0)
        w.set_state(**init)
        for nm, v in init.items():
            final[GROUP.get(nm, nm)] = (nm, v)
        for k, op in enumerate(hist, start=1):
            kw = {nm: tagged(nm, k) for nm in op['kw']}
            if op['via'] == 'world':
                w.set_state(**kw)
            elif op['via'] == 'orbit':
                okw = {nm: v for nm, v in kw.items() if nm in ('eccentricity', 'semi_major_axis', 'orbital_frequency', 'orbital_period')}
                wkw = {nm: v for nm, v in kw.items() if nm not in okw}
                if okw:
                    o.set_state(w, **okw)
                if wkw:
                    w.set_state(**wkw)
            for nm, v in kw.items():
                final[GROUP.get(nm, nm)] = (nm, v)
        got = observe(w, o)
        w2, o2 = fresh_pair()
        w2.set_state(**{nm: v for nm, v in final.values()})
        want = observe(w2, o2)
        results.append({'history': hist, 'hist': got, 'fresh': want, 'final': {g: nm for g, (nm, v) in final.items()}})
    except Exception as e:
        import traceback
        results.append({'history': hist, 'error': repr(e)[:300], 'trace': traceback.format_exc()[-600:]})
print('\n@@RESULT@@' + json.dumps(results))
