"""Executed by /venv/bin/python: concolic provenance tracing through the REAL world / orbit / tides / layer / rheology classes.

Leaf numeric functions are wrapped at their import sites: the wrapper calls the real function on the concrete values and attaches the uninterpreted term
f(arg terms). Setter inputs are tagged floats ('in', name); a float subclass carries terms through inline arithmetic (array runs: provenance by object identity only,
because the classes test `type(x) == np.ndarray`; inline array arithmetic degrades to content-hashed constants). For each history the derived quantities of the world after the history, of a freshly built world put directly into the final state, and of
the functional pipeline (the same leaf functions called directly on the final state) are reported as (value, term).
stdin: JSON {"world": kind, "histories": [[op, ...], ...]} ; op = {"via": "world"|"orbit"|"layer"|"tides", "kw": {state_name: tag}} ; stdout: @@RESULT@@ json"""
import sys, json, itertools, warnings, math, hashlib, logging
warnings.filterwarnings('ignore')
import numpy as np
import TidalPy
logging.disable(logging.CRITICAL)
from TidalPy.structures import build_world, build_from_world
from TidalPy.structures.orbit import PhysicsOrbit
import TidalPy.tides.methods.base as tbase
import TidalPy.tides.methods.global_approx as tga
import TidalPy.structures.orbit.base as obase
import TidalPy.structures.orbit.physics as ophys
import TidalPy.structures.world_types.tidal as wtid
import TidalPy.structures.world_types.basic as wbas
import TidalPy.rheology.complex_compliance.complex_compliance as rcc
import TidalPy.rheology.partial_melt.partialmelt as rpm

import os as _os
sys.path.insert(0, _os.path.dirname(_os.path.abspath(__file__)))
from prov import PROV, KEEP, TF, TD, TT, term_of, wrap_out, plain, traced


_fmm = tbase.find_mode_manipulators


def fmm(*a, **k):
    ct, cm, ef, inf = _fmm(*a, **k)
    return traced('calculate_terms', ct), traced('collapse_modes', cm), traced('ecc_func', ef), traced('incl_func', inf)


tbase.find_mode_manipulators = fmm
tbase.calc_tidal_susceptibility = traced('suscept', tbase.calc_tidal_susceptibility)
for nm in ('cpl_neg_imk_helper_func', 'ctl_neg_imk_helper_func'):
    if hasattr(tga, nm):
        setattr(tga, nm, traced(nm, getattr(tga, nm)))
for m in (obase, wtid, wbas, ophys):
    for nm in ('rads2days', 'days2rads', 'orbital_motion2semi_a', 'semi_a2orbital_motion', 'semia_eccen_derivatives', 'semia_eccen_derivatives_dual', 'spin_rate_derivative'):
        if hasattr(m, nm):
            setattr(m, nm, traced(nm, getattr(m, nm)))
rcc.compliance_dict_helper = traced('compliance_dict', rcc.compliance_dict_helper)
for nm in ('calculate_melt_fraction', 'calculate_melt_fraction_array'):
    if hasattr(rpm, nm):
        setattr(rpm, nm, traced(nm, getattr(rpm, nm)))

spec = json.load(sys.stdin)
KIND = spec.get('world', 'cpl')
ARRAYS = bool(spec.get('arrays', False))
star = build_world('55cnc')
DUAL = KIND.startswith('dual')
LAYERED = KIND.startswith('layered') or KIND == 'dual_layered'
OBLIQ = KIND in ('cpl_obl', 'ctl_obl', 'layered', 'layered_sync', 'dual_layered')
if LAYERED:
    base_world = build_world('io_simple')
    cfg = {'force_spin_sync': KIND == 'layered_sync', 'type': 'layered',
           'tides': {'model': 'layered', 'eccentricity_truncation_lvl': 2, 'max_tidal_order_l': 2, 'obliquity_tides_on': True},
           'layers': {'Core': {'is_tidal': False, 'rheology': {'complex_compliance': {'model': 'maxwell'}}}, 'Mantle': {'is_tidal': True}}}
else:
    base_world = build_world('earth_simple')
    cfg = {'force_spin_sync': KIND.endswith('_sync'), 'type': 'simple_tidal', 'mass': 5.972e24, 'slices': 100,
           'tides': {'model': 'global_approx', 'fixed_q': 125.0, 'use_ctl': KIND.startswith('ctl'), 'eccentricity_truncation_lvl': 2, 'max_tidal_order_l': 2, 'obliquity_tides_on': OBLIQ}}
SYNC = bool(cfg['force_spin_sync'])

VAL = {'orbital_period': lambda k: 50.0 + 7.0 * k, 'eccentricity': lambda k: 0.05 + 0.03 * k, 'spin_period': lambda k: 10.0 + 3.0 * k, 'obliquity': lambda k: 0.1 + 0.04 * k,
       'semi_major_axis': lambda k: 3.0e10 * (1 + 0.21 * k), 'orbital_frequency': lambda k: 2 * math.pi / (86400. * (41.0 + 5.0 * k)), 'spin_frequency': lambda k: 2 * math.pi / (86400. * (9.0 + 2.0 * k)),
       'host_spin_period': lambda k: 8.0 + 1.7 * k, 'host_obliquity': lambda k: 0.07 + 0.03 * k, 'host_temperature': lambda k: 1500.0 + 90.0 * k, 'host_fixed_q': lambda k: 60.0 + 17.0 * k,
       'time': lambda k: 100.0 + 50 * k, 'temperature': lambda k: 1450.0 + 130.0 * k, 'fixed_q': lambda k: 80.0 + 21.0 * k, 'fixed_dt': lambda k: 100.0 + 31.0 * k}
GROUP = {'orbital_period': 'orbit_sep', 'semi_major_axis': 'orbit_sep', 'orbital_frequency': 'orbit_sep', 'spin_period': 'spin', 'spin_frequency': 'spin'}
ORBIT_KEYS = ('eccentricity', 'semi_major_axis', 'orbital_frequency', 'orbital_period')
WORLD_KEYS = ORBIT_KEYS + ('spin_period', 'spin_frequency', 'obliquity', 'time')


def tagged(name, k):
    v = VAL[name](k)
    term = ['in', '%s#%d' % (name, k)]
    if ARRAYS and name not in ('fixed_q', 'fixed_dt'):
        arr = v * np.array([1.0, 1.1, 1.25])
        PROV[id(arr)] = term
        KEEP.append(arr)
        return arr
    return TF(v, term)


def wrap_models(w):
    if not LAYERED:
        return
    for layer in w:
        rh = getattr(layer, 'rheology', None)
        if rh is None:
            continue
        for mn in ('viscosity_model', 'liquid_viscosity_model', 'partial_melting_model'):
            model = getattr(rh, mn, None)
            if model is None:
                continue
            for fn in ('func', 'func_array'):
                f = getattr(model, fn, None)
                if f is not None and not hasattr(f, '__wrapped__'):
                    try:
                        setattr(model, fn, traced('%s.%s.%s' % (layer.name, mn, fn.replace('_array', '')), f))
                    except Exception:
                        try:
                            setattr(model, '_' + fn, traced('%s.%s.%s' % (layer.name, mn, fn.replace('_array', '')), f))
                        except Exception:
                            pass


HOST = [None]


def fresh_pair():
    if DUAL:
        import copy
        hcfg = copy.deepcopy(cfg)
        if not LAYERED:
            hcfg['mass'] = 8.1e24
        host = build_from_world(base_world, new_config=hcfg, new_name='tracer_host')
        w = build_from_world(base_world, new_config=cfg, new_name='tracer_body')
        o = PhysicsOrbit(star, tidal_host=host, tidal_bodies=w)
        wrap_models(host)
        HOST[0] = host
    else:
        w = build_from_world(base_world, new_config=cfg)
        o = PhysicsOrbit(star, tidal_host=star, tidal_bodies=w)
        HOST[0] = None
    wrap_models(w)
    return w, o


def apply_op(w, o, via, kw):
    if via == 'world':
        w.set_state(**kw)
    elif via == 'orbit':
        okw = {nm: v for nm, v in kw.items() if nm in ORBIT_KEYS}
        wkw = {nm: v for nm, v in kw.items() if nm not in okw}
        if okw:
            o.set_state(w, **okw)
        if wkw:
            w.set_state(**wkw)
    elif via == 'setter':
        for nm, v in kw.items():
            setattr(w, nm, v)
    elif via == 'orbit_setter':
        for nm, v in kw.items():
            getattr(o, 'set_' + nm)(w, v)
    elif via == 'world_method':
        for nm, v in kw.items():
            getattr(w, 'set_' + nm)(v)
    elif via == 'layer':
        w.mantle.set_state(temperature=kw['temperature'])
    elif via == 'layer_setter':
        w.mantle.temperature = kw['temperature']
    elif via == 'host':
        h = HOST[0]
        hk = {nm[5:]: v for nm, v in kw.items() if nm in ('host_spin_period', 'host_obliquity')}
        if hk:
            h.set_state(**hk)
        if 'host_temperature' in kw:
            h.mantle.set_state(temperature=kw['host_temperature'])
        if 'host_fixed_q' in kw:
            h.set_fixed_q(kw['host_fixed_q'])
    elif via == 'orbit_time':
        o.time = kw['time']
    elif via == 'tides':
        if 'fixed_q' in kw:
            w.set_fixed_q(kw['fixed_q'])
        if 'fixed_dt' in kw:
            w.set_fixed_dt(kw['fixed_dt'])
    else:
        raise ValueError(via)


def jval(v):
    if v is None:
        return None
    if isinstance(v, (complex, np.complexfloating)):
        return [float(v.real), float(v.imag)]
    a = np.asarray(v)
    if a.dtype.kind == 'c':
        return [float(x) for x in np.concatenate([a.real.ravel(), a.imag.ravel()])]
    if a.dtype.kind in 'fiub':
        return [float(x) for x in a.ravel()] if a.ndim else float(a)
    return None


def observe(w, o):
    out = {}

    def put(nm, getter):
        try:
            v = getter()
        except Exception as e:
            out[nm] = {'error': repr(e)[:100]}
            return
        if v is None:
            out[nm] = {'value': None, 'term': ['c', 'None']}
            return
        out[nm] = {'value': jval(v), 'term': term_of(v)}
    put('tidal_heating_global', lambda: w.tidal_heating_global)
    put('dUdM', lambda: w.dUdM)
    put('dUdw', lambda: w.dUdw)
    put('dUdO', lambda: w.dUdO)
    put('eccentricity', lambda: w.eccentricity)
    put('orbital_frequency', lambda: w.orbital_frequency)
    put('orbital_period', lambda: w.orbital_period)
    put('semi_major_axis', lambda: w.semi_major_axis)
    put('spin_frequency', lambda: w.spin_frequency)
    put('spin_period', lambda: w.spin_period)
    put('obliquity', lambda: w.obliquity)
    put('time', lambda: w.time)
    put('tidal_susceptibility', lambda: w.tides.tidal_susceptibility)
    put('unique_tidal_frequencies', lambda: w.tides.unique_tidal_frequencies)
    put('tidal_terms_by_frequency', lambda: w.tides.tidal_terms_by_frequency)
    put('global_love_l2', lambda: w.global_love_by_orderl[2])
    put('global_negative_imk_l2', lambda: w.global_negative_imk_by_orderl[2])
    put('effective_q_l2', lambda: w.effective_q_by_orderl[2])
    put('spin_derivative', lambda: w.calc_spin_derivative())
    put('orbit.eccentricity', lambda: o.get_eccentricity(w))
    put('orbit.semi_major_axis', lambda: o.get_semi_major_axis(w))
    put('orbit.orbital_frequency', lambda: o.get_orbital_frequency(w))
    put('orbit.orbital_period', lambda: o.get_orbital_period(w))
    put('orbit.de_dt', lambda: o.get_eccentricity_time_derivative(w))
    put('orbit.da_dt', lambda: o.get_semi_major_axis_time_derivative(w))
    put('orbit.dn_dt', lambda: o.get_orbital_motion_time_derivative(w))
    if DUAL:
        h = w.tidal_host
        put('host.tidal_heating_global', lambda: h.tidal_heating_global)
        put('host.dUdM', lambda: h.dUdM)
        put('host.dUdw', lambda: h.dUdw)
        put('host.dUdO', lambda: h.dUdO)
        put('host.spin_frequency', lambda: h.spin_frequency)
        put('host.obliquity', lambda: h.obliquity)
        put('host.orbital_frequency', lambda: h.orbital_frequency)
        put('host.eccentricity', lambda: h.eccentricity)
        put('host.tidal_susceptibility', lambda: h.tides.tidal_susceptibility)
        put('host.tidal_terms_by_frequency', lambda: h.tides.tidal_terms_by_frequency)
        put('host.global_love_l2', lambda: h.global_love_by_orderl[2])
        put('host.spin_derivative', lambda: h.calc_spin_derivative())
        put('orbit.de_dt(host)', lambda: o.get_eccentricity_time_derivative(h))
        put('orbit.da_dt(host)', lambda: o.get_semi_major_axis_time_derivative(h))
        put('orbit.dual_body', lambda: float(bool(o._last_calc_used_dual_body)))
        if LAYERED:
            put('host.mantle.tidal_heating', lambda: h.mantle.tidal_heating)
            put('host.mantle.viscosity', lambda: h.mantle.viscosity)
    if LAYERED:
        put('mantle.tidal_heating', lambda: w.mantle.tidal_heating)
        put('mantle.viscosity', lambda: w.mantle.viscosity)
        put('mantle.shear_modulus', lambda: w.mantle.shear_modulus)
        put('mantle.melt_fraction', lambda: w.mantle.melt_fraction)
        put('mantle.complex_compliances', lambda: w.mantle.rheology.complex_compliances)
        put('mantle.temperature', lambda: w.mantle.temperature)
        put('mantle.radiogenic_heating', lambda: w.mantle.radiogenics.heating)
        put('core.surface_temperature', lambda: w.core.surface_temperature)
    else:
        put('fixed_q', lambda: w.fixed_q)
    return out


def functional(w, final):
    """the functional pipeline: the same leaf functions called directly on the final state (static world constants read from the world)"""
    out = {}
    try:
        t = w.tides
        ct, cm, ef, inf = tbase.find_mode_manipulators(t.max_tidal_order_lvl, t.eccentricity_truncation_lvl, t.use_obliquity_tides)
        host_m, m = w.tidal_host.mass, w.mass
        nm, v = final['orbit_sep']
        if nm == 'orbital_period':
            n = obase.days2rads(v)
            a = obase.orbital_motion2semi_a(n, host_m, m)
        elif nm == 'orbital_frequency':
            n = v
            a = obase.orbital_motion2semi_a(n, host_m, m)
        else:
            a = v
            n = obase.semi_a2orbital_motion(a, host_m, m)
        if SYNC:
            spin = n
        else:
            snm, sv = final['spin']
            spin = wbas.days2rads(sv) if snm == 'spin_period' else sv
        e = final['eccentricity'][1]
        ecc_res = ef(e)
        obl = final['obliquity'][1] if (t.use_obliquity_tides and 'obliquity' in final) else 0.0
        obl_res = inf(obl)
        uf, terms = ct(spin, n, a, w.radius, ecc_res, obl_res, t.multiply_modes_by_sign)
        sus = tbase.calc_tidal_susceptibility(host_m, w.radius, a)
        out['tidal_susceptibility'] = sus
        out['unique_tidal_frequencies'] = uf
        out['tidal_terms_by_frequency'] = terms
        if not LAYERED:
            if t.use_ctl:
                love = tga.ctl_neg_imk_helper_func(uf, t.fixed_k2, t.ctl_calc_method, t.ctl_calc_input_getter())
            else:
                q = final['fixed_q'][1] if 'fixed_q' in final else t.fixed_q
                love = tga.cpl_neg_imk_helper_func(uf, t.fixed_k2, q)
            tidal_scale, radius, bulk_density, gravity_surf = t.tidal_inputs
            res = cm(gravity_surf, radius, bulk_density, 1., tidal_scale, host_m, sus, love, terms, t.max_tidal_order_lvl, cpl_ctl_method=True)
            out['tidal_heating_global'], out['dUdM'], out['dUdw'], out['dUdO'] = res[0], res[1], res[2], res[3]
            # documented relations on top of the pipeline: spin-rate derivative = M_host dUdO / C ; orbital derivatives through the dynamics functions
            out['spin_derivative'] = host_m * res[3] / w.moi
            if not DUAL:
                dadt, dedt = ophys.semia_eccen_derivatives(a, n, e, m, res[1], res[2], host_m)
                out['orbit.da_dt'], out['orbit.de_dt'] = dadt, dedt
    except Exception as ex:
        out['_error'] = repr(ex)[:300]
    return {k: ({'value': jval(v), 'term': term_of(v)} if k != '_error' else {'error': v}) for k, v in out.items()}


results = []
for hist in spec['histories']:
    try:
        w, o = fresh_pair()
        final = {}
        init = {'orbital_period': tagged('orbital_period', 0), 'eccentricity': tagged('eccentricity', 0)}
        if not SYNC:
            init['spin_period'] = tagged('spin_period', 0)
        if OBLIQ:
            init['obliquity'] = tagged('obliquity', 0)
        if LAYERED:
            t0 = tagged('temperature', 0)
            w.mantle.set_state(temperature=t0)
            final['temperature'] = ('temperature', t0)
        w.set_state(**init)
        for nm, v in init.items():
            final[GROUP.get(nm, nm)] = (nm, v)
        if DUAL:
            hinit = {'host_spin_period': tagged('host_spin_period', 0)}
            if OBLIQ:
                hinit['host_obliquity'] = tagged('host_obliquity', 0)
            if LAYERED:
                hinit['host_temperature'] = tagged('host_temperature', 0)
            apply_op(w, o, 'host', hinit)
            for nm, v in hinit.items():
                final[nm] = (nm, v)
        for k, op in enumerate(hist, start=1):
            kw = {nm: tagged(nm, k) for nm in op['kw']}
            apply_op(w, o, op['via'], kw)
            for nm, v in kw.items():
                final[GROUP.get(nm, nm)] = (nm, v)
        got = observe(w, o)
        w2, o2 = fresh_pair()
        if 'temperature' in final:
            w2.mantle.set_state(temperature=final['temperature'][1])
        for key in ('fixed_q', 'fixed_dt'):
            if key in final:
                apply_op(w2, o2, 'tides', {key: final[key][1]})
        w2.set_state(**{nm: v for g, (nm, v) in final.items() if nm in WORLD_KEYS and nm != 'time'})
        if DUAL:
            apply_op(w2, o2, 'host', {nm: v for g, (nm, v) in final.items() if nm.startswith('host_')})
        if 'time' in final:
            o2.time = final['time'][1]
        want = observe(w2, o2)
        func = functional(w2, final)
        results.append({'history': hist, 'hist': got, 'fresh': want, 'functional': func, 'final': {g: nm for g, (nm, v) in final.items()}})
    except Exception as e:
        import traceback
        results.append({'history': hist, 'error': repr(e)[:300], 'trace': traceback.format_exc()[-900:]})
print('\n@@RESULT@@' + json.dumps(results))
