"""Mutation self-test of a check (never touches /repo): single-token mutants of the source files a property is anchored in are written into a scratch copy of the repository
(VERIF_REPO), the check's quick tier is run against each, and killed / survived / harness-error is recorded. Survivors are triaged by hand (equivalent mutant, outside the claim, or a gap
to close). usage: selfmut.py <check e.g. c10> <scratch_repo> <out.json> <n_mutants> <file> [<file> ...]   (files relative to the repository root)"""
import sys, os, re, json, random, subprocess, time, tokenize, io

check, scratch, outp, nmut = sys.argv[1], sys.argv[2], sys.argv[3], int(sys.argv[4])
files = sys.argv[5:]
rnd = random.Random(int(os.environ.get('VERIF_SEED', '0') or 0) + 17)
VERIF = os.path.dirname(os.path.dirname(os.path.abspath(__file__)))


def code_lines(path):
    """indices of lines that are code (not comments, not inside docstrings / triple-quoted strings, not cdef declarations without a value, not imports)"""
    src = open(path).read().split('\n')
    out = []
    in_doc = False
    for i, ln in enumerate(src):
        st = ln.strip()
        q = st.count('"""') + st.count("'''")
        if in_doc:
            if q % 2 == 1:
                in_doc = False
            continue
        if q % 2 == 1:
            in_doc = True
            continue
        if q >= 2 or not st or st.startswith('#') or st.startswith(('import ', 'from ', 'cimport ', '@', 'def ', 'cdef class', 'class ', 'cpdef ', 'raise ', 'log.', 'print(')):
            continue
        if re.match(r'^cdef\s+[\w\s\*\[\]:,]+$', st):      # declaration only
            continue
        if ln.startswith(('def ', 'cdef ')) and ln.rstrip().endswith((':', ',', '(')):
            continue
        out.append(i)
    return src, out


OPS = [(r'(?<=[\w\)\]\.]) \+ (?=[\w\(\-\.])', ' - '), (r'(?<=[\w\)\]\.]) - (?=[\w\(\.])', ' + '), (r'(?<=[\w\)\]\.]) \* (?=[\w\(\-\.])', ' / '), (r'(?<=[\w\)\]\.]) / (?=[\w\(\-\.])', ' * '),
       (r' <= ', ' < '), (r' >= ', ' > '), (r' < ', ' <= '), (r' > ', ' >= '), (r' == ', ' != '), (r'\bTrue\b', 'False'), (r'\bFalse\b', 'True')]


def mutants_of(line):
    """all single-token mutants of one source line (code part only)"""
    code = line.split('#')[0] if "'" not in line and '"' not in line else line
    res = []
    for m in re.finditer(r'(?<![\w\.])(\d+\.\d*|\d*\.\d+|\d+)(?![\w\.])', code):
        tok = m.group(1)
        if tok in ('0', '0.', '0.0'):
            new = '1' + tok[1:]
        else:
            try:
                v = float(tok)
            except ValueError:
                continue
            new = (str(int(v) + 1) + ('.' if '.' in tok else '')) if v == int(v) and len(tok) < 6 else tok[:-1] + ('7' if tok[-1] != '7' else '3') if tok[-1].isdigit() else None
        if new and new != tok:
            res.append(('literal %s -> %s' % (tok, new), code[:m.start(1)] + new + code[m.end(1):] + line[len(code):]))
    for pat, rep in OPS:
        for m in re.finditer(pat, code):
            res.append(('%s -> %s' % (m.group(0).strip(), rep.strip()), code[:m.start()] + rep + code[m.end():] + line[len(code):]))
    # swap two adjacent simple arguments of a call / subscript index offsets
    for m in re.finditer(r'\(([A-Za-z_][\w\.\[\]]*), ([A-Za-z_][\w\.\[\]]*)([,\)])', code):
        if m.group(1) != m.group(2):
            res.append(('swap args %s,%s' % (m.group(1), m.group(2)), code[:m.start()] + '(%s, %s%s' % (m.group(2), m.group(1), m.group(3)) + code[m.end():] + line[len(code):]))
    return res


pool = []
for rel in files:
    path = os.path.join(scratch, rel)
    src, idx = code_lines(path)
    for i in idx:
        for desc, new in mutants_of(src[i]):
            pool.append((rel, i, desc, new))
rnd.shuffle(pool)
pool = pool[:nmut]
results = []
env = dict(os.environ, VERIF_REPO=scratch, VERIF_OUT=os.path.join(scratch, '_verif_out'))
for k, (rel, i, desc, new) in enumerate(pool):
    path = os.path.join(scratch, rel)
    orig = open(path).read()
    lines = orig.split('\n')
    old = lines[i]
    lines[i] = new
    open(path, 'w').write('\n'.join(lines))
    t0 = time.time()
    try:
        p = subprocess.run([os.path.join(VERIF, 'check'), check, 'quick'], capture_output=True, text=True, cwd=VERIF, env=env, timeout=900)
        rc, outtxt = p.returncode, p.stdout
    except subprocess.TimeoutExpired:
        rc, outtxt = -9, 'TIMEOUT'
    finally:
        open(path, 'w').write(orig)
    first = ''
    for ln in outtxt.split('\n'):
        if ln.strip().startswith('obligation:') or ln.startswith('HARNESS-ERROR') or ln.startswith('INCONCLUSIVE'):
            first = ln.strip()[:200]
            break
    results.append({'file': rel, 'line': i + 1, 'mutation': desc, 'old': old.strip()[:160], 'new': new.strip()[:160], 'exit': rc, 'first': first, 'wall_s': round(time.time() - t0, 1)})
    json.dump({'check': check, 'results': results}, open(outp, 'w'), indent=1)
    print('%3d/%d %s:%d %-28s exit=%s %s' % (k + 1, len(pool), rel.split('/')[-1], i + 1, desc[:28], rc, first[:90]), flush=True)
killed = sum(1 for r in results if r['exit'] == 1)
err = sum(1 for r in results if r['exit'] in (2, 3))
surv = [r for r in results if r['exit'] == 0]
print('SUMMARY %s: %d mutants, %d killed (VIOLATION), %d harness-error/inconclusive, %d survived' % (check, len(results), killed, err, len(surv)))
