"""prints the prompt for a seeding sub-agent: property text only + scratch worktree path (nothing from /verif)."""
import json, sys
pid = sys.argv[1]
round3 = len(sys.argv) > 2 and sys.argv[2] == '3'
round2 = (len(sys.argv) > 2 and sys.argv[2] == '2') or round3
nums = ('-6' if round3 else '-4, -5' if round2 else '-1, -2, -3')
wt = '/tmp/seedwt/%s' % pid
for l in open('/verif/properties.jsonl'):
    d = json.loads(l)
    if d['id'] == pid:
        break
prop = {k: d[k] for k in ('id', 'title', 'statement', 'quantifier', 'why_tests_cant', 'anchors')}
ROUND2 = (" This is a second round: the obvious places (the central formula, the main table, the first branch one would think of) have been tried already. Look for the less obvious ways in which the property can break: code that feeds or consumes the anchored functions (glue, wrappers, option/default handling, caching and update flags, helper functions, conversions, rarely taken branches, a second code path that duplicates the first), a change that is a plausible 'clean-up' or 'optimisation' rather than a typo, or one that only manifests for an unusual but valid input." if round2 else "")
if round3:
    ROUND2 += " Third round: aim for a change that needs TWO cooperating sites that each look fine alone, or a multi-step sequence of operations (a particular order of setter calls, a re-use of an object after reconfiguration, an interruption at one point), to manifest. You have about 15 minutes: keep it to a Python-only change and run the full suite exactly once."
print(f"""You are helping to evaluate a verification effort for the open-source Python/Cython/Numba package TidalPy (tidal heating, Love numbers, orbital evolution).
You have your own scratch git worktree of the repository at {wt} (a detached checkout with the compiled extension modules already copied in). Work ONLY inside {wt} and /tmp/seedout/{pid}{nums}; never touch /repo or /verif, and do not read anything under /verif.

Here is a semantic property of TidalPy that should hold for the code as it stands:

{json.dumps(prop, indent=1)}

Your task: produce {'ONE realistic source change' if round3 else 'TWO different realistic source changes' if round2 else 'THREE different realistic source changes'} (the kind of regression a maintainer could plausibly introduce: an argument-order swap at one call site, a wrong sign/factor/index in one table entry or one branch, a dropped update flag, an off-by-one in a loop bound, a stale cache, a wrong unit conversion in one path ...) each of which BREAKS this property while the package still imports and the existing test suite still passes. Prefer changes that need something specific in order to manifest (one particular degree, mode, branch, option combination, ordering of calls, input region) over changes that break everything. Changes must be to Python (.py) files or, if you change a .pyx/.pxd Cython file, you must also rebuild the corresponding extension in place so that the compiled module really has the new behaviour (a Python-only change is much simpler; prefer those unless the property lives only in Cython code - in that case changing the thin Python-level wrappers or helper .py files is also fine). Each change must be small (a few lines) and independent of the others (each is applied alone to a clean tree).{ROUND2}

For each change k = {'6' if round3 else '4, 5' if round2 else '1, 2, 3'} write into /tmp/seedout/{pid}-k/ :
  - patch.diff : `git diff` of the change against the clean worktree (must apply with `git apply` at the repository root),
  - demo.py    : a self-contained demonstration script, run as `PYTHONPATH=<tree> /venv/bin/python demo.py`, that uses only the public API of the package, exits 0 on the clean tree and exits 1 on the changed tree, and prints what it observed (the concrete inputs and the numbers that violate the property),
  - meta.json  : {{"property": "{pid}", "what": "<one or two sentences: what was changed>", "needs": "<what is needed for the violation to manifest>", "tests_run": "<exactly what you ran and the pass/fail counts>"}}.

How to run things: the interpreter is /venv/bin/python; always set PYTHONPATH={wt} so that the worktree (not the installed copy) is imported, and check with `python -c "import TidalPy; print(TidalPy.__file__)"`. The full test suite is `cd {wt} && PYTHONPATH={wt} /venv/bin/python -m pytest -q -p no:cacheprovider --timeout=900 Tests` (about 4 minutes on an idle machine; 892 pass, and 2 network tests in Tests/Test_Utilities/Test_Exoplanets fail on the clean tree too because there is no network - that is expected and does not count). The machine is shared: never run more than one pytest at a time, first run only the test files that touch the code you changed, and run the full suite once per final change. A change only counts if the full suite result with the change is identical to the clean result.
Cython itself is NOT installed. The generated C file of every .pyx module (x.c next to x.pyx; untracked, so it does not show in git diff) and the compiled module (x.cpython-312-x86_64-linux-gnu.so) are present. If you change a .pyx file you must mirror the change by hand in the generated x.c (Cython embeds every source line as a comment right above its C translation, so small changes - a constant, a sign, an index, a swapped argument, a comparison - are easy to locate) and recompile in the module's directory with:
  gcc -shared -fPIC -O3 -fopenmp -I/root/.pyenv/versions/3.12.1/include/python3.12 -I$(/venv/bin/python -c "import numpy; print(numpy.get_include())") -I{wt} -I. $(/venv/bin/python -c "import CyRK, os; d=os.path.dirname(CyRK.__file__); print(' '.join('-I'+os.path.join(d,x) for x in ('', 'cy', 'array', 'utils')))") x.c -o x.cpython-312-x86_64-linux-gnu.so
In that case add to the output directory, besides patch.diff (the .pyx change), a file c_patch.diff with the diff of the generated .c (`diff -u x.c.orig x.c`, paths relative to the repository root) and say so in meta.json; keep a copy of the original .c/.so so that you can restore them afterwards. Python-only changes are much simpler: prefer them whenever the property can be broken from Python code.
Do not use `git stash` (refs/stash is shared between all worktrees of the repository, other agents work in sibling worktrees): use `git diff > file`, `git apply -R`, `git checkout -- .` instead.
There is no network access. After finishing each change restore the worktree with `git -C {wt} checkout -- .` (and rebuild anything you rebuilt) before starting the next one, and leave the worktree clean at the end.
Report at the end, briefly, for each change: what it is, what it needs to manifest, and the test result.""")
