#!/bin/bash
# usage: seed_confirm.sh <ID e.g. C11> <k> <dir with patch.diff demo.py meta.json>
# Confirms in a scratch worktree: patch applies, demo passes clean / fails mutated, full test suite result. Writes <dir>/confirm.json
ID=$1; K=$2; D=$3
WT=/tmp/seedruns/wt_${ID}_${K}
rm -rf $WT; git -C /repo worktree prune
git -C /repo worktree add -q --detach $WT HEAD || exit 2
rsync -a --include='*/' --include='*.so' --exclude='*' /repo/TidalPy/ $WT/TidalPy/
cd $WT; HEAD0=$(git rev-parse --short HEAD)
PYTHONPATH=$WT /venv/bin/python $D/demo.py > $D/demo_clean.log 2>&1; CLEAN=$?
git apply $D/patch.diff || { echo "patch does not apply"; exit 3; }
PYTHONPATH=$WT /venv/bin/python $D/demo.py > $D/demo_mut.log 2>&1; MUT=$?
PYTHONPATH=$WT timeout 3000 /venv/bin/python -m pytest -q -p no:cacheprovider --timeout=900 Tests > $D/tests_mut.log 2>&1
TAIL=$(tail -1 $D/tests_mut.log)
FAILED=$(grep -c "^FAILED" $D/tests_mut.log)
FAILNAMES=$(grep "^FAILED" $D/tests_mut.log | tr '\n' ';')
cd /; git -C /repo worktree remove --force $WT
echo "{\"id\": \"$ID\", \"k\": $K, \"demo_clean_rc\": $CLEAN, \"demo_mutated_rc\": $MUT, \"tests_tail\": \"$TAIL\", \"failed_tests\": \"$FAILNAMES\", \"repo_head\": \"$HEAD0\"}" > $D/confirm.json
cat $D/confirm.json
