#!/bin/bash
# usage: seed_confirm.sh <ID e.g. C11> <k> <dir with patch.diff demo.py meta.json>
# Confirms in a scratch worktree: patch applies, demo passes clean / fails mutated, full test suite result. Writes <dir>/confirm.json
# include paths are computed here, not inside the module directory (TidalPy/utilities/types.py shadows the stdlib module there)
NPINC=$(cd /tmp && /venv/bin/python -c "import numpy; print(numpy.get_include())")
CYRKINC=$(cd /tmp && /venv/bin/python -c "import CyRK, os; d=os.path.dirname(CyRK.__file__); print(' '.join('-I'+os.path.join(d,x) for x in ('', 'cy', 'array', 'utils')))")
ID=$1; K=$2; D=$3
WT=/tmp/seedruns/wt_${ID}_${K}
# the lock keeps seed_detect.sh (which temporarily mutates /repo) from overlapping with the snapshot taken here
exec 9>/tmp/seed_repo.lock; flock 9
rm -rf $WT; git -C /repo worktree prune
git -C /repo worktree add -q --detach $WT HEAD || exit 2
rsync -a --include='*/' --include='*.so' --include='*.c' --exclude='*' /repo/TidalPy/ $WT/TidalPy/
flock -u 9
cd $WT; HEAD0=$(git rev-parse --short HEAD)
PYTHONPATH=$WT /venv/bin/python $D/demo.py > $D/demo_clean.log 2>&1; CLEAN=$?
git apply $D/patch.diff || { echo "patch does not apply"; exit 3; }
if [ -f $D/c_patch.diff ]; then
  # Cython is not available: the seeded change carries the hand-mirrored change of the generated .c; rebuild the module(s) in the worktree
  patch -p$(grep -m1 '^+++ ' $D/c_patch.diff | grep -q '^+++ b/' && echo 1 || echo 0) -d $WT < $D/c_patch.diff || { echo "c patch does not apply"; exit 3; }
  for f in $(grep '^+++ ' $D/c_patch.diff | awk '{print $2}' | sed 's#^[ab]/##'); do
    (cd $WT/$(dirname $f) && gcc -shared -fPIC -O3 -fopenmp -w -I/root/.pyenv/versions/3.12.1/include/python3.12 -I$NPINC -I$WT -I. $CYRKINC $(basename $f) -o $(basename ${f%.c}).cpython-312-x86_64-linux-gnu.so) || { echo "rebuild failed"; exit 3; }
  done
fi
PYTHONPATH=$WT /venv/bin/python $D/demo.py > $D/demo_mut.log 2>&1; MUT=$?
NUMBA_NUM_THREADS=4 OMP_NUM_THREADS=4 PYTHONPATH=$WT timeout 5000 /venv/bin/python -m pytest -q -p no:cacheprovider --timeout=900 Tests > $D/tests_mut.log 2>&1
TAIL=$(tail -1 $D/tests_mut.log)
FAILED=$(grep -c "^FAILED" $D/tests_mut.log)
FAILNAMES=$(grep "^FAILED" $D/tests_mut.log | tr '\n' ';')
cd /; git -C /repo worktree remove --force $WT
echo "{\"id\": \"$ID\", \"k\": $K, \"demo_clean_rc\": $CLEAN, \"demo_mutated_rc\": $MUT, \"tests_tail\": \"$TAIL\", \"failed_tests\": \"$FAILNAMES\", \"repo_head\": \"$HEAD0\"}" > $D/confirm.json
cat $D/confirm.json
