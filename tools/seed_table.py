"""Generates the markdown table of seeded breaking changes (DESIGN.md section 6.7) from seeded/<ID>-<k>/{meta,confirm,detect}.json"""
import json, os, glob, re
HERE = os.path.dirname(os.path.dirname(os.path.abspath(__file__)))
rows = []
for d in sorted(glob.glob(os.path.join(HERE, 'seeded', 'C*-*'))):
    sid = os.path.basename(d)
    def load(n):
        p = os.path.join(d, n)
        try:
            return json.load(open(p)) if os.path.exists(p) else None
        except Exception:
            return None
    meta, conf, det = load('meta.json'), load('confirm.json'), load('detect.json')
    what = (meta or {}).get('what', '?')
    what = re.sub(r'\s+', ' ', what)[:230]
    needs = re.sub(r'\s+', ' ', (meta or {}).get('needs', '?'))[:200]
    if conf:
        tests = conf.get('tests_tail', '')
        m = re.search(r'(\d+) failed, (\d+) passed', tests)
        ok = bool(m) and m.group(2) == '892' and m.group(1) == '2' and conf.get('demo_clean_rc') == 0 and conf.get('demo_mutated_rc') == 1
        confs = 'confirmed (demo 0/1, suite %s passed, %s failed = baseline)' % (m.group(2), m.group(1)) if ok else 'NOT confirmed: demo %s/%s, %s' % (conf.get('demo_clean_rc'), conf.get('demo_mutated_rc'), tests[-60:])
    else:
        confs = 'confirmation pending'
    if det:
        parts = []
        for r in det['runs']:
            parts.append('`%s` exit %d%s' % (r['check'], r['exit'], (': ' + re.sub(r'\s+', ' ', r['first']).replace('obligation: ', '')[:150]) if r['first'] else ''))
        dets = '; '.join(parts)
    else:
        dets = 'not run'
    rows.append('| %s | %s | %s | %s | %s |' % (sid, what.replace('|', '/'), needs.replace('|', '/'), confs, dets.replace('|', '/')))
print('| seed | change | needs | confirmation | caught by |\n|---|---|---|---|---|')
print('\n'.join(rows))
