#!/bin/bash
# usage: seed_detect.sh <ID-k> [check ...]   (default check: the property's own, quick tier)
# Applies /verif/seeded/<ID-k>/patch.diff (and c_patch.diff + rebuild, if present) to /repo, runs the checks, undoes everything, writes detect.json.
# Never run two of these at the same time, nor while another check reads /repo.
# include paths are computed here, not inside the module directory (TidalPy/utilities/types.py shadows the stdlib module there)
NPINC=$(cd /tmp && /venv/bin/python -c "import numpy; print(numpy.get_include())")
CYRKINC=$(cd /tmp && /venv/bin/python -c "import CyRK, os; d=os.path.dirname(CyRK.__file__); print(' '.join('-I'+os.path.join(d,x) for x in ('', 'cy', 'array', 'utils')))")
S=$1; shift
D=/verif/seeded/$S
PID=$(echo $S | cut -d- -f1)
CHECKS="$@"; [ -z "$CHECKS" ] && CHECKS=$(echo $PID | tr 'C' 'c')
cd /repo || exit 2
exec 9>/tmp/seed_repo.lock; flock 9
if [ -n "$(git status --porcelain --untracked-files=no)" ]; then echo "/repo working tree is not clean"; exit 2; fi
git apply $D/patch.diff || { echo "patch does not apply"; exit 3; }
REBUILT=""
if [ -f $D/c_patch.diff ]; then
  for f in $(grep '^+++ ' $D/c_patch.diff | awk '{print $2}' | sed 's#^[ab]/##'); do
    cp /repo/$f /tmp/seed_detect_$(basename $f).orig
    so=$(ls /repo/${f%.c}.cpython-312-x86_64-linux-gnu.so); cp $so /tmp/seed_detect_$(basename $so).orig
    REBUILT="$REBUILT $f"
  done
  patch -p$(grep -m1 '^+++ ' $D/c_patch.diff | grep -q '^+++ b/' && echo 1 || echo 0) -d /repo < $D/c_patch.diff || { echo "c patch failed"; }
  for f in $REBUILT; do
    (cd /repo/$(dirname $f) && gcc -shared -fPIC -O3 -fopenmp -w -I/root/.pyenv/versions/3.12.1/include/python3.12 -I$NPINC -I/repo -I. $CYRKINC $(basename $f) -o $(basename ${f%.c}).cpython-312-x86_64-linux-gnu.so)
  done
fi
OUT="{\"seed\": \"$S\", \"repo_head\": \"$(git rev-parse --short HEAD)\", \"runs\": ["
SEP=""
for c in $CHECKS; do
  cd /verif
  T0=$(date +%s)
  VERIF_OUT=/tmp/seed_detect_out timeout 3000 ./check $c quick > /tmp/seed_detect_${S}_$c.log 2>&1; RC=$?
  T1=$(date +%s)
  NV=$(grep -c '^VIOLATION' /tmp/seed_detect_${S}_$c.log)
  FIRST=$(grep -A1 '^VIOLATION' /tmp/seed_detect_${S}_$c.log | grep 'obligation:' | head -1 | cut -c1-300 | sed 's/"/\\"/g')
  OUT="$OUT$SEP{\"check\": \"$c quick\", \"exit\": $RC, \"violation_lines\": $NV, \"first\": \"$FIRST\", \"wall_s\": $((T1-T0))}"
  SEP=", "
  cut -c1-400 /tmp/seed_detect_${S}_$c.log | head -40 > $D/check_$c.log; rm -f /tmp/seed_detect_${S}_$c.log
done
OUT="$OUT]}"
cd /repo && git checkout -- .
for f in $REBUILT; do
  cp /tmp/seed_detect_$(basename $f).orig /repo/$f
  so=/repo/${f%.c}.cpython-312-x86_64-linux-gnu.so; cp /tmp/seed_detect_$(basename $so).orig $so
  rm -f /tmp/seed_detect_$(basename $f).orig /tmp/seed_detect_$(basename $so).orig
done
find /repo/TidalPy -name "*.orig" -newer $D/patch.diff -delete 2>/dev/null
echo "$OUT" > $D/detect.json
cat $D/detect.json
rm -rf /tmp/seed_detect_out
