"""Regenerates MANIFEST.json from the table below (kept in one place so the manifest is always valid)."""
import json, os
HERE = os.path.dirname(os.path.dirname(os.path.abspath(__file__)))
CHECKS = {
 'C12': dict(
    text='Bounded SMT validity checking of the real source: the six love1d helpers are executed symbolically (z3 reals/complex, exact literals) and their equality with the closed form is decided by z3 for a symbolic degree l>=2 and each l in 2..7; wrappers in tides/methods/base.py likewise. Solver verdicts within stated bounds, not a proof.',
    note='Trusted: z3, the overloading executor (symx), the closed-form oracle written in the harness. Real arithmetic, exact literals; rounding outside the claim.',
    technique='symbolic execution of the Python source under operator overloading + z3 (nonlinear real arithmetic) validity queries',
    design='2/C12'),
 'C08': dict(
    text='Bounded SMT validity checking of the real tables: every eccentricity_funcs_truncN is executed symbolically in e; coefficient-wise equality with the exact Hansen-series oracle is decided by z3 (interpolation-uniqueness LRA query per entry), closed-form entries by a rational-function query over e in [0,1), omitted modes and lookup dictionaries by finite-domain Int queries. Exhaustive over the shipped (l,N,p,q) in the thorough tier.',
    note='Trusted: z3, symx executor, the exact Fraction Hansen series oracle (self-tested against Kaula G_201, G_200 and the k=0 closed form). Tolerance 1e-11 relative per coefficient. Rounding of the run-time evaluation outside the claim.',
    technique='symbolic execution of the table source + z3 linear/nonlinear real arithmetic queries against an exact power-series oracle',
    design='2/C08'),
 'C09': dict(
    text='Bounded SMT validity checking: calc_inclination(_off) for l=2..7 executed symbolically with the rational quarter-angle parametrisation of I in [0,pi]; each entry compared with Kaula F_lmp^2 by a univariate z3 query (tolerance 1e-9); off tables at I=0; universal coefficients and lookup dictionaries by Int queries over symbolic indices. Round-2 addition: the package-level handles are bound through the real import lines and module-level dictionaries of inclination_funcs/__init__.py.',
    note='Trusted: z3, symx executor (de Moivre expansion of sin/cos of multiples of I/2), Kaula triple-sum oracle written in the harness.',
    technique='symbolic execution of the table source + univariate nonlinear real arithmetic queries in z3',
    design='2/C09'),
 'C13': dict(
    text='Bounded concolic + SMT checking of the real classes: the world/orbit/tides objects are driven in the repository interpreter under a provenance tracer (setter inputs are symbols, leaf numeric functions are uninterpreted, inline arithmetic is interpreted); for every history of set_state calls up to the stated length and every exposed quantity, z3 decides validity of T_history = T_fresh-world (and = the functional API term) over uninterpreted functions and real arithmetic, i.e. for all input values. Histories are enumerated up to the bound; a sat answer is confirmed by the concrete values of the same real run. Worlds: CPL/CTL (obliquity, forced synchronous), layered (also synchronous), dual-body systems with a tidally active host; every setter route of world, orbit, layer and tides.',
    note='Trusted: z3, the tracer (replay/c13_tracer.py) which wraps leaf functions at their import sites; control flow that depends on input VALUES is followed for one concrete value per symbol (concolic). Lost provenance degrades to concrete comparison and is reported as not covered.',
    technique='concolic provenance execution of the real classes + z3 EUF/real-arithmetic validity queries per history and quantity',
    design='2/C13'),
 'C14': dict(
    text='Bounded SMT validity checking: all eight tidal_potential implementations executed symbolically (trig of integer combinations of base angles expanded over atom pairs with c^2+s^2=1); partial derivatives obtained by differentiating the encoding; z3 decides the six derivative relations and the Laplace identity per mode, modal-sum == non-modal, and the limit relations as vanishing joint Taylor coefficients.',
    note='Trusted: z3, symx executor and its differentiation of the encoding. n>0 assumed. Joint (e,I) truncation of the medium-obliquity variants is read as total order 3 (their coefficient tables); only coefficients with I-order <= 2 are claimed.',
    technique='symbolic execution + symbolic differentiation of the encoding + z3 nonlinear real arithmetic (polynomial identities modulo circle constraints)',
    design='2/C14'),
 'C10': dict(
    text='Bounded SMT validity checking: calculate_terms/collapse_modes executed symbolically with the real key structure of the tables and abstract non-negative entries (identities hold for any table values); z3 decides per-entry and collapsed heating == M(n dUdM - spin dUdO), per-entry sign, vanishing at e=0 for synchronous zero-obliquity, the (21/2) limit with the real tables, grouped == ungrouped totals (second encoding with grouping disabled by AST transform), arrays == scalars, and the Love-number call site. The public functions of toolbox/quick_tides.py (single, dual, dict front ends; 99 configurations) are additionally run under a provenance tracer and z3 decides that every returned quantity has the term of the documented pipeline over uninterpreted leaf functions (call-site argument order).',
    note='Trusted: z3, symx executor, AST transform that disables grouping. Rheology values abstracted as a function of frequency. Replays go through the public quick_tidal_dissipation API at generic parameters.',
    technique='symbolic execution with table abstraction + z3 nonlinear real arithmetic with ite (sign/abs) and uninterpreted rheology function',
    design='2/C10'),
 'C11': dict(
    text='Bounded SMT validity checking: the single/dual dissipation rate functions, the Kepler conversion and the result-assembly slices of the quick_tides functions are executed symbolically; z3 decides the energy balance and (zero obliquity) angular-momentum balance under n^2 a^3 = G(m1+m2), equality of combined and separate functions and array==scalar; the e=0 clause is a QF_FP Float64 query on the same source executed with IEEE semantics. The whole quick_tides functions are additionally covered by the C10 provenance obligations (derivative call sites receive the quantities of the right body).',
    note='Trusted: z3 (NRA and QF_FP), symx executor, sqrt/cube-root atoms with their defining axioms. FP clause: e-independent arithmetic abstracted to fresh values bounded by 2^400.',
    technique='symbolic execution + z3 nonlinear real arithmetic; QF_FP (Float64) for the e=0 special value',
    design='2/C11'),
 'C07': dict(
    text='Bounded SMT validity checking of the current .pyx source (transliterated to Python, extreme-value guards explored as paths): z3 decides M*J_published=1, passivity, |M|<=mu and an explicit high-frequency rate bound on the main path, the documented limit on every guard path, out[i]==impl(in[i]) for the prange helpers on extent-checked buffers (n<=3), the name lookup over a symbolic string, and legacy compliance == published == 1/M_compiled where no legacy mask is active. Round-2 additions: the instance state is built through the real constructor chain (__init__ -> RheologyModelBase.__init__ -> change_args), a re-parameterised instance equals a fresh one attribute by attribute, and the guard constants lie outside the stated physical range (frequency 1e-12..1e3 rad/s, rigidity >= 1 Pa).',
    note='Trusted: z3, symx executor, the Cython->Python transliterator (cross-checked against the compiled module whenever that is in sync with the source), published compliances written in the harness. pow/tgamma/cos/sin are atoms with axioms. Replay runs the transliterated current source with floats (Cython is not available to rebuild).',
    technique='Cython source transliteration + path-exploring symbolic execution + z3 nonlinear real arithmetic / strings',
    design='2/C07'),
 'C15': dict(
    text='Bounded SMT validity checking: calculate_strain_stress / calculate_volumetric_heating / calculate_displacements executed on a 2x2x2x1 grid of distinct complex symbols; z3 decides Hooke law component-wise, the three radial tractions (given the degree-l Laplace identity), the heating form == 2 Im(mu)|dev eps|^2 + Im(K)|tr eps|^2, its non-negativity (Cauchy-Schwarz query), the abs step on arbitrary inputs and vanishing for real moduli. Round-2 addition: call-site obligations for calculate_mode_response_coupled (degree, frequency, arrays and potential tuple handed to calculate_strain_stress, bound through its own signature).',
    note='Trusted: z3, symx executor (numpy object arrays of symbolic values). Degree l in 2..3 quick / 2..10 thorough.',
    technique='symbolic execution on a small symbolic grid + z3 nonlinear real arithmetic',
    design='2/C15'),
 'C19': dict(
    text='Bounded SMT validity checking: radiogenic, cooling, viscosity and melt-law functions executed symbolically; exp and x**b are atoms with instantiated monotonicity / functional-equation axioms; additivity, linearity, half-life, sign, monotonicity (two symbolic copies, inside and across guard regions), floors and Henning window values decided by z3. Round-3 addition: Radiogenics.__init__/reinit of the current source run on a stub self with a symbolic isotope table; heating through the configuration keys of the model\'s !TPY_args const line equals the model on the CURRENT table after init, a second reinit and a replaced table (real-object replay).',
    note='Trusted: z3, symx executor, the atom axioms (listed in evidence; a model that does not replay on the real code is reported as a harness error, never as a violation).',
    technique='symbolic execution with transcendental atoms + two-copy monotonicity queries in z3 (nonlinear real arithmetic)',
    design='2/C19'),
 'C17': dict(
    text='Bounded SMT validity checking: conversions.py and the transliterated conversions_x.pyx executed symbolically; inverse pairs, Kepler III, compiled==interpreted (including embedded constants) and the validation domains decided by z3; the OrbitBase setters executed on a duck-typed orbit with an arbitrary prior state: one update through each of six routes leaves (a, n, P) Kepler-consistent (inductive step for any update sequence). Round-2 addition: orbit updates in three configurations (moon, star is the host, host around a separate star with set_stellar_orbit) with the matching mass pair; public-API replay with real Orbit objects.',
    note='Trusted: z3, symx executor, cube-root/sqrt atoms with defining equations, pi as bounded symbol, world objects reduced to masses.',
    technique='symbolic execution (Python + transliterated Cython + extracted methods) + z3 nonlinear real arithmetic; one inductive step from an arbitrary state',
    design='2/C17'),
 'C20': dict(
    text='Bounded SMT validity checking of the transliterated complex.pyx / special_x.pyx: principal-value identities of cf_hypot and cf_csqrt over the reals per explored path; C99 G.6.4.2 special values of cf_csqrt as QF_FP Float64 queries on the same source executed with IEEE values (one query per clause and path); cf_cipow and the cf_cpow integer fast path executed for every concrete exponent on a formal indeterminate; the double-factorial literals against n!! as solver queries over the table encoding; interpreted sqrt_neg against the principal root. cf_cabs, cf_carg, cf_cexp (ordinary and scaled branch, frexp/ldexp exact), cf_clog (all rescaling branches) and the general branch of cf_cpow are checked structurally over uninterpreted libm functions; the module constants are read from the source and have their own obligations. Round-2 additions: csqrt / hypot with unbounded arguments and the overflow threshold as a positive symbol (covers the scaled branch), the default-argument call of sqrt_neg.',
    note='Trusted: z3 (NRA and QF_FP), transliterator, libm sqrt modelled as exact real sqrt in the real-arithmetic part. Few-ulp accuracy of finite results, cexp/clog values and the overflow-scaling branch are not decided (stated).',
    technique='Cython source transliteration + symbolic execution; z3 nonlinear real arithmetic and QF_FP Float64 (Annex G clauses)',
    design='2/C20'),
 'C05': dict(
    text='Bounded SMT validity checking: the compressible solid diffeq methods of odes.pyx (transliterated) and the real sensitivity kernels are executed on symbolic complex states; z3 decides the exact local energy identity d/dr{r^2 Im[conj(y1)y2 + l(l+1)conj(y3)y4 + conj(y5)y6/(4piG)]} = H_mu Im mu (+ H_K Im K), the sum-of-squares form of H_mu (hence Im k <= 0), exactness of the finite-difference stencils, the surface evaluation of the flux through find_love_cf and the prefactor of calc_radial_tidal_heating. Both kernels\' finite-difference stencils and the heating prefactor for every degree of the tier, with real-function replays. Round-2 addition: shares the whole-function run of cf_radial_solver (re-dimensionalisation call sites) and the downward interface-map obligations of C02.',
    note='Trusted: z3, symx executor, transliterator. The global statement follows from the local identity by integration (fundamental theorem of calculus) with the flux vanishing at the centre for regular solutions; quadrature error and integrator accuracy are outside.',
    technique='symbolic execution of ODE right-hand sides and kernels + z3 nonlinear real arithmetic (pointwise identities)',
    design='2/C05'),
 'C02': dict(
    text='Bounded SMT validity checking of the transliterated boundary/interface kernels: for arbitrary per-solution vectors z3 decides that the collapsed surface values meet exactly the requested condition of each solution type (zgesv replaced by its contract) without touching other slots, and that one interface step (vectors mapped upward, constants mapped downward, glue sliced from cf_radial_solver) keeps y1,y2,y5,y6 continuous where defined, y4=0 on the solid side and y7 through static liquids, for all 16 layer orderings; declared stack extents are enforced. The collapse loop and the Love-number extraction of cf_radial_solver are sliced from the current source and executed over symbolic arrays with recording stubs: every kernel call site receives the quantities of the right layer/side/solution type and the Love read-back matches what the collapse wrote.',
    note='Trusted: z3, transliterator, zgesv contract stub (A x = b, info=0). One inductive step from an arbitrary state stands for any layer stack; the integrator preserving solution-hood inside a layer is outside.',
    technique='Cython source transliteration + symbolic execution (formal-indeterminate mode) + z3 identities; extent-checked stack arrays',
    design='2/C02'),
 'C03': dict(
    text='Bounded SMT validity checking: the unit scaling of nondimensional.pyx is shown to be a symmetry of every link (eight ODE right-hand sides, boundary vectors sliced from cf_radial_solver, interface maps, Love extraction), redim(nondim(x))=x, an exactly rescaled planet has identical non-dimensional inputs, and reciprocity: dB/dr=0 for the bilinear form on every ODE class and B(R)=0 with the code\'s tidal/loading boundary vectors gives k_load = k_tidal - h_tidal. Real/imag packing of all eight ODE classes is an obligation (justifies the formal-indeterminate mode); multi-slice / multi-type indexing of the unit-conversion loops; C02 surface obligations are imported. Round-2 additions: a QF_FP Float64 obligation that a layer bound and the radius array are non-dimensionalised to the same double (AST slices of the kernel and of cf_radial_solver), and the arguments of the radial-function re-dimensionalisation bound through the kernel\'s own signature (whole-function run).',
    note='Trusted: z3, transliterator, formal-indeterminate mode (justified by a syntactic field-operations-only test of each kernel). Integrator convergence, B=0 at the centre and B across static-liquid interfaces are outside.',
    technique='Cython source transliteration + symbolic execution (formal indeterminates) + z3 rational-function identities; inductive invariant for reciprocity',
    design='2/C03'),
 'C04': dict(
    text='Bounded SMT validity checking: all nine starting-condition functions are transliterated and executed for a homogeneous sphere; z=x j_{l+1}/j_l and phi_l, phi_{l+1} are atoms with their derivation rules, csqrt an atom with S^2=argument; the r-derivative of each starting vector is obtained by differentiating the encoding and z3 decides that ds/dr - A s lies in span{s_j, s_last} for the matching diffeq (flow-invariance of the span = independence of the start radius); truncated phi/psi/z series equal the exact series as polynomial identities; the driver dispatch table is executed for all flag combinations. The Bessel branch of cf_z_calc is checked structurally; the two Takeuchi solid families are also checked with the recorded y6/y5 index defect factored out, so that other changes to them are not masked by the known finding. Round-2 addition: shares C20\'s principal-root obligations for cf_csqrt (which the starting conditions call through cf_z_calc).',
    note='Trusted: z3, transliterator, differentiation of the encoding, the Bessel recurrences behind the atom rules. Truncation error of the series beyond their order, scipy spherical_jn and the integrator are outside.',
    technique='Cython source transliteration + symbolic execution with special-function atoms and derivation rules + z3 (minors of the span condition)',
    design='2/C04'),
 'C01': dict(
    text='Bounded SMT validity checking of every algebraic link of the shooting pipeline for a uniform incompressible solid sphere: the polynomial regular solutions satisfy the real SolidStaticIncompressible.diffeq; pushed through the real boundary-vector construction, cf_apply_surface_bc (zgesv contract), cf_collapse_layer_solution and find_love_cf they give exactly the Kelvin k, h, l (rational identities in R, rho, mu, G); dynamic -> static at zero frequency and compressible -> incompressible as K -> infinity are identities/limits of the right-hand sides; the starting families span regular solutions (C04 obligations). Real/imag packing of the solid ODE classes and the collapse-loop / Love-extraction call sites (C02 obligations) are part of the pipeline. Round-2 addition: the replay takes the boundary vectors from the current source block with the obligation\'s own solve_for and runs the real solver on a homogeneous sphere.',
    note='Trusted: z3, transliterator, zgesv contract stub; the sympy-built polynomial basis is untrusted (re-checked by the solver). Convergence of the CyRK integrators within tolerance is NOT decided (no solver-based handle on numerical integration); stated as outside.',
    technique='symbolic execution of the transliterated pipeline + z3 rational-function identities against the closed form',
    design='2/C01'),
 'C06': dict(
    text='Bounded symbolic path exploration of the control skeleton of cf_radial_solver / radial_solver (scale/restore, allocate/free with points-to for the nested storage, raise/return, try/finally; nondimensionalize and raise_on_fail as shared z3 Booleans, loops 0/1): per exit site z3 decides that no feasible path leaves the arrays scaled or an allocation live, and that failures raise under raise_on_fail; extents of the surface kernel and redim(nondim(x))=x included; every bad exit is replayed on the real compiled solver in a subprocess (exception, arrays before/after, exit status), plus fixed dynamic runs for liquid surface layers, validation and step-budget failures. Further obligations: a failure site passed with raise_on_fail off leaves error set (success = False); the wrapper\'s guards force all array and tuple lengths equal (sizes as z3 Ints). Round-2 additions: whole-function runs with malformed solve_for values under Cython\'s implicit-exception semantics (typed str assignment, memoryview cast of an empty extent), an ownership obligation for the solution accessors (no view of a buffer released by __dealloc__), iteration budgets on the transliterated while loops of the interface / collapse kernels (termination), NaN / inf / zero bulk-density runs of the real solver with a NaN-aware comparison.',
    note='Trusted: z3, transliterator, skeleton executor (opaque conditions independent: over-approximation). CyRK internals, hangs and NaN material values inside the integrator are outside.',
    technique='symbolic execution of the control skeleton (path conditions in z3) + replay on the real build',
    design='2/C06'),
 'C18': dict(
    text='Bounded symbolic exploration with crash points as solver variables: the real multiprocessing_run source is executed twice on an in-memory file system; in run 1 every file-system effect of case i carries the guard k_i > s (k_i symbolic progress counter = kill point; fail_i symbolic failing cases); run 2 restarts on that symbolic file system, forking on every existence/content query; z3 decides per obligation (no exception, one result per case, values equal to an uninterrupted run, no re-execution of completed cases, own case number/index) that no feasible (k, fail) reaches a bad outcome. Models are replayed on the REAL function: the interrupted directory is reconstructed from a complete real run and restarted for real. Round-2 additions: chains of two (thorough: three) successive interruptions with independent symbolic progress counters; the file-system stub raises FileExistsError and truncates on mode \'w\' like the real one; chain-aware real replay.',
    note='Trusted: z3, the FS/pool/psutil stubs (cases touch disjoint files, so per-case counters cover all interleavings), header written before the interruption. Grids up to 2x2(+must-include) / 3x2 thorough, <=1 failing case, one interruption. Real process kills and partial writes are outside.',
    technique='symbolic execution of the real function over a symbolic file system with crash counters as z3 integers (path exploration + z3), replay on the real code',
    design='2/C18'),
 'C16': dict(
    text='Bounded SMT validity checking of the construction bookkeeping: find_geometry_from_config (all 32x4 presence patterns of the configuration keys, symbolic values), PhysicalObjSpherical.set_geometry (symbolic geometry, np.linspace exact, <=4 slices) and 3-layer stacks: contiguity, strictly increasing slices, telescoping volume sums, enclosed-mass monotonicity, surface gravity, world mass rule; scale_from_world / build_from_world executed on real dict graphs with symbolic leaves (lengths scaled, volume fractions preserved, inputs not mutated); the variant-naming block executed on a z3 string with an unwinding assertion on its loop for chains of derivations. Round-2 additions: mixed derivation chains (default names, explicit symbolic names, scale_from_world) with the invariant that every derived configuration records the name it was built with; LayeredWorld.reinit leaves the configuration untouched. Round-3 addition: the configuration-untouched obligation executes every statement of LayeredWorld.reinit after the layer loop (late set_geometry, tides set-up, clean-up block).',
    note='Trusted: z3 (NRA and strings), symx executor, method extraction with a duck-typed object. The full class machinery of world construction and the shipped configurations are reached only through the replay runner (real build_world/scale_from_world/build_from_world).',
    technique='symbolic execution of extracted methods + z3 nonlinear real arithmetic and string theory; unwinding assertion for the naming loop; replay on the real API',
    design='2/C16'),
}
NOT_YET = {}
ALL = ['C%02d' % i for i in range(1, 21)]
NA = {
}
def main():
    checks = []
    for pid in ALL:
        if pid not in CHECKS:
            continue
        c = CHECKS[pid]
        n = pid.lower()
        checks.append({
            'property_id': pid,
            'quick_cmd': './check %s quick' % n,
            'thorough_cmd': './check %s thorough' % n,
            'evidence_file': 'evidence/%s.json' % pid,
            'replay_cmd_template': './check %s --replay {path}' % n,
            'engine': 'symx',
            'level_claimed': {'category': 'other', 'text': c['text'], 'design_ref': c['design']},
            'level_note': c['note'],
            'technique': c['technique'],
        })
    na = []
    for pid in ALL:
        if pid not in CHECKS:
            na.append({'property_id': pid, 'reason': NA.get(pid, 'check not built yet in this round (planned, see DESIGN.md section 2); nothing is claimed for it')})
    man = {
        'version': 1,
        'setup_cmd': 'mkdir -p evidence replays && python3-vt -c "import z3, numpy; print(z3.get_version_string())"',
        'hooks': {'guard': 'TIDALPY_VERIF', 'enable': 'no hooks are needed: every check reads the current source of /repo', 'baseline_off_cmd': 'cd /repo && /venv/bin/python -m pytest -ra -q -p no:cacheprovider --timeout=900 --continue-on-collection-errors', 'source_commits': [], 'add_only': True},
        'engines': [{'name': 'symx', 'path': 'symx/', 'serves_properties': sorted(CHECKS), 'kind_free_text': 'symbolic executor for the real Python/Cython source (operator overloading over division-free rational functions of z3 reals, path forking, atoms with axioms) + z3 discharge + replay on the real code'}],
        'checks': checks,
        'not_applicable': na,
        'notes': 'Exit codes: 0 held, 1 violation (VIOLATION line), 2 inconclusive (solver unknown), 3 harness error (model did not replay / vacuous twin / job crashed). known_findings.json lists recorded and fixed defects.',
    }
    json.dump(man, open(os.path.join(HERE, 'MANIFEST.json'), 'w'), indent=1)
    print('MANIFEST: %d checks, %d not_applicable' % (len(checks), len(na)))
if __name__ == '__main__':
    main()
