#!/bin/bash
# usage: mk_seed_wt.sh <ID>  -> creates /tmp/seedwt/<ID> (detached worktree of /repo HEAD with the compiled extension modules copied in)
ID=$1; WT=/tmp/seedwt/$ID
exec 9>/tmp/seed_repo.lock; flock 9
rm -rf $WT; git -C /repo worktree prune
git -C /repo worktree add -q --detach $WT HEAD || exit 2
rsync -a --include='*/' --include='*.so' --include='*.c' --include='*.cpp' --exclude='*' /repo/TidalPy/ $WT/TidalPy/
echo $WT
