#!/bin/bash
# confirm every seeded mutation dir given as args "ID-k", 3 at a time
printf "%s\n" "$@" | xargs -P 3 -I{} bash -c 'd=/verif/seeded/{}; id=$(echo {} | cut -d- -f1); k=$(echo {} | cut -d- -f2); /verif/tools/seed_confirm.sh $id $k $d > /tmp/seedruns/{}.log 2>&1'
