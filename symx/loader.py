"""symx.loader — take functions from the CURRENT /repo source and make them executable under the symbolic values.

load_py(path, names, ns)        python (numba) functions / methods: decorators, annotations, docstrings stripped
load_pyx(path, names, ns)       Cython: transliterated to python first (pyx2py), then as above
Literal semantics: every float literal becomes the exact Fraction of its SOURCE TEXT; `/` and `**` go through
exact helpers so that constant sub-expressions fold exactly.
"""
import ast, re, os, hashlib, textwrap
from fractions import Fraction as Fr
from .solve import REPO

ENCODED = []   # registry of (path, qualname, sha) for evidence


def _L(txt):
    return Fr(txt.replace('_', ''))


def _div(a, b):
    if isinstance(a, (int, Fr)) and not isinstance(a, bool) and isinstance(b, (int, Fr)) and not isinstance(b, bool):
        return Fr(a) / Fr(b)
    return a / b


def _pow(a, b):
    if isinstance(a, (int, Fr)) and isinstance(b, (int, Fr)) and not isinstance(a, bool):
        b = Fr(b)
        if b.denominator == 1:
            return Fr(a) ** int(b)
        from .values import Q
        return Q.of(Fr(a)) ** b
    if isinstance(b, float):
        b = Fr(b)
    return a ** b


class _Rewrite(ast.NodeTransformer):
    def __init__(self, src_lines_text):
        self.src = src_lines_text

    def visit_Constant(self, n):
        if isinstance(n.value, float):
            txt = ast.get_source_segment(self.src, n)
            if txt is None:
                txt = repr(n.value)
            return ast.copy_location(ast.Call(func=ast.Name(id='_L', ctx=ast.Load()), args=[ast.Constant(txt)], keywords=[]), n)
        return n

    def visit_BinOp(self, n):
        self.generic_visit(n)
        if isinstance(n.op, ast.Div):
            return ast.copy_location(ast.Call(func=ast.Name(id='_div', ctx=ast.Load()), args=[n.left, n.right], keywords=[]), n)
        if isinstance(n.op, ast.Pow):
            return ast.copy_location(ast.Call(func=ast.Name(id='_pow', ctx=ast.Load()), args=[n.left, n.right], keywords=[]), n)
        return n

    def visit_AugAssign(self, n):
        self.generic_visit(n)
        if isinstance(n.op, (ast.Div, ast.Pow)):
            import copy
            load = copy.deepcopy(n.target)
            for x in ast.walk(load):
                if hasattr(x, 'ctx'):
                    x.ctx = ast.Load()
            fn = '_div' if isinstance(n.op, ast.Div) else '_pow'
            return ast.copy_location(ast.Assign(targets=[n.target], value=ast.Call(func=ast.Name(id=fn, ctx=ast.Load()), args=[load, n.value], keywords=[])), n)
        return n

    def visit_AnnAssign(self, n):
        self.generic_visit(n)
        if n.value is None:
            return None
        return ast.copy_location(ast.Assign(targets=[n.target], value=n.value), n)


def _strip(fn):
    fn.decorator_list = []
    fn.returns = None
    for a in fn.args.args + fn.args.kwonlyargs + fn.args.posonlyargs:
        a.annotation = None
    if fn.args.vararg:
        fn.args.vararg.annotation = None
    if fn.args.kwarg:
        fn.args.kwarg.annotation = None
    if fn.body and isinstance(fn.body[0], ast.Expr) and isinstance(getattr(fn.body[0], 'value', None), ast.Constant) and isinstance(fn.body[0].value.value, str):
        fn.body = fn.body[1:] or [ast.Pass()]
    for sub in ast.walk(fn):
        if isinstance(sub, (ast.FunctionDef,)) and sub is not fn:
            sub.decorator_list = []
    return fn


def find_def(tree, qual):
    parts = qual.split('.')
    body = tree.body
    node = None
    for p in parts:
        node = None
        for n in body:
            if isinstance(n, (ast.FunctionDef, ast.ClassDef)) and n.name == p:
                node = n
        if node is None:
            raise KeyError('definition %s not found' % qual)
        body = node.body
    return node


def base_ns():
    return {'_L': _L, '_div': _div, '_pow': _pow, 'Fr': Fr}


def repo_path(rel):
    return rel if os.path.isabs(rel) else os.path.join(REPO, rel)


def exec_source(src, names, ns, label, transform=None):
    """compile the definitions `names` (qualified) found in python source text `src` into namespace ns"""
    tree = ast.parse(src)
    out = {}
    for qual in names:
        node = find_def(tree, qual)
        seg = ast.get_source_segment(src, node) or ''
        ENCODED.append({'file': label, 'function': qual, 'sha256_16': hashlib.sha256(seg.encode()).hexdigest()[:16], 'lines': '%d-%d' % (node.lineno, node.end_lineno)})
        if isinstance(node, ast.ClassDef):
            raise NotImplementedError('load methods individually: Class.method')
        node = _strip(node)
        if transform:
            node = transform(node)
        node = _Rewrite(src).visit(node)
        if '.' in qual:
            node.name = qual.replace('.', '__')      # methods must not shadow module-level functions of the same name
        mod = ast.Module(body=[node], type_ignores=[])
        ast.fix_missing_locations(mod)
        exec(compile(mod, label + ':' + qual, 'exec'), ns)
        out[qual] = ns[node.name]
    return out


def load_py(rel, names, ns=None, transform=None):
    path = repo_path(rel)
    src = open(path).read()
    full = base_ns()
    if ns:
        full.update(ns)
    if isinstance(names, str):
        names = [names]
    fns = exec_source(src, names, full, os.path.relpath(path, REPO), transform)
    return fns, full


def module_constants(rel, wanted=None):
    """evaluate simple module-level constant assignments (NAME = literal expression) exactly; returns dict"""
    src = open(repo_path(rel)).read()
    tree = ast.parse(src)
    ns = base_ns()
    out = {}
    for n in tree.body:
        if isinstance(n, ast.Assign) and len(n.targets) == 1 and isinstance(n.targets[0], ast.Name):
            nm = n.targets[0].id
            if wanted and nm not in wanted:
                continue
            try:
                e = _Rewrite(src).visit(ast.Expression(body=n.value))
                ast.fix_missing_locations(e)
                out[nm] = eval(compile(e, rel, 'eval'), dict(ns, **out))
            except Exception:
                pass
    return out


def pyx_module_constants(rel, base=None, float_mode=False):
    """module-level `NAME = <expr>` / `cdef <type> NAME = <expr>` constants of a .pyx file, evaluated in order from the CURRENT source (exact rationals of the source literals, or
    floats in float_mode); `base` supplies names that come from C headers (DBL_MAX ...). Casts `<type>` are dropped."""
    import re as _re
    src = open(repo_path(rel)).read()
    out = dict(base or {})
    in_doc = False
    for ln in src.split('\n'):
        st = ln.strip()
        q = st.count('"""') + st.count("'''")
        if in_doc:
            if q % 2 == 1:
                in_doc = False
            continue
        if q % 2 == 1:
            in_doc = True
            continue
        if not ln or ln[0] in ' \t#':
            continue
        m = _re.match(r'^(?:cdef\s+[\w\s\*]+?\s+)?([A-Za-z_]\w*)\s*=\s*([^=#].*?)\s*(?:#.*)?$', ln)
        if not m or ln.startswith(('def ', 'cdef class', 'class ', 'from ', 'import ', 'cimport ')):
            continue
        name, expr = m.group(1), _re.sub(r'<[\w\s\*]+>', '', m.group(2))
        try:
            tree = ast.parse(expr, mode='eval')
            if float_mode:
                val = eval(compile(tree, rel, 'eval'), {'__builtins__': {}}, dict(out))
            else:
                tree = _Rewrite(expr).visit(tree)
                ast.fix_missing_locations(tree)
                val = eval(compile(tree, rel, 'eval'), dict(base_ns()), dict(out))
            out[name] = val
        except Exception:
            continue
    return out


SPANS = {}


def load_pyx(rel, names, ns=None, transform=None, float_mode=False):
    """transliterate the named functions / Class.method of a .pyx file and compile them (one namespace). Returns ({qual: fn}, ns).
    float_mode: literals stay floats and `/`, `**` are the ordinary operators (used to REPLAY a model on the current source)."""
    from . import pyx2py
    path = repo_path(rel)
    src = open(path).read()
    full = base_ns()
    if float_mode:
        from .replay import float_ns
        full.update(float_ns())
    full.update(pyx2py.RUNTIME)
    if not float_mode:
        from .values import Q as _Q
        full['cf_build_dblcmplx'] = lambda a, b: _Q.of(a) + _Q(0, 1) * _Q.of(b)
    if ns:
        full.update(ns)
    if isinstance(names, str):
        names = [names]
    out = {}
    for qual in names:
        newname = qual.replace('.', '__')
        code, span = pyx2py.translit_function(src, qual, newname)
        seg = '\n'.join(src.split('\n')[span[0] - 1:span[1]])
        SPANS[(os.path.relpath(path, REPO), qual)] = span
        if not float_mode:
            ENCODED.append({'file': os.path.relpath(path, REPO), 'function': qual, 'sha256_16': hashlib.sha256(seg.encode()).hexdigest()[:16], 'lines': '%d-%d' % span,
                            'via': 'pyx2py transliteration'})
        try:
            tree = ast.parse(code)
        except SyntaxError as e:
            raise SyntaxError('transliteration of %s:%s does not parse: %s\n%s' % (rel, qual, e, code)) from None
        node = _strip(tree.body[0])
        if transform:
            node = transform(node)
        node = _Rewrite(code).visit(node)
        # every `while` loop of the source gets an iteration budget (a loop whose concrete counter never advances must end the run, as a fault of the source, instead of hanging the check)
        for w_ in [n_ for n_ in ast.walk(node) if isinstance(n_, ast.While)]:
            site_ = '%s:%s line %d' % (os.path.relpath(path, REPO), qual, span[0] + getattr(w_, 'lineno', 1) - 1)
            w_.body.insert(0, ast.Expr(value=ast.Call(func=ast.Name(id='_loop_tick', ctx=ast.Load()), args=[ast.Constant(value=site_)], keywords=[])))
        mod = ast.Module(body=[node], type_ignores=[])
        ast.fix_missing_locations(mod)
        exec(compile(mod, '%s:%s' % (os.path.relpath(path, REPO), qual), 'exec'), full)
        out[qual] = full[newname]
        full[qual.split('.')[-1]] = full[newname] if '.' not in qual else full.get(qual.split('.')[-1], full[newname])
    return out, full


def pyx_function_names(rel):
    import re as _re
    src = open(repo_path(rel)).read()
    out = []
    cls = None
    for ln in src.split('\n'):
        m = _re.match(r'^(?:cdef\s+)?class\s+(\w+)', ln)
        if m:
            cls = m.group(1)
            continue
        if ln and not ln[0].isspace() and not ln.startswith('#') and not _re.match(r'^(cdef|cpdef|def)\s', ln):
            if not ln.startswith(('@', ')')):
                cls = None if not ln.startswith(' ') and _re.match(r'^\w', ln) else cls
        m = _re.match(r'^(\s*)(?:cdef|cpdef|def)\s+(?:[^()=:]*?[\s\*])?(\w+)\s*\(', ln)
        if m and not ln.lstrip().startswith('#'):
            if m.group(1) == '':
                cls = None
                out.append(m.group(2))
            elif cls:
                out.append(cls + '.' + m.group(2))
    return out
