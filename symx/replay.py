"""symx.replay — run the real code (in /venv/bin/python) on a concrete model; helpers to turn models into floats."""
import subprocess, json, os, tempfile
from fractions import Fraction as Fr
from .solve import VERIF, REPO

VENV_PY = os.environ.get('VERIF_VENV_PY', '/venv/bin/python')


def f(x):
    return float(x)


def enc(x):
    if isinstance(x, complex):
        return {'c': [x.real, x.imag]}
    if isinstance(x, Fr):
        return float(x)
    if isinstance(x, (list, tuple)):
        return [enc(v) for v in x]
    if isinstance(x, dict):
        return {k: enc(v) for k, v in x.items()}
    return x


def arr(vals, dtype='float64', shape=None):
    d = {'a': [enc(v) for v in vals], 'dtype': dtype}
    if shape:
        d['shape'] = list(shape)
    return d


def dec(x):
    if isinstance(x, dict):
        if 'c' in x and len(x) == 1:
            return complex(x['c'][0], x['c'][1])
        if 'a' in x:
            return [dec(v) for v in x['a']]
        return {k: dec(v) for k, v in x.items()}
    if isinstance(x, list):
        return [dec(v) for v in x]
    return x


def call_real(calls, timeout=600):
    """calls: list of dicts(module, func, args, kwargs). Returns list of {'ok','value'|'error'}"""
    with tempfile.TemporaryDirectory(prefix='verif_replay_') as td:
        env = dict(os.environ)
        env['PYTHONPATH'] = REPO
        env.pop('VERIF_TIER', None)
        p = subprocess.run([VENV_PY, os.path.join(VERIF, 'replay', 'run_real.py')], input=json.dumps({'calls': [enc(c) for c in calls]}),
                           capture_output=True, text=True, cwd=td, env=env, timeout=timeout)
    if '@@RESULT@@' not in p.stdout:
        raise RuntimeError('replay runner failed: rc=%s\n%s\n%s' % (p.returncode, p.stdout[-2000:], p.stderr[-2000:]))
    out = json.loads(p.stdout.split('@@RESULT@@')[-1])
    for o in out:
        if o.get('ok'):
            o['value'] = dec(o['value'])
    return out


def call1(module, func, *args, **kwargs):
    r = call_real([{'module': module, 'func': func, 'args': list(args), 'kwargs': kwargs}])[0]
    return r
