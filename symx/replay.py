"""symx.replay — run the real code (in /venv/bin/python) on a concrete model; helpers to turn models into floats."""
import subprocess, json, os, tempfile
from fractions import Fraction as Fr
from .solve import VERIF, REPO

VENV_PY = os.environ.get('VERIF_VENV_PY', '/venv/bin/python')


def f(x):
    return float(x)


def enc(x):
    if isinstance(x, complex):
        return {'c': [x.real, x.imag]}
    if isinstance(x, Fr):
        return float(x)
    if isinstance(x, (list, tuple)):
        return [enc(v) for v in x]
    if isinstance(x, dict):
        return {k: enc(v) for k, v in x.items()}
    return x


def arr(vals, dtype='float64', shape=None):
    d = {'a': [enc(v) for v in vals], 'dtype': dtype}
    if shape:
        d['shape'] = list(shape)
    return d


def dec(x):
    if isinstance(x, dict):
        if 'c' in x and len(x) == 1:
            return complex(x['c'][0], x['c'][1])
        if 'a' in x:
            return [dec(v) for v in x['a']]
        return {k: dec(v) for k, v in x.items()}
    if isinstance(x, list):
        return [dec(v) for v in x]
    return x


def call_real(calls, timeout=600):
    """calls: list of dicts(module, func, args, kwargs). Returns list of {'ok','value'|'error'}"""
    with tempfile.TemporaryDirectory(prefix='verif_replay_') as td:
        env = dict(os.environ)
        env['PYTHONPATH'] = REPO
        env.pop('VERIF_TIER', None)
        p = subprocess.run([VENV_PY, os.path.join(VERIF, 'replay', 'run_real.py')], input=json.dumps({'calls': [enc(c) for c in calls]}),
                           capture_output=True, text=True, cwd=td, env=env, timeout=timeout)
    if '@@RESULT@@' not in p.stdout:
        raise RuntimeError('replay runner failed: rc=%s\n%s\n%s' % (p.returncode, p.stdout[-2000:], p.stderr[-2000:]))
    out = json.loads(p.stdout.split('@@RESULT@@')[-1])
    for o in out:
        if o.get('ok'):
            o['value'] = dec(o['value'])
    return out


def call1(module, func, *args, **kwargs):
    r = call_real([{'module': module, 'func': func, 'args': list(args), 'kwargs': kwargs}])[0]
    return r


_LOOKUP_CACHE = {}


def real_lookup(module, name):
    """the REAL module-level lookup object (dict of functions ...) described by run_real.py: functions become 'fn:<module>.<name>'"""
    key = (module, name)
    if key not in _LOOKUP_CACHE:
        _LOOKUP_CACHE[key] = call_real([{'module': module, 'func': name, 'get_attr': True}])[0]
    return _LOOKUP_CACHE[key]


def lookup_replay(module, name, expect, note=''):
    """expect(md) -> list of (path keys..., expected suffix or None for 'must exist'); reproduces iff the real object disagrees with any of them"""
    def rp(md):
        r = real_lookup(module, name)
        if not r['ok']:
            return True, 'real %s.%s not importable: %s' % (module, name, r.get('error'))
        bad = []
        for item in expect(md):
            *path, want = item
            cur = r['value']
            try:
                for k in path:
                    cur = cur[str(k)]
            except (KeyError, TypeError):
                bad.append((path, 'missing'))
                continue
            if want is not None and not str(cur).endswith(want):
                bad.append((path, cur))
        return bool(bad), '%sreal %s.%s: %r' % (note + ': ' if note else '', module, name, bad[:4])
    return rp


def fn_replay(module, func, argspec, violated, note=''):
    """replay on the real (interpreted / numba) function: argspec is a list of model keys (str), (key, default) pairs, constants or callables md -> value;
    `violated(real_value, args)` returns True iff the claim is violated by the real value. A raising real call counts as reproduced."""
    def rp(md):
        args = []
        for a in argspec:
            if callable(a):
                args.append(a(md))
            elif isinstance(a, tuple) and len(a) == 2 and isinstance(a[0], str):
                v = md.get(a[0])
                args.append(float(v) if v is not None else a[1])
            elif isinstance(a, str):
                v = md.get(a)
                args.append(float(v) if v is not None else 1.0)
            else:
                args.append(a)
        r = call1(module, func, *args)
        if not r['ok']:
            return True, 'real %s.%s%r raised %s' % (module, func, tuple(args), r.get('error'))
        return bool(violated(r['value'], args)), '%sreal %s%r = %r' % (note + ': ' if note else '', func, tuple(args), r['value'])
    return rp


# ---- pyx: replay on the transliterated CURRENT source with plain floats; compiled module only when it is in sync with the source
import re as _re
import math as _math
import cmath as _cmath
_SYNC_CACHE = {}


def compiled_in_sync(rel_pyx, span):
    """every executable line of the slice [span] appears, at its line number, in the source comments Cython embedded in the generated .c,
    and the .so is not older than the .c"""
    key = (rel_pyx, span)
    if key in _SYNC_CACHE:
        return _SYNC_CACHE[key]
    pyx = os.path.join(REPO, rel_pyx)
    cfile = pyx[:-4] + '.c'
    ok = True
    why = ''
    if not os.path.exists(cfile):
        ok, why = False, 'no generated .c'
    else:
        import glob
        sos = glob.glob(pyx[:-4] + '.*.so')
        if not sos or os.path.getmtime(sos[0]) + 1 < os.path.getmtime(cfile):
            ok, why = False, '.so missing or older than .c'
    if ok:
        ctext = open(cfile, errors='replace').read()
        marks = {}
        for m in _re.finditer(r'/\* "%s":(\d+)\n((?: \*.*\n)+?) ?\*/' % _re.escape(rel_pyx), ctext):
            ln = int(m.group(1))
            for l2 in m.group(2).split('\n'):
                if l2.rstrip().endswith('# <<<<<<<<<<<<<<'):
                    marks[ln] = l2[3:].rsplit('# <<<<<<<<<<<<<<', 1)[0].rstrip()
        src = open(pyx).read().split('\n')
        seen = 0
        for ln in range(span[0], span[1] + 1):
            if ln in marks:
                seen += 1
                if marks[ln].strip() != src[ln - 1].strip():
                    ok, why = False, 'line %d differs: .c has %r, .pyx has %r' % (ln, marks[ln].strip(), src[ln - 1].strip())
                    break
        if ok and seen == 0:
            ok, why = False, 'no embedded source lines for this slice'
    _SYNC_CACHE[key] = (ok, why)
    return ok, why


def _ldexp_c(m, e):
    """C ldexp: overflow gives +-inf instead of raising"""
    try:
        return _math.ldexp(m, int(e))
    except OverflowError:
        return _math.copysign(float('inf'), m)


def _frexp_ref(v, ref):
    """C frexp(v, &e): mantissa returned, exponent stored through the pointer (a Ref cell in the transliteration)"""
    m, e = _math.frexp(v)
    ref.v = e
    return m


def float_ns():
    """namespace for executing transliterated .pyx source with ordinary python float/complex"""
    def _pow(a, b):
        return a ** b

    def _div(a, b):
        return a / b
    return {'_L': lambda t: float(t.replace('_', '')), '_div': _div, '_pow': _pow, 'fabs': abs, 'isinf': _math.isinf, 'isnan': _math.isnan, 'INFINITY': float('inf'),
            'NAN': float('nan'), 'pi': _math.pi, 'M_PI': _math.pi, 'cf_build_dblcmplx': complex, 'tgamma': _math.gamma, 'cos': _math.cos, 'sin': _math.sin, 'sqrt': _math.sqrt,
            'exp': _math.exp, 'log': _math.log, 'atan2': _math.atan2, 'hypot': _math.hypot, 'pow': pow, 'copysign': _math.copysign, 'floor': _math.floor,
            'cabs': abs, 'csqrt': _cmath.sqrt, 'cexp': _cmath.exp, 'fmax': max, 'fmin': min, 'signbit': lambda v: _math.copysign(1.0, v) < 0, 'isfinite': _math.isfinite,
            'ceil': _math.ceil, 'cbrt': lambda v: _math.copysign(abs(v) ** (1.0 / 3.0), v), 'frexp': _frexp_ref, 'ldexp': _ldexp_c, 'log1p': _math.log1p, 'expm1': _math.expm1,
            'tan': _math.tan, 'fmod': _math.fmod}


def pyx_float_call(rel_pyx, qual, args, extra_ns=None):
    """call `qual` of the CURRENT .pyx source, transliterated and executed with ordinary python floats (every function of the file is loaded so that internal calls resolve)"""
    from . import loader
    names = [n for n in loader.pyx_function_names(rel_pyx) if n.split('.')[-1] not in float_ns()]      # e.g. cf_build_dblcmplx stays the python `complex` constructor
    ns = dict(loader.pyx_module_constants(rel_pyx, {'DBL_MAX': 1.7976931348623157e308, 'DBL_MIN': 2.2250738585072014e-308, 'DBL_MANT_DIG': 53, 'G': 6.6743e-11}, float_mode=True))
    ns.update(extra_ns or {})
    fns = {}
    for n in names:
        try:
            f, full = loader.load_pyx(rel_pyx, [n], ns, float_mode=True)
            fns.update(f)
            ns.update({k: v for k, v in full.items() if callable(v) and k.split('__')[-1] == n.split('.')[-1]})
            ns[n.split('.')[-1]] = f[n]
        except Exception:
            continue
    # second pass so that earlier functions see later ones
    for n in list(fns):
        try:
            f, full = loader.load_pyx(rel_pyx, [n], ns, float_mode=True)
            fns[n] = f[n]
            ns[n.split('.')[-1]] = f[n]
        except Exception:
            pass
    return fns[qual](*args)


_FILE_SYNC = {}


def pyx_files_in_sync(rels):
    """(ok, why): every function of every listed .pyx file matches the source lines embedded in its generated C (and the .so is not older than the .c)"""
    from . import loader, pyx2py
    for rel in rels:
        if rel not in _FILE_SYNC:
            ok, why = True, ''
            try:
                src = open(loader.repo_path(rel)).read()
                for n in loader.pyx_function_names(rel):
                    try:
                        sp = pyx2py.translit_function(src, n)[1]
                    except Exception:
                        continue
                    o2, w2 = compiled_in_sync(rel, sp)
                    if not o2:
                        ok, why = False, '%s %s: %s' % (rel, n, w2)
                        break
            except Exception as e:
                ok, why = False, '%s: %r' % (rel, e)
            _FILE_SYNC[rel] = (ok, why)
        if not _FILE_SYNC[rel][0]:
            return _FILE_SYNC[rel]
    return True, ''


def api_or_witness(rels, api_replay, witness):
    """replay callback: the public-API replay `api_replay(md)` when the compiled modules of `rels` are in sync with their sources; otherwise the source-level witness
    (the compiled code does not contain the edit, so it cannot be the replay target; nothing in the sandbox can regenerate it)"""
    def rp(md):
        ok, why = pyx_files_in_sync(rels)
        if ok:
            return api_replay(md)
        return True, '%s [compiled module STALE (%s): witnessed on the transliterated current source only]' % (witness, why)
    return rp


def pyx_value(rel_pyx, qual, args, compiled, extra_ns=None):
    """(value, note): the compiled function `compiled` = (module, func) when the module is in sync with the current .pyx (source lines embedded in the generated C), otherwise the
    transliterated current source in float mode. This keeps the replay meaningful when a .pyx was edited and the extension could not be rebuilt (no Cython in the sandbox)."""
    from . import loader
    import os as _os
    src = open(loader.repo_path(rel_pyx)).read()
    from . import pyx2py
    try:
        span = pyx2py.translit_function(src, qual)[1]
        ok, why = compiled_in_sync(rel_pyx, span)
    except Exception as e:
        ok, why = False, 'span of %s not found (%r)' % (qual, e)
    if ok:
        # every function of the file that `qual` may call must be in sync as well: compare the whole file
        try:
            for n in loader.pyx_function_names(rel_pyx):
                sp = pyx2py.translit_function(src, n)[1]
                o2, w2 = compiled_in_sync(rel_pyx, sp)
                if not o2:
                    ok, why = False, '%s: %s' % (n, w2)
                    break
        except Exception:
            pass
    if ok:
        r = call1(compiled[0], compiled[1], *args)
        if not r['ok']:
            raise RuntimeError('compiled %s.%s%r raised %s' % (compiled[0], compiled[1], tuple(args), r.get('error')))
        return r['value'], 'compiled module (in sync with the source)'
    return pyx_float_call(rel_pyx, qual, args, extra_ns), 'compiled module STALE (%s): transliterated current source in float mode' % why
