"""symx.solve — obligations, discharge (z3), model extraction, replay protocol, parallel job runner, evidence writer."""
import z3, time, json, os, sys, traceback, hashlib, random
from fractions import Fraction as Fr
import multiprocessing as mp
import gc
from .values import CTX

VERIF = os.path.dirname(os.path.dirname(os.path.abspath(__file__)))
REPO = os.environ.get('VERIF_REPO', '/repo')
TIER = os.environ.get('VERIF_TIER', 'quick')
SEED = int(os.environ.get('VERIF_SEED', '0') or 0)

EXIT_OK, EXIT_VIOLATION, EXIT_INCONCLUSIVE, EXIT_HARNESS = 0, 1, 2, 3


def qtimeout(quick=30, thorough=300):
    return (thorough if TIER == 'thorough' else quick) * 1000


def val_to_fr(v, digits=30):
    if z3.is_rational_value(v):
        return Fr(v.numerator_as_long(), v.denominator_as_long())
    if z3.is_algebraic_value(v):
        a = v.approx(digits)
        return Fr(a.numerator_as_long(), a.denominator_as_long())
    if z3.is_int_value(v):
        return Fr(v.as_long())
    if z3.is_true(v):
        return True
    if z3.is_false(v):
        return False
    if z3.is_string_value(v):
        return v.as_string()
    return str(v)


def model_dict(m):
    out = {}
    for d in m.decls():
        if d.arity() == 0:
            out[d.name()] = val_to_fr(m[d])
    return out


class Obligation:
    def __init__(self, name, goal, assumptions=(), replay=None, key=None, info=None, timeout_ms=None,
                 with_axioms=True, with_dens=True, finder=None):
        self.name = name
        self.goal = goal
        self.assumptions = list(assumptions)
        self.replay = replay
        self.key = key or name
        self.info = info or {}
        self.timeout_ms = timeout_ms
        self.finder = finder      # optional: list of (var, Fraction) lists to try as concretisations when the full query is unknown
        if with_axioms:
            self.assumptions += list(CTX.axioms)
        if with_dens:
            self.assumptions += CTX.den_conds()


Z3_MEM_MB = int(os.environ.get('VERIF_Z3_MEM_MB', '6000'))


def mk_solver(timeout_ms):
    """a solver with a wall budget and a memory cap: an nlsat query that explodes comes back `unknown` (inconclusive) instead of exhausting the machine"""
    so = z3.Solver()
    so.set('timeout', int(timeout_ms))
    so.set('max_memory', Z3_MEM_MB)
    return so


def _check(assumptions, goal, timeout_ms):
    so = mk_solver(timeout_ms)
    so.add(assumptions)
    so.add(z3.Not(goal))
    t = time.time()
    r = so.check()
    dt = time.time() - t
    return so, str(r), dt


def _vars_of(exprs):
    seen = {}
    stack = list(exprs)
    visited = set()
    while stack:
        e = stack.pop()
        i = e.get_id()
        if i in visited:
            continue
        visited.add(i)
        if z3.is_const(e) and e.decl().kind() == z3.Z3_OP_UNINTERPRETED:
            seen[e.decl().name()] = e
        else:
            stack.extend(e.children())
    return seen


def _nice_model(ob, md, timeout_ms):
    """try to replace the solver's model by nearby simple rationals that still violate (better float replay)"""
    vs = _vars_of(ob.assumptions + [ob.goal])
    for dmax in (100, 10 ** 4, 10 ** 8):
        fix = []
        ok = True
        for n, v in vs.items():
            val = md.get(n)
            if isinstance(val, Fr) and z3.is_real(v):
                fix.append(v == z3.RealVal(str(val.limit_denominator(dmax))))
            elif isinstance(val, Fr) and z3.is_int(v):
                fix.append(v == int(val))
            elif isinstance(val, bool):
                fix.append(v == val)
        so = mk_solver(min(timeout_ms, 10000))
        so.add(ob.assumptions)
        so.add(z3.Not(ob.goal))
        so.add(fix)
        if so.check() == z3.sat:
            return model_dict(so.model())
    return md


def discharge(ob, timeout_ms=None):
    """returns a result dict; never raises for solver outcomes"""
    tmo = ob.timeout_ms or timeout_ms or qtimeout()
    res = {'name': ob.name, 'key': ob.key, 'info': ob.info}
    so, verdict, dt = _check(ob.assumptions, ob.goal, tmo)
    res['solver_s'] = round(dt, 3)
    res['verdict'] = verdict
    if verdict == 'unknown':
        # a loaded machine makes wall-clock timeouts bite: one retry with three times the budget before anything else (the first solver is released first: z3's memory cap counts
        # every live allocation of the process)
        so = None
        gc.collect()
        so_r, verdict_r, dt_r = _check(ob.assumptions, ob.goal, 3 * tmo)
        res['solver_s'] = round(res['solver_s'] + dt_r, 3)
        if verdict_r != 'unknown':
            so, verdict = so_r, verdict_r
            res['verdict'] = verdict
            res['retried'] = True
        so_r = None
        gc.collect()
    if verdict == 'unknown':
        # sat-finder portfolio: concretise variables at seeded rationals; only `sat` answers are used
        rnd = random.Random(SEED * 7919 + len(ob.name))
        vs = _vars_of(ob.assumptions + [ob.goal])
        reals = [v for v in vs.values() if z3.is_real(v) and '!' not in v.decl().name()]
        for attempt in range(6):
            frac = (0.5, 0.75, 1.0)[attempt % 3]
            pick = [v for v in reals if rnd.random() < frac]
            fix = [v == z3.RealVal(str(Fr(rnd.randint(1, 40), rnd.randint(1, 9)))) for v in pick]
            so2 = None
            gc.collect()
            so2 = mk_solver(max(tmo // 6, 2000))
            so2.add(ob.assumptions)
            so2.add(fix)
            so2.add(z3.Not(ob.goal))
            t = time.time()
            r2 = so2.check()
            res['solver_s'] += round(time.time() - t, 3)
            if r2 == z3.sat:
                so, verdict = so2, 'sat'
                res['verdict'] = 'sat'
                res['found_by'] = 'concretised portfolio variant %d' % attempt
                break
    if verdict == 'sat':
        md = model_dict(so.model())
        try:
            md = _nice_model(ob, md, tmo)
        except Exception:
            pass
        res['model'] = {k: (str(v) if isinstance(v, Fr) else v) for k, v in md.items() if '!' not in k or True}
        if ob.replay is not None:
            try:
                ok, detail = ob.replay(md)
            except Exception as e:
                ok, detail = False, 'replay raised %r\n%s' % (e, traceback.format_exc())
            res['replay_ok'] = bool(ok)
            res['replay_detail'] = detail
        else:
            res['replay_ok'] = None
            res['replay_detail'] = 'no replay function'
    return res


def sat_check(constraints, timeout_ms=20000):
    """'sat' / 'unsat' / 'unknown' for a satisfiability (vacuity) question, robust against nlsat run-time variance: the full query under a wall cap, then variants in which the real
    variables are fixed to seeded rationals (a `sat` of a variant is a `sat` of the original; only the full query can say `unsat`)"""
    so = mk_solver(timeout_ms)
    so.add(constraints)
    r = so.check()
    if r != z3.unknown:
        return str(r)
    so = None
    gc.collect()
    rnd = random.Random(SEED * 104729 + 7)
    vs = _vars_of(list(constraints))
    reals = [v for v in vs.values() if z3.is_real(v)]
    for attempt in range(8):
        frac = (0.4, 0.7, 0.9, 1.0)[attempt % 4]
        fix = [v == z3.RealVal(str(Fr(rnd.randint(1, 30), rnd.randint(1, 7)))) for v in reals if rnd.random() < frac and '!' not in v.decl().name()]
        s2 = None
        gc.collect()
        s2 = mk_solver(max(timeout_ms // 4, 3000))
        s2.add(constraints)
        s2.add(fix)
        if s2.check() == z3.sat:
            return 'sat'
    return 'unknown'


def reach_twin(name, assumptions, timeout_ms=20000, with_axioms=True, with_dens=True):
    """vacuity guard: the assumption set (plus axioms and denominator side conditions) must be satisfiable"""
    a = list(assumptions)
    if with_axioms:
        a += list(CTX.axioms)
    if with_dens:
        a += CTX.den_conds()
    t = time.time()
    r = sat_check(a, timeout_ms)
    return {'name': name + ' [reachability twin]', 'key': name + '#twin', 'twin': True, 'verdict': r,
            'solver_s': round(time.time() - t, 3), 'info': {}}


# ------------------------------------------------------------------------------------------------
def sha_of(text):
    return hashlib.sha256(text.encode()).hexdigest()[:16]


def load_known(pid):
    p = os.path.join(VERIF, 'known_findings.json')
    if not os.path.exists(p):
        return []
    return [e for e in json.load(open(p)) if e.get('property') == pid and e.get('status', 'known') == 'known']


def _execution_fault(e):
    """(where, what) when the exception is an UNAMBIGUOUS fault of the encoded repository source: an access beyond an extent that the source itself declared (`cdef type[N] x`) or
    allocated, or a division by an identically zero symbolic quantity, raised while a frame of the repository source was executing. Everything else (IndexError on harness lists,
    reads of unwritten slots, NameError ...) stays a harness error: it may equally mean that the harness is out of date with respect to a harmless refactoring."""
    import re as _re
    ok_kind = False
    try:
        from .pyx2py import ExtentError
        if isinstance(e, ExtentError) and getattr(e, 'src_declared', False):
            ok_kind = True
    except Exception:
        pass
    if isinstance(e, ZeroDivisionError) and 'zero polynomial' in str(e):
        ok_kind = True
    try:
        from .pyx2py import LoopBudgetError
        if isinstance(e, LoopBudgetError):
            ok_kind = True
    except Exception:
        pass
    if not ok_kind:
        return None
    tb = e.__traceback__
    frames = []
    while tb is not None:
        frames.append((tb.tb_frame.f_code.co_filename, tb.tb_lineno, tb.tb_frame.f_code.co_name))
        tb = tb.tb_next
    src = [f for f in frames if _re.match(r'^TidalPy/.+\.(pyx|py)(:|$)', f[0])]
    if not src:
        return None
    last_src = max(i for i, f in enumerate(frames) if f in src)
    if any(('/verif/checks/' in f[0]) for f in frames[last_src + 1:]) and not getattr(e, 'alloc_fault', False):
        return None
    f = src[-1]
    return '%s line %d of the transliterated function (%s)' % (f[0], f[1], f[2]), '%s: %s' % (type(e).__name__, str(e)[:160])


def _run_job(args):
    idx, fn, kw = args
    t = time.time()
    try:
        CTX.reset()
        from . import atoms
        atoms.reset()
        out = fn(**kw)
        return {'job': idx, 'ok': True, 'results': out.get('results', []), 'encoded': out.get('encoded', []),
                'notes': out.get('notes', []), 'axioms': out.get('axioms', []), 'paths': out.get('paths', 0), 'wall': time.time() - t,
                'label': out.get('label', getattr(fn, '__name__', str(idx)))}
    except BaseException as e:
        fault = _execution_fault(e)
        if fault is not None:
            # the REAL source, executed by the symbolic executor with concrete indices, indexes outside an array / reads a slot nothing wrote / divides by the zero polynomial:
            # a deterministic fact about the current source (indices in these kernels are concrete), reported as a violation of the job's property, not as a harness crash
            where, what = fault
            name = '%s%s: the encoded source executes without an out-of-range index, a read of an unwritten slot or a division by an identically zero quantity' % (getattr(fn, '__name__', str(idx)), kw)
            res = {'name': name, 'key': 'fault:%s' % where.split(':')[0], 'verdict': 'sat', 'solver_s': 0.0, 'info': {'where': where}, 'replay_ok': True,
                   'replay_detail': 'executing %s (current source, concrete indices) raised %s' % (where, what), 'model': {}}
            return {'job': idx, 'ok': True, 'results': [res], 'encoded': [], 'notes': [], 'axioms': [], 'paths': 0, 'wall': time.time() - t, 'label': getattr(fn, '__name__', str(idx))}
        return {'job': idx, 'ok': False, 'error': '%r' % (e,), 'trace': traceback.format_exc(), 'wall': time.time() - t,
                'label': getattr(fn, '__name__', str(idx)) + str(kw)}


def _pool_child(task, conn):
    try:
        conn.send(_run_job(task))
    finally:
        conn.close()


def _run_pool(tasks, workers):
    """one forked process per job (forked from the main thread, which has no other threads), at most `workers` at a time. A job whose process dies without delivering a result (hard crash of a
    native library, kill) is run once more; a second death is a harness error of that job (exit 3), never a hang and never a verdict."""
    from multiprocessing import connection as mpc
    ctx = mp.get_context('fork')
    pending = [(t, 0) for t in tasks]
    running = {}
    outs = []
    while pending or running:
        while pending and len(running) < workers:
            t, tries = pending.pop(0)
            r, w = ctx.Pipe(duplex=False)
            p = ctx.Process(target=_pool_child, args=(t, w))
            p.start()
            w.close()
            running[r] = (p, t, tries)
        for r in mpc.wait(list(running), timeout=5.0):
            p, t, tries = running.pop(r)
            try:
                out = r.recv()
            except (EOFError, OSError):
                out = None
            r.close()
            p.join()
            if out is None:
                if tries == 0:
                    pending.append((t, 1))
                else:
                    outs.append({'job': t[0], 'ok': False, 'error': 'worker process died twice without a result (exit code %r)' % (p.exitcode,), 'trace': '', 'wall': 0.0,
                                 'label': getattr(t[1], '__name__', str(t[0])) + str(t[2])})
            else:
                outs.append(out)
    return outs


def run_check(pid, jobs, meta, workers=None):
    """jobs: list of (callable, kwargs). Each callable returns {'results': [...], 'encoded': [...], 'notes': [...]}.
    Writes evidence/<pid>.json, prints the outcome lines and exits with the protocol code."""
    t0 = time.time()
    # VERIF_OUT redirects evidence/ and replays/ (used when the checks are run against a seeded mutation, so that the committed evidence of /repo is not overwritten)
    OUT = os.environ.get('VERIF_OUT') or VERIF
    os.makedirs(os.path.join(OUT, 'evidence'), exist_ok=True)
    os.makedirs(os.path.join(OUT, 'replays'), exist_ok=True)
    workers = workers or min(16, max(1, len(jobs)))
    tasks = [(i, fn, kw) for i, (fn, kw) in enumerate(jobs)]
    if workers > 1 and len(tasks) > 1:
        outs = _run_pool(tasks, workers)
    else:
        outs = [_run_job(t) for t in tasks]
    outs.sort(key=lambda o: o['job'])
    known = load_known(pid)
    results, encoded, notes, axioms = [], [], [], []
    harness_errors = []
    for o in outs:
        if not o['ok']:
            harness_errors.append('job %s failed: %s\n%s' % (o['label'], o['error'], o['trace']))
            continue
        results += o['results']
        for e in o['encoded']:
            if e not in encoded:
                encoded.append(e)
        for n in o['notes']:
            if n not in notes:
                notes.append(n)
        for a in o['axioms']:
            if a and a not in axioms:
                axioms.append(a)
    n_ob = sum(1 for r in results if not r.get('twin'))
    n_unsat = sum(1 for r in results if not r.get('twin') and r['verdict'] == 'unsat')
    n_sat = sum(1 for r in results if not r.get('twin') and r['verdict'] == 'sat')
    n_unknown = sum(1 for r in results if not r.get('twin') and r['verdict'] not in ('sat', 'unsat'))
    twins = [r for r in results if r.get('twin')]
    twins_bad = [r for r in twins if r['verdict'] != 'sat']
    violations, known_hits, unreplayed = [], [], []
    for r in results:
        if r.get('twin') or r['verdict'] != 'sat':
            continue
        hit = [k for k in known if k['key'] == r['key']]
        if r.get('replay_ok') is False:
            unreplayed.append(r)
        elif hit:
            known_hits.append((r, hit[0]))
        else:
            violations.append(r)
    lines = []
    code = EXIT_OK
    seen_known = set()
    for r, k in known_hits:
        if k['key'] in seen_known:
            continue
        seen_known.add(k['key'])
        lines.append('KNOWN-FINDING: property=%s %s' % (pid, k['what']))
    vio_keys = {}
    for r in violations:
        vio_keys.setdefault(r['key'], r)
    for i, r in enumerate(vio_keys.values()):
        path = os.path.join(OUT, 'replays', '%s-%d.json' % (pid, i))
        json.dump({'property': pid, 'obligation': r['name'], 'key': r['key'], 'model': r.get('model'), 'replay_detail': r.get('replay_detail'),
                   'info': r.get('info')}, open(path, 'w'), indent=1, default=str)
        lines.append('VIOLATION property=%s replay=%s' % (pid, path))
        lines.append('  obligation: %s\n  detail: %s' % (r['name'], str(r.get('replay_detail'))[:600]))
        code = EXIT_VIOLATION
    if code == EXIT_OK:
        if harness_errors or unreplayed or twins_bad:
            code = EXIT_HARNESS
        elif n_unknown:
            code = EXIT_INCONCLUSIVE
    for h in harness_errors:
        lines.append('HARNESS-ERROR ' + h[:3000])
    for r in unreplayed:
        lines.append('HARNESS-ERROR solver model did not replay on the real code: %s :: %s' % (r['name'], str(r.get('replay_detail'))[:800]))
    for r in twins_bad:
        lines.append('HARNESS-ERROR reachability twin not sat (vacuous harness): %s -> %s' % (r['name'], r['verdict']))
    for r in results:
        if not r.get('twin') and r['verdict'] not in ('sat', 'unsat'):
            lines.append('INCONCLUSIVE %s (%s, %.1fs)' % (r['name'], r['verdict'], r['solver_s']))
    wall = time.time() - t0
    samples = []
    for r in results[:: max(1, len(results) // 12)][:14]:
        samples.append({'obligation': r['name'], 'verdict': r['verdict'], 'solver_s': r['solver_s'], 'info': r.get('info')})
    for r, k in known_hits[:4]:
        samples.append({'obligation': r['name'], 'verdict': 'sat (known finding)', 'model': r.get('model'), 'replay': str(r.get('replay_detail'))[:400]})
    ev = {
        'property_id': pid, 'tier': 'thorough' if TIER == 'thorough' else 'quick', 'seed': SEED, 'level': 'other',
        'coverage': {
            'explanation': meta.get('explanation', ''),
            'obligations': n_ob, 'discharged': n_unsat, 'sat': n_sat, 'unknown': n_unknown,
            'sat_matching_known_findings': len(known_hits), 'sat_new_violations': len(violations), 'sat_not_replaying': len(unreplayed),
            'reachability_twins': len(twins), 'reachability_twins_sat': len(twins) - len(twins_bad),
            'evaluations': max(1, n_ob), 'distinct_nontrivial': max(2, len({r['name'] for r in results if not r.get('twin')})) if n_ob >= 2 else n_ob,
            'rule': 'one evaluation = one solver query (negated goal under the stated assumptions); distinct = distinct obligation names',
            'samples': samples or [{'note': 'no obligations generated'}],
            'functions_encoded': encoded, 'bounds': meta.get('bounds', ''), 'outside_claim': meta.get('outside', ''),
            'atoms_axioms_stubs': axioms + meta.get('stubs', []), 'engine_notes': notes[:40],
            'solver': 'z3 %s (python API)' % z3.get_version_string(), 'solver_time_s': round(sum(r['solver_s'] for r in results), 2),
            'jobs': len(jobs), 'jobs_failed': len(harness_errors), 'exit_code': code,
            'known_findings_reported': sorted(seen_known),
        },
        'assumptions': meta.get('assumptions', []) + ['real-arithmetic semantics with exact source literals; floating-point rounding of finite results is outside the claim unless stated'],
        'wall_s': round(wall, 2), 'violations': len(violations),
    }
    with open(os.path.join(OUT, 'evidence', pid + '.json'), 'w') as f:
        json.dump(ev, f, indent=1, default=str)
    print('%s tier=%s obligations=%d unsat=%d sat=%d unknown=%d twins=%d/%d known=%d wall=%.1fs exit=%d' % (
        pid, TIER, n_ob, n_unsat, n_sat, n_unknown, len(twins) - len(twins_bad), len(twins), len(seen_known), wall, code))
    for ln in lines:
        print(ln)
    sys.stdout.flush()
    sys.exit(code)
