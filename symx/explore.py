"""symx.explore — depth-first path exploration: `if <symbolic>` forks by re-execution with a decision prefix."""
import z3
from .values import CTX


class PathAbort(Exception):
    pass


class Path:
    def __init__(self, decisions, pc, result, exc, extra=None):
        self.decisions = decisions
        self.pc = pc
        self.result = result
        self.exc = exc
        self.extra = extra

    def __repr__(self):
        return 'Path(%s, exc=%r)' % (''.join('T' if d else 'F' for d in self.decisions), self.exc)


class Explorer:
    def __init__(self, assumptions=(), timeout_ms=10000, max_paths=4096, catch=(Exception,)):
        self.assumptions = list(assumptions)
        self.timeout_ms = timeout_ms
        self.max_paths = max_paths
        self.catch = catch
        self.feas_queries = 0
        self.unknown_branches = 0

    def _feasible(self, extra):
        so = z3.Solver()
        so.set('timeout', self.timeout_ms)
        so.add(self.assumptions)
        so.add(CTX.axioms)
        so.add(CTX.pc)
        so.add(extra)
        self.feas_queries += 1
        r = so.check()
        if r == z3.unknown:
            self.unknown_branches += 1
        return r != z3.unsat

    def decide(self, cond):
        if self.pos < len(self.prefix):
            v = self.prefix[self.pos]
        else:
            t_ok = self._feasible(cond)
            f_ok = self._feasible(z3.Not(cond))
            if t_ok and f_ok:
                v = True
                self.pending.append(self.taken + [False])
            elif t_ok:
                v = True
            elif f_ok:
                v = False
            else:
                raise PathAbort('infeasible path')
        self.pos += 1
        self.taken.append(v)
        CTX.pc.append(cond if v else z3.Not(cond))
        return v

    def run(self, fn, setup=None):
        """fn() is re-executed once per path; setup() (optional) re-creates per-path mutable inputs and its value is passed to fn."""
        paths = []
        self.pending = [[]]
        old = CTX.explorer
        CTX.explorer = self
        try:
            while self.pending:
                if len(paths) >= self.max_paths:
                    raise RuntimeError('path budget exceeded')
                self.prefix = self.pending.pop()
                self.pos = 0
                self.taken = []
                CTX.pc = []
                exc = None
                res = None
                try:
                    res = fn(setup()) if setup else fn()
                except PathAbort:
                    continue
                except self.catch as e:      # the executed code raised: that is a path outcome
                    exc = e
                paths.append(Path(list(self.taken), list(CTX.pc), res, exc))
        finally:
            CTX.explorer = old
            CTX.pc = []
        return paths
