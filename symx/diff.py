"""symx.diff — symbolic differentiation of the ENCODING (z3 terms made of + * - numerals ite) and of Q rational functions.
rules: {z3 variable: Q}  = derivative of that variable (atom) with respect to the independent variable. Variables absent from rules are constants."""
import z3
from fractions import Fraction as Fr
from .values import Q, ZERO, ONE, is_c, zadd, zmul, zsub, _prod


def _dterm(t, rules, cache):
    """returns list of (coefficient z3 term/Fraction, rule variable id) partials: d t = sum_v partial_v * rules[v]; here we return dict var_id -> partial"""
    if is_c(t):
        return {}
    tid = t.get_id()
    if tid in cache:
        return cache[tid]
    k = t.decl().kind()
    if z3.is_rational_value(t) or z3.is_int_value(t):
        res = {}
    elif z3.is_const(t) and k == z3.Z3_OP_UNINTERPRETED:
        res = {tid: ONE} if tid in rules else {}
    elif k == z3.Z3_OP_ADD:
        res = {}
        for ch in t.children():
            for v, p in _dterm(ch, rules, cache).items():
                res[v] = zadd(res.get(v, ZERO), p)
    elif k == z3.Z3_OP_SUB:
        chs = t.children()
        res = dict(_dterm(chs[0], rules, cache))
        for ch in chs[1:]:
            for v, p in _dterm(ch, rules, cache).items():
                res[v] = zsub(res.get(v, ZERO), p)
    elif k == z3.Z3_OP_UMINUS:
        res = {v: -p for v, p in _dterm(t.children()[0], rules, cache).items()}
    elif k == z3.Z3_OP_MUL:
        chs = t.children()
        res = {}
        for i, ch in enumerate(chs):
            d = _dterm(ch, rules, cache)
            if not d:
                continue
            rest = ONE
            for j, c2 in enumerate(chs):
                if j != i:
                    rest = zmul(rest, c2)
            for v, p in d.items():
                res[v] = zadd(res.get(v, ZERO), zmul(p, rest))
    elif k == z3.Z3_OP_ITE:
        c, a, b = t.children()
        da, db = _dterm(a, rules, cache), _dterm(b, rules, cache)
        res = {}
        for v in set(da) | set(db):
            pa, pb = da.get(v, ZERO), db.get(v, ZERO)
            res[v] = z3.If(c, pa if not is_c(pa) else z3.RealVal(str(pa)), pb if not is_c(pb) else z3.RealVal(str(pb)))
    elif k == z3.Z3_OP_TO_REAL:
        res = {}
    elif k == z3.Z3_OP_POWER:
        b_, e_ = t.children()
        n = e_.numerator_as_long()
        assert z3.is_rational_value(e_) and e_.denominator_as_long() == 1 and n >= 1
        d = _dterm(b_, rules, cache)
        rest = Fr(n)
        for _ in range(n - 1):
            rest = zmul(rest, b_)
        res = {v: zmul(p, rest) for v, p in d.items()}
    else:
        raise NotImplementedError('diff of %s' % t.decl())
    cache[tid] = res
    return res


def diff(q, rules):
    """d q / d x for Q q; rules maps z3 variables -> Q derivative (dx/dx = Q(1) must be included for the independent variable)."""
    q = Q.of(q)
    rid = {v.get_id(): (v, Q.of(dv)) for v, dv in rules.items()}
    cache = {}

    def dpart(t):
        tot = Q(0)
        for vid, p in _dterm(t, rid, cache).items():
            tot = tot + Q(p) * rid[vid][1]
        return tot
    dn = dpart(q.re) + Q(0, 1) * dpart(q.im) if not q.is_real else dpart(q.re)
    if not q.den:
        return dn
    # q = n / prod f_i^{m_i}:  dq = dn/D - n/D * sum_i m_i f_i'/f_i
    Dinv = Q(ONE, ZERO, dict(q.den))
    res = dn * Dinv
    for key, (f, m) in q.den.items():
        df = dpart(f)
        if df.is_const and df.re == 0 and df.im == 0:
            continue
        res = res - q * df * Q(ONE, ZERO, {key: (f, 1)}) * m
    return res
