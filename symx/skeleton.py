"""symx.skeleton — path-enumerating symbolic executor over the CONTROL SKELETON of a large transliterated function.

Tracked effects: scale / restore calls, allocate / free, raise, return, break/continue, try/finally, assignments of constants to tracked flags.
Blocks without tracked effects are skipped without forking. `if` conditions over tracked names are evaluated (params become z3 Bools, flags are concrete);
every other condition forks with a fresh z3 Bool (opaque). Loops run 0 or 1 times, the decision being shared by all loops over the same iterable text.
Every exit yields (kind, line, path condition, state)."""
import ast, z3, copy


class Exit:
    def __init__(self, kind, line, pc, state, note=''):
        self.kind, self.line, self.pc, self.state, self.note = kind, line, pc, state, note

    def __repr__(self):
        return 'Exit(%s@%s scaled=%s live=%s)' % (self.kind, self.line, self.state.scaled, sorted(self.state.live))


class State:
    def __init__(self):
        self.scaled = z3.BoolVal(False)      # z3 Bool: caller's arrays currently hold scaled values
        self.restores = 0                    # number of restore calls executed on this path after a scale
        self.live = {}                       # allocation site id -> description
        self.holds = {}                      # (name, depth) -> site id
        self.flags = {}                      # local flag name -> True/False
        self.loops = {}                      # iterable text -> 0/1 decision
        self.trace = []

    def clone(self):
        s = State()
        s.scaled, s.restores = self.scaled, self.restores
        s.live, s.holds, s.flags, s.loops = dict(self.live), dict(self.holds), dict(self.flags), dict(self.loops)
        s.trace = list(self.trace)
        return s


class _Flow(Exception):
    pass


class Config:
    def __init__(self, scale_calls=(), restore_calls=(), alloc_calls=('allocate_mem',), free_calls=('PyMem_Free',), param_bools=(), flag_names=(), max_paths=20000):
        self.scale_calls, self.restore_calls, self.alloc_calls, self.free_calls = set(scale_calls), set(restore_calls), set(alloc_calls), set(free_calls)
        self.param_bools = {n: z3.Bool(n) for n in param_bools}
        self.flag_names = set(flag_names)
        self.max_paths = max_paths


def _calls(node):
    return [n for n in ast.walk(node) if isinstance(n, ast.Call)]


def _call_name(c):
    f = c.func
    return f.id if isinstance(f, ast.Name) else (f.attr if isinstance(f, ast.Attribute) else None)


def relevant(node, cfg):
    """does this statement (sub-tree) contain a tracked effect?"""
    for n in ast.walk(node):
        if isinstance(n, (ast.Raise, ast.Return, ast.Try)):
            return True
        if isinstance(n, ast.Call) and _call_name(n) in (cfg.scale_calls | cfg.restore_calls | cfg.alloc_calls | cfg.free_calls):
            return True
        if isinstance(n, ast.Assign):
            for t in n.targets:
                if isinstance(t, ast.Name) and t.id in cfg.flag_names:
                    return True
                if _root(t) is not None and isinstance(n.value, (ast.Name, ast.Subscript, ast.Constant)):
                    pass
    return False


def _root(e):
    d = 0
    while isinstance(e, ast.Subscript):
        e = e.value
        d += 1
    if isinstance(e, ast.Name):
        return (e.id, d)
    return None


class Executor:
    def __init__(self, fn_node, cfg):
        self.fn, self.cfg = fn_node, cfg
        self.exits = []
        self.fresh = 0
        self.paths = 0
        self.ptr_names = set()
        for n in ast.walk(fn_node):
            if isinstance(n, ast.Assign) and isinstance(n.value, ast.Call) and _call_name(n.value) in cfg.alloc_calls:
                r = _root(n.targets[0])
                if r:
                    self.ptr_names.add(r[0])
        # names that may alias allocations (assigned from tracked pointers)
        changed = True
        while changed:
            changed = False
            for n in ast.walk(fn_node):
                if isinstance(n, ast.Assign) and len(n.targets) == 1:
                    r, v = _root(n.targets[0]), _root(n.value) if isinstance(n.value, (ast.Name, ast.Subscript)) else None
                    if r and v and v[0] in self.ptr_names and r[0] not in self.ptr_names:
                        self.ptr_names.add(r[0])
                        changed = True

    # ---- condition evaluation: returns True/False (decided) or z3 Bool (symbolic, tracked) or None (opaque)
    def cond(self, e, st):
        if isinstance(e, ast.UnaryOp) and isinstance(e.op, ast.Not):
            v = self.cond(e.operand, st)
            if v is None:
                return None
            return (not v) if isinstance(v, bool) else z3.Not(v)
        if isinstance(e, ast.Name):
            if e.id in self.cfg.param_bools:
                return self.cfg.param_bools[e.id]
            if e.id in st.flags:
                return st.flags[e.id]
            return None
        if isinstance(e, ast.Compare) and len(e.ops) == 1 and isinstance(e.ops[0], (ast.Is, ast.IsNot)) and isinstance(e.comparators[0], ast.Constant) and e.comparators[0].value is None:
            r = _root(e.left)
            if r and r[0] in self.ptr_names:
                site = st.holds.get(r)
                is_null = site is None or site not in st.live
                return is_null if isinstance(e.ops[0], ast.Is) else (not is_null)
            return None
        if isinstance(e, ast.BoolOp):
            vals = [self.cond(v, st) for v in e.values]
            if any(v is None for v in vals):
                if isinstance(e.op, ast.And) and any(v is False for v in vals):
                    return False
                if isinstance(e.op, ast.Or) and any(v is True for v in vals):
                    return True
                return None
            zs = [z3.BoolVal(v) if isinstance(v, bool) else v for v in vals]
            r = z3.simplify(z3.And(*zs) if isinstance(e.op, ast.And) else z3.Or(*zs))
            return True if z3.is_true(r) else (False if z3.is_false(r) else r)
        return None

    # ---- statement execution: generator-free DFS using continuation lists
    def run(self):
        self._block(self.fn.body, State(), [], lambda st, pc: self.exits.append(Exit('fallthrough', self.fn.end_lineno, pc, st)), None, [])
        return self.exits

    def _exit(self, kind, node, st, pc, finals):
        """an abrupt exit (raise/return) runs the pending finally blocks innermost-first"""
        if finals:
            body, outer = finals[-1]
            # run the finally block, then continue the abrupt exit with the remaining finals
            self._block(body, st, pc, lambda s2, p2: self._exit(kind, node, s2, p2, outer), None, outer)
        else:
            self.exits.append(Exit(kind, node.lineno, pc, st, note=ast.unparse(node)[:120]))

    def _block(self, stmts, st, pc, k, loopk, finals):
        """execute statements sequentially; k(st, pc) continuation after the block; loopk = (break_k, continue_k) or None"""
        if self.paths > self.cfg.max_paths:
            raise RuntimeError('path budget exceeded')
        if not stmts:
            return k(st, pc)
        s, rest = stmts[0], stmts[1:]
        nxt = lambda s2, p2: self._block(rest, s2, p2, k, loopk, finals)
        cfg = self.cfg
        if isinstance(s, ast.Raise):
            self.paths += 1
            return self._exit('raise', s, st, pc, finals)
        if isinstance(s, ast.Return):
            self.paths += 1
            return self._exit('return', s, st, pc, finals)
        if isinstance(s, ast.Break):
            return loopk[0](st, pc) if loopk else nxt(st, pc)
        if isinstance(s, ast.Continue):
            return loopk[1](st, pc) if loopk else nxt(st, pc)
        if isinstance(s, ast.Try):
            outer = finals
            inner = finals + [(s.finalbody, outer)] if s.finalbody else finals
            after_try = lambda s2, p2: self._block(s.finalbody, s2, p2, nxt, loopk, outer)
            # break/continue inside try also pass through finally
            lk = None
            if loopk:
                lk = (lambda s2, p2: self._block(s.finalbody, s2, p2, loopk[0], loopk, outer), lambda s2, p2: self._block(s.finalbody, s2, p2, loopk[1], loopk, outer))
            return self._block(s.body, st, pc, after_try, lk, inner)
        if isinstance(s, ast.If):
            if not relevant(s, cfg) and not self._has_flow(s):
                return nxt(st, pc)
            c = self.cond(s.test, st)
            if c is True:
                return self._block(s.body, st, pc, nxt, loopk, finals)
            if c is False:
                return self._block(s.orelse, st, pc, nxt, loopk, finals)
            if c is None:
                self.fresh += 1
                c = z3.Bool('opaque!%d@%d' % (self.fresh, s.lineno))
            st_else = st.clone()
            if isinstance(s.test, ast.Name) and s.test.id in cfg.param_bools and any(isinstance(x, ast.Raise) for x in s.body):
                # `if <parameter flag>: raise ...` passed with the flag off: a guarded failure site (the caller asked not to raise); recorded so that the protocol after it can be checked
                st_else.trace.append('guard-off:%s@%d' % (s.test.id, s.lineno))
            self._block(s.body, st.clone(), pc + [c], nxt, loopk, finals)
            self._block(s.orelse, st_else, pc + [z3.Not(c)], nxt, loopk, finals)
            return
        if isinstance(s, (ast.For, ast.While)):
            if not relevant(s, cfg):
                return nxt(st, pc)
            key = ast.unparse(s.iter) if isinstance(s, ast.For) else 'while:' + ast.unparse(s.test)
            if key in st.loops:
                choices = [st.loops[key]]
            else:
                choices = [0, 1]
            for ch in choices:
                s2 = st.clone()
                s2.loops[key] = ch
                if ch == 0:
                    nxt(s2, pc)
                else:
                    self._block(s.body, s2, pc, nxt, (nxt, nxt), finals)
            return
        if isinstance(s, ast.With):
            return self._block(s.body, st, pc, nxt, loopk, finals)
        # simple statements
        self._simple(s, st)
        return nxt(st, pc)

    def _has_flow(self, s):
        return any(isinstance(n, (ast.Break, ast.Continue)) for n in ast.walk(s))

    def _simple(self, s, st):
        cfg = self.cfg
        if isinstance(s, ast.Assign) and len(s.targets) == 1:
            t = s.targets[0]
            if isinstance(t, ast.Name) and t.id in cfg.flag_names and isinstance(s.value, ast.Constant) and isinstance(s.value.value, bool):
                st.flags[t.id] = s.value.value
                return
            if isinstance(s.value, ast.Call) and _call_name(s.value) in cfg.alloc_calls:
                r = _root(t)
                site = 'alloc@%d' % s.lineno
                st.live[site] = ast.unparse(t)
                if r:
                    st.holds[r] = site
                return
            r = _root(t)
            if r and r[0] in self.ptr_names:
                if isinstance(s.value, ast.Constant) and s.value.value is None:
                    for key in [k for k in st.holds if k[0] == r[0] and k[1] >= r[1]]:
                        del st.holds[key]
                    return
                v = _root(s.value) if isinstance(s.value, (ast.Name, ast.Subscript)) else None
                if v and v[0] in self.ptr_names:
                    for (nm, d), site in list(st.holds.items()):
                        if nm == v[0] and d >= v[1]:
                            st.holds[(r[0], r[1] + (d - v[1]))] = site
                return
        for c in _calls(s):
            nm = _call_name(c)
            if nm in cfg.scale_calls:
                st.scaled = z3.BoolVal(True)
                st.trace.append('scale@%d' % s.lineno)
            elif nm in cfg.restore_calls:
                st.scaled = z3.BoolVal(False)
                st.restores += 1
                st.trace.append('restore@%d' % s.lineno)
            elif nm in cfg.free_calls and c.args:
                r = _root(c.args[0])
                site = st.holds.get(r) if r else None
                if site is not None and site in st.live:
                    del st.live[site]
                    st.trace.append('free@%d(%s)' % (s.lineno, site))
                else:
                    st.trace.append('free-unknown@%d(%s)' % (s.lineno, ast.unparse(c.args[0])))
