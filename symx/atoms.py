"""symx.atoms — transcendental / non-rational operations as atoms with axioms. Every axiom added is logged in CTX.axiom_notes."""
import z3
from fractions import Fraction as Fr
from .values import Q, B, CTX, ZERO, ONE, is_c, zmul, zadd, canon, NotPoly, to_fr, ite, rv
import math

# angle bookkeeping ---------------------------------------------------------------------------
ANGLE_UNITS = {}    # monomial tuple -> Fraction unit (the atom pair represents cos/sin of unit*monomial)
ANGLE_MODE = {}     # monomial -> 'circle' | 't' (quarter-angle rational parametrisation, t in [0,1])
BASES = {}          # monomial -> (cosQ, sinQ)


def reset():
    ANGLE_UNITS.clear()
    ANGLE_MODE.clear()
    BASES.clear()
    _SQRT.clear()
    _POW.clear()
    _EXP.clear()
    _ATOM_AX.clear()


def declare_angle(mon, unit=1, mode='circle'):
    if isinstance(mon, str):
        mon = (mon,)
    mon = tuple(sorted(mon))
    ANGLE_UNITS[mon] = Fr(unit)
    ANGLE_MODE[mon] = mode


def base(mon):
    if mon not in BASES:
        nm = '*'.join(mon)
        mode = ANGLE_MODE.get(mon, 'circle')
        if mode == 'circle':
            c = CTX.atom('cos[' + nm + ']')
            s = CTX.atom('sin[' + nm + ']')
            CTX.axiom(c * c + s * s == 1, 'cos^2+sin^2=1 for base angle %s (unit %s)' % (nm, ANGLE_UNITS.get(mon, 1)))
            BASES[mon] = (Q(c), Q(s))
        else:
            t = CTX.atom('tan_half[' + nm + ']')
            CTX.axiom(z3.And(t >= 0, t <= 1), 'rational parametrisation cos=(1-t^2)/(1+t^2), sin=2t/(1+t^2), t in [0,1] for base angle %s (unit %s): angle in [0, pi/2]' % (nm, ANGLE_UNITS.get(mon, 1)))
            tq = Q(t)
            den = (tq * tq + 1).inv()
            BASES[mon] = ((1 - tq * tq) * den, 2 * tq * den)
    return BASES[mon]


def angle_form(x):
    x = Q.of(x)
    if not x.is_real or x.den:
        raise NotPoly('angle with denominator/complex')
    return canon(x.re)


def cis(x):
    """(cos x, sin x) for x an exact linear form in declared base angles"""
    lin = angle_form(x)
    re, im = Q(1), Q(0)
    for mon in sorted(lin):
        v = lin[mon]
        if mon == ():
            if v != 0:
                raise NotImplementedError('constant angle offset %s' % v)
            continue
        u = ANGLE_UNITS.get(mon, Fr(1))
        k = v / u
        if k.denominator != 1:
            raise NotImplementedError('angle %s has coefficient %s not a multiple of unit %s' % (mon, v, u))
        c, s = base(mon)
        k = int(k)
        if k < 0:
            s = -s
        for _ in range(abs(k)):
            re, im = re * c - im * s, re * s + im * c
    return re, im


def cos(x):
    return cis(x)[0]


def sin(x):
    return cis(x)[1]


# sqrt -------------------------------------------------------------------------------------------
_SQRT = {}


def _key(x):
    try:
        pr = canon(x.re) if not is_c(x.re) else ({(): x.re} if x.re else {})
        pi = canon(x.im) if not is_c(x.im) else ({(): x.im} if x.im else {})
        return (tuple(sorted(pr.items())), tuple(sorted(pi.items())), tuple(sorted((k, m) for k, (t, m) in x.den.items())))
    except NotPoly:
        # structural key (NOT id(x): the ids of collected temporaries are re-used, and two different arguments must never share an atom)
        def sx(t):
            return str(t) if is_c(t) else t.sexpr()
        return ('sx', sx(x.re), sx(x.im), tuple(sorted((str(k), m) for k, (t, m) in x.den.items())))


def sqrt(x):
    x = Q.of(x)
    if x.is_const and x.is_real:
        v = x.re
        if v < 0:
            raise ValueError('sqrt of negative constant')
        n, d = v.numerator, v.denominator
        rn, rd = math.isqrt(n), math.isqrt(d)
        if rn * rn == n and rd * rd == d:
            return Q(Fr(rn, rd))
    k = _key(x)
    if k in _SQRT:
        _re_emit(('sqrt', k))
        return _SQRT[k]
    if not x.is_real:
        raise NotImplementedError('complex sqrt: use csqrt atom explicitly')
    # re-use: a base sine whose square equals x (sqrt(1-cos^2))
    for mon, (c, s) in list(BASES.items()):
        so = z3.Solver()
        so.set('timeout', 5000)
        so.add(CTX.axioms)
        d = s * s - x
        conds = d.is_zero_conds()
        if not conds:
            _SQRT[k] = _SinAbs(mon, s)
            return _SQRT[k]
        so.add(z3.Not(z3.And(*conds)))
        if so.check() == z3.unsat:
            CTX.notes.append('sqrt(%s) identified with |sin| of base angle %s (sin >= 0 assumed on the stated range)' % ('1-cos^2', mon))
            _SQRT[k] = s
            return s
    a = CTX.new('sqrt')
    aq = Q(a)
    CTX.axiom(a >= 0, 'sqrt atom >= 0')
    cond = (aq * aq - x).is_zero_conds()
    _ATOM_AX[('sqrt', k)] = (list(cond), {})
    _re_emit(('sqrt', k), 'sqrt atom squared equals its argument (asserted under the path condition of the path that takes the root)')
    _SQRT[k] = aq
    return aq


# Defining equations of atoms are facts about the path that evaluates the atom (s^2 == x says x >= 0; a division-free equation presumes its denominators non-zero). Emitted unguarded
# they would hold on EVERY later path of the same job and silently prune branches (x < 0, y == 0 ...) from the exploration. Under an Explorer they are therefore asserted as
# (path condition => equation), once per path condition under which the atom is used; outside an exploration they are asserted as before.
_ATOM_AX = {}


def _re_emit(key, note=None):
    if key not in _ATOM_AX:
        return
    conds, seen = _ATOM_AX[key]
    pc = list(CTX.pc) if getattr(CTX, 'explorer', None) is not None else []
    sig = tuple(c.get_id() for c in pc)
    if sig in seen:
        return
    first = not seen
    seen[sig] = pc          # keeps the conjuncts alive: z3 re-uses the ids of collected ASTs, and a recycled id must not be mistaken for a path already served
    for c in conds:
        CTX.axiom(z3.Implies(z3.And(*pc), c) if pc else c, note if first else None)


def _SinAbs(mon, s):
    return s


# general power ----------------------------------------------------------------------------------
_POW = {}


def power(a, n):
    if isinstance(n, Q):
        if n.is_const and n.is_real:
            n = n.re
        else:
            return _pow_atom(a, n)
    if isinstance(n, (float, int)):
        n = to_fr(n)
    if isinstance(n, Fr):
        if n.denominator == 1:
            k = int(n)
            r = Q(1)
            base_ = a
            e = abs(k)
            # binary exponentiation keeps terms small
            while e:
                if e & 1:
                    r = r * base_
                e >>= 1
                if e:
                    base_ = base_ * base_
            return r if k >= 0 else r.inv()
        if n == Fr(1, 2):
            return sqrt(a)
        if n == Fr(-1, 2):
            return sqrt(a).inv()
        if n.denominator == 2:
            k = int(n - Fr(1, 2)) if n > 0 else int(n + Fr(1, 2))
            s = sqrt(a)
            return power(a, k) * s if n > 0 else power(a, k) * s.inv()
        if 2 < n.denominator <= 6 and Q.of(a).is_real:
            return _root_atom(Q.of(a), n)
        return _pow_atom(a, Q(n))
    raise TypeError('power exponent %r' % (n,))


def _root_atom(a, n):
    """a**(p/q) for a > 0: positive atom v with v^q == a^p"""
    k = ('root', _key(a), n)
    if k in _POW:
        _re_emit(k)
        return _POW[k]
    v = CTX.new('root')
    vq = Q(v)
    CTX.axiom(v > 0, 'x**(p/q) atom v > 0 with v^q = x^p (x > 0 assumed)')
    p_, q_ = n.numerator, n.denominator
    lhs = power(vq, q_)
    rhs = power(a, p_)
    _ATOM_AX[k] = (list((lhs - rhs).is_zero_conds()), {})
    _re_emit(k)
    _POW[k] = vq
    return vq


def _pow_atom(a, n):
    k = (_key(Q.of(a)), _key(Q.of(n)))
    if k in _POW:
        return _POW[k]
    kneg = (_key(Q.of(a)), _key(-Q.of(n)))
    if kneg in _POW:
        return _POW[kneg].inv()
    v = CTX.new('pow')
    CTX.axiom(v > 0, 'x**alpha atom > 0 (positive base)')
    _POW[k] = Q(v)
    POW_LOG.append((a, n, Q(v)))
    return _POW[k]


POW_LOG = []


def absval(a):
    a = Q.of(a)
    if a.is_const and a.is_real:
        return Q(abs(a.re))
    if a.is_real:
        sn = a._signed_num()
        if CTX.facts:
            for cond, val in ((sn >= 0, a), (sn <= 0, -a)):
                so = z3.Solver()
                so.set('timeout', 3000)
                so.add(CTX.facts)
                so.add(CTX.den_conds())
                so.add(z3.Not(cond))
                if so.check() == z3.unsat:
                    return val
        return ite(B(sn >= 0), a, -a)
    return sqrt(a.abs2())


# exp ------------------------------------------------------------------------------------------
_EXP = {}
EXP_LOG = []


def exp(x):
    x = Q.of(x)
    if x.is_const and x.re == 0 and x.im == 0:
        return Q(1)
    k = _key(x)
    if k in _EXP:
        return _EXP[k]
    v = CTX.new('exp')
    CTX.axiom(v > 0, 'exp atom > 0')
    q = Q(v)
    # pairwise axioms with the existing atoms: monotone, and exp(0)=1 both ways
    for (x2, q2) in EXP_LOG:
        le = (x <= x2).c
        ge = (x >= x2).c
        CTX.axiom(z3.Implies(le, v <= q2.re), None)
        CTX.axiom(z3.Implies(ge, v >= q2.re), None)
        CTX.axiom(z3.Implies(z3.And(le, ge), v == q2.re), None)
    CTX.axiom(z3.Implies((x <= 0).c, v <= 1), 'exp monotone; x<=0 => exp x <= 1; x>=0 => exp x >= 1; pairwise monotonicity between exp atoms')
    CTX.axiom(z3.Implies((x >= 0).c, v >= 1), None)
    EXP_LOG.append((x, q))
    _EXP[k] = q
    return q
