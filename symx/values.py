"""symx.values — symbolic values for executing real TidalPy source under operator overloading.

Q      complex rational function (re + i*im)/prod(den factors); re/im are python Fractions (folded constants)
       or z3 real terms built ONLY from + and * (never z3 division or power).
B      symbolic boolean (z3 Bool); `bool * value` masks become ite; `if B:` forks through the Explorer.
CTX    per-run context: axioms, atoms, denominator side conditions, path condition, decision log.
"""
import z3
from fractions import Fraction as Fr
import numbers
import numpy as _np

ZERO = Fr(0)
ONE = Fr(1)


def is_c(x):
    return isinstance(x, Fr)


def rv(x):
    """python number -> z3 real numeral"""
    if isinstance(x, Fr):
        return z3.RealVal(str(x))
    if isinstance(x, int):
        return z3.RealVal(x)
    raise TypeError(x)


def zt(x):
    return rv(x) if is_c(x) else x


def zadd(a, b):
    if is_c(a) and is_c(b):
        return a + b
    if is_c(a):
        return b if a == 0 else rv(a) + b
    if is_c(b):
        return a if b == 0 else a + rv(b)
    return a + b


def zneg(a):
    return -a


def zsub(a, b):
    if is_c(b):
        return zadd(a, -b)
    if is_c(a):
        return -b if a == 0 else rv(a) - b
    return a - b


def zmul(a, b):
    if is_c(a) and is_c(b):
        return a * b
    if is_c(a):
        if a == 0:
            return ZERO
        if a == 1:
            return b
        if a == -1:
            return -b
        return rv(a) * b
    if is_c(b):
        return zmul(b, a)
    return a * b


def to_fr(x):
    """exact conversion of python scalars; floats are exact binary values (source literals are pre-rewritten)."""
    if isinstance(x, Fr):
        return x
    if isinstance(x, bool):
        return Fr(int(x))
    if isinstance(x, (int, _np.integer)):
        return Fr(int(x))
    if isinstance(x, (float, _np.floating)):
        return Fr(float(x))
    raise TypeError(type(x))


class Ctx:
    def __init__(self):
        self.reset()

    def reset(self):
        self.axioms = []          # z3 bools that are part of every query (atom axioms)
        self.axiom_notes = []     # human-readable
        self.atoms = {}           # name -> z3 var
        self.den_terms = {}       # key -> z3 term (denominator factors; "!= 0" side conditions)
        self.den_pcs = {}         # key -> None (registered outside an exploration: unconditional) or {pc signature: [pc conjuncts]} (paths that divide by the term)
        self.pc = []              # path condition (z3 bools) of the current path
        self.explorer = None
        self.canon_cache = {}
        self.fresh = 0
        self.notes = []
        self.facts = []           # global assumptions usable for simplification (sign of abs arguments)

    def atom(self, name):
        if name not in self.atoms:
            self.atoms[name] = z3.Real(name)
        return self.atoms[name]

    def new(self, prefix):
        self.fresh += 1
        return z3.Real(f'{prefix}!{self.fresh}')

    def axiom(self, b, note=None):
        self.axioms.append(b)
        if note:
            self.axiom_notes.append(note)

    def reg_den(self, key, term):
        """a denominator factor met while dividing. `term != 0` is a fact about the PATH that divides (the real code would otherwise divide by zero there), not about every path of the
        job: registered with the current path condition, so that it cannot make a branch on which the same symbol is zero (y == 0 ...) vacuously true"""
        self.den_terms[key] = term
        pc = list(self.pc) if self.explorer is not None else []
        if not pc:
            self.den_pcs[key] = None
            return
        cur = self.den_pcs.get(key, {})
        if cur is None:
            return
        cur[tuple(c.get_id() for c in pc)] = pc
        self.den_pcs[key] = cur

    def den_conds(self):
        out = []
        for key, t in self.den_terms.items():
            pcs = self.den_pcs.get(key)
            if pcs is None:
                out.append(t != 0)
            else:
                out.append(z3.Implies(z3.Or(*[z3.And(*pc) for pc in pcs.values()]), t != 0))
        return out


CTX = Ctx()

# ---------------------------------------------------------------------------------------------
# canonical polynomial form of small z3 terms (used for denominators and trig arguments only)
CANON_CAP = 400


class NotPoly(Exception):
    pass


def _pmul(p, q):
    out = {}
    for m1, c1 in p.items():
        for m2, c2 in q.items():
            m = tuple(sorted(m1 + m2))
            out[m] = out.get(m, 0) + c1 * c2
            if len(out) > CANON_CAP:
                raise NotPoly('cap')
    return {m: c for m, c in out.items() if c != 0}


def _padd(p, q, sign=1):
    out = dict(p)
    for m, c in q.items():
        out[m] = out.get(m, 0) + sign * c
    return {m: c for m, c in out.items() if c != 0}


def canon(t):
    """z3 term (or Fraction) -> {monomial(tuple of var names): Fraction}; raises NotPoly"""
    if is_c(t):
        return {(): t} if t != 0 else {}
    tid = t.get_id()
    c = CTX.canon_cache.get(tid)
    if c is not None:
        return c[1]
    k = t.decl().kind()
    if z3.is_rational_value(t):
        v = Fr(t.numerator_as_long(), t.denominator_as_long())
        res = {(): v} if v != 0 else {}
    elif z3.is_const(t) and k == z3.Z3_OP_UNINTERPRETED:
        res = {(t.decl().name(),): ONE}
    elif k == z3.Z3_OP_ADD:
        res = {}
        for ch in t.children():
            res = _padd(res, canon(ch))
    elif k == z3.Z3_OP_SUB:
        ch = t.children()
        res = canon(ch[0])
        for c2 in ch[1:]:
            res = _padd(res, canon(c2), -1)
    elif k == z3.Z3_OP_UMINUS:
        res = {m: -c for m, c in canon(t.children()[0]).items()}
    elif k == z3.Z3_OP_MUL:
        res = {(): ONE}
        for ch in t.children():
            res = _pmul(res, canon(ch))
    elif k == z3.Z3_OP_POWER:
        b_, e_ = t.children()
        if not (z3.is_rational_value(e_) and e_.denominator_as_long() == 1 and e_.numerator_as_long() >= 1):
            raise NotPoly('power')
        res = {(): ONE}
        pb = canon(b_)
        for _ in range(e_.numerator_as_long()):
            res = _pmul(res, pb)
    elif k == z3.Z3_OP_TO_REAL:
        ch = t.children()[0]
        if z3.is_const(ch) and ch.decl().kind() == z3.Z3_OP_UNINTERPRETED:
            res = {(ch.decl().name() + '@int',): ONE}
        else:
            raise NotPoly('to_real')
    else:
        raise NotPoly(str(t.decl()))
    if len(res) > CANON_CAP:
        raise NotPoly('cap')
    CTX.canon_cache[tid] = (t, res)
    return res


_VARS = {}


def var_of(name):
    if name.endswith('@int'):
        return z3.ToReal(z3.Int(name[:-4]))
    return z3.Real(name)


def poly_term(p):
    """canonical poly dict -> z3 term (or Fraction)"""
    tot = ZERO
    for m in sorted(p):
        c = p[m]
        t = c
        for v in m:
            t = zmul(t, var_of(v))
        tot = zadd(tot, t)
    return tot


def factor_den(t):
    """split a denominator term into (constant Fraction, [(key, z3term, mult)])"""
    try:
        p = canon(t)
    except NotPoly:
        s = z3.simplify(t) if not is_c(t) else t
        return ONE, [(('o', s.get_id()), s, 1)]
    if not p:
        raise ZeroDivisionError('symbolic division by the zero polynomial')
    if len(p) == 1:
        (m, c), = p.items()
        fs = {}
        for v in m:
            fs[v] = fs.get(v, 0) + 1
        return c, [(('v', v), var_of(v), k) for v, k in sorted(fs.items())]
    # monomial content
    mons = list(p)
    common = None
    for m in mons:
        cnt = {}
        for v in m:
            cnt[v] = cnt.get(v, 0) + 1
        if common is None:
            common = cnt
        else:
            common = {v: min(k, cnt.get(v, 0)) for v, k in common.items() if cnt.get(v, 0) > 0}
    common = common or {}
    lead = p[sorted(mons)[0]]
    prim = {}
    for m, c in p.items():
        mm = list(m)
        for v, k in common.items():
            for _ in range(k):
                mm.remove(v)
        prim[tuple(mm)] = c / lead
    key = ('p', tuple(sorted(prim.items())))
    facs = [(('v', v), var_of(v), k) for v, k in sorted(common.items())]
    facs.append((key, poly_term(prim), 1))
    return lead, facs


# ---------------------------------------------------------------------------------------------
class B:
    """symbolic boolean"""
    __array_priority__ = 2000

    def __init__(self, c):
        if isinstance(c, bool):
            c = z3.BoolVal(c)
        self.c = c

    @staticmethod
    def of(x):
        if isinstance(x, B):
            return x
        if isinstance(x, (bool, _np.bool_)):
            return B(bool(x))
        raise TypeError(type(x))

    def __bool__(self):
        s = z3.simplify(self.c)
        if z3.is_true(s):
            return True
        if z3.is_false(s):
            return False
        if CTX.explorer is None:
            raise RuntimeError('branch on symbolic condition outside an Explorer: %s' % s)
        return CTX.explorer.decide(self.c)

    def __and__(a, b):
        return B(z3.And(a.c, B.of(b).c))
    __rand__ = __and__

    def __or__(a, b):
        return B(z3.Or(a.c, B.of(b).c))
    __ror__ = __or__

    def __invert__(a):
        return B(z3.Not(a.c))

    def __mul__(a, b):
        if isinstance(b, _np.ndarray):
            return NotImplemented
        if isinstance(b, B):
            return B(z3.And(a.c, b.c))
        b = Q.of(b)
        return Q(_ite(a.c, b.re, ZERO), _ite(a.c, b.im, ZERO), b.den)
    __rmul__ = __mul__

    def __add__(a, b):
        return a.asq() + b
    __radd__ = __add__

    def asq(a):
        return Q(_ite(a.c, ONE, ZERO))

    def __sub__(a, b):
        return a.asq() - b

    def __rsub__(a, b):
        return Q.of(b) - a.asq()

    def __neg__(a):
        return -a.asq()

    def __eq__(a, b):
        return B(a.c == B.of(b).c)

    def __hash__(self):
        return id(self)


def _ite(c, a, b):
    if is_c(a) and is_c(b) and a == b:
        return a
    if z3.is_true(c):
        return a
    if z3.is_false(c):
        return b
    return z3.If(c, zt(a), zt(b))


def ite(c, a, b):
    """value-level if-then-else (both sides evaluated)"""
    c = B.of(c)
    s = z3.simplify(c.c)
    if z3.is_true(s):
        return a
    if z3.is_false(s):
        return b
    if isinstance(a, B) or isinstance(b, B):
        return B(z3.If(c.c, B.of(a).c, B.of(b).c))
    a = Q.of(a)
    b = Q.of(b)
    tgt = _lcm(a.den, b.den)
    ar, ai = a._lift(tgt)
    br, bi = b._lift(tgt)
    return Q(_ite(c.c, ar, br), _ite(c.c, ai, bi), tgt)


def _lcm(d1, d2):
    tgt = dict(d1)
    for k, (t, m) in d2.items():
        if tgt.get(k, (t, 0))[1] < m:
            tgt[k] = (t, m)
    return tgt


def _prod(fs):
    t = ONE
    for k in fs:
        term, m = fs[k]
        for _ in range(m):
            t = zmul(t, term)
    return t


def _emap(f, arr):
    out = _np.empty(arr.shape, dtype=object)
    for idx in _np.ndindex(arr.shape):
        out[idx] = f(arr[idx])
    return out.view(type(arr))


class Q:
    """(re + i im) / prod(den)"""
    __slots__ = ('re', 'im', 'den', 'tag')
    __array_priority__ = 1000

    def __init__(self, re, im=ZERO, den=None, tag=None):
        self.re = to_fr(re) if isinstance(re, (int, float)) else re
        self.im = to_fr(im) if isinstance(im, (int, float)) else im
        self.den = den if den is not None else {}
        self.tag = tag

    # ---- construction
    @staticmethod
    def of(x):
        if isinstance(x, Q):
            return x
        if isinstance(x, B):
            return x.asq()
        if isinstance(x, (complex, _np.complexfloating)):
            return Q(to_fr(x.real), to_fr(x.imag))
        if isinstance(x, (Fr, int, float, _np.integer, _np.floating, bool)):
            return Q(to_fr(x))
        if z3.is_expr(x):
            if z3.is_int(x):
                x = z3.ToReal(x)
            return Q(x)
        raise TypeError('Q.of(%r)' % type(x))

    @staticmethod
    def sym(name):
        return Q(z3.Real(name))

    @staticmethod
    def csym(name):
        return Q(z3.Real(name + '_r'), z3.Real(name + '_i'))

    # ---- structure
    @property
    def is_const(self):
        return is_c(self.re) and is_c(self.im) and not self.den

    @property
    def is_real(self):
        return is_c(self.im) and self.im == 0

    def const(self):
        assert self.is_const
        return self.re if self.im == 0 else complex(self.re, self.im)

    @property
    def d(self):
        return _prod(self.den)

    def _lift(self, target):
        miss = {}
        for k, (t, m) in target.items():
            have = self.den.get(k, (t, 0))[1]
            if m > have:
                miss[k] = (t, m - have)
        if not miss:
            return self.re, self.im
        p = _prod(miss)
        return zmul(self.re, p), zmul(self.im, p)

    @property
    def real(self):
        return Q(self.re, ZERO, self.den)

    @property
    def imag(self):
        return Q(self.im, ZERO, self.den)

    def conjugate(self):
        return Q(self.re, zneg(self.im) if not is_c(self.im) else -self.im, self.den)
    conj = conjugate

    def abs2(self):
        return Q(zadd(zmul(self.re, self.re), zmul(self.im, self.im)), ZERO,
                 {k: (t, 2 * m) for k, (t, m) in self.den.items()})

    # ---- arithmetic
    def __add__(a, b):
        if isinstance(b, _np.ndarray):
            return _emap(lambda x: a + x, b)
        b = Q.of(b)
        if not a.den and not b.den:
            return Q(zadd(a.re, b.re), zadd(a.im, b.im))
        tgt = _lcm(a.den, b.den)
        ar, ai = a._lift(tgt)
        br, bi = b._lift(tgt)
        return Q(zadd(ar, br), zadd(ai, bi), tgt)
    __radd__ = __add__

    def __neg__(a):
        return Q(-a.re, -a.im, a.den)

    def __pos__(a):
        return a

    def __sub__(a, b):
        if isinstance(b, _np.ndarray):
            return _emap(lambda x: a - x, b)
        return a + (-Q.of(b))

    def __rsub__(a, b):
        if isinstance(b, _np.ndarray):
            return _emap(lambda x: x - a, b)
        return Q.of(b) + (-a)

    def __mul__(a, b):
        if isinstance(b, _np.ndarray):
            return _emap(lambda x: a * x, b)
        if isinstance(b, B):
            return b * a
        b = Q.of(b)
        if a.den or b.den:
            den = dict(a.den)
            for k, (t, m) in b.den.items():
                den[k] = (t, den.get(k, (t, 0))[1] + m)
        else:
            den = {}
        if a.is_real and b.is_real:
            return Q(zmul(a.re, b.re), ZERO, den)
        if a.is_real:
            return Q(zmul(a.re, b.re), zmul(a.re, b.im), den)
        if b.is_real:
            return Q(zmul(a.re, b.re), zmul(a.im, b.re), den)
        return Q(zsub(zmul(a.re, b.re), zmul(a.im, b.im)), zadd(zmul(a.re, b.im), zmul(a.im, b.re)), den)
    __rmul__ = __mul__

    def inv(a):
        if a.is_const:
            c = a.const()
            if isinstance(c, Fr):
                return Q(1 / c)
            n = a.re * a.re + a.im * a.im
            return Q(a.re / n, -a.im / n)
        D = a.d
        if a.is_real:
            c, facs = factor_den(a.re)
            den = {}
            for key, term, m in facs:
                den[key] = (term, m)
                CTX.reg_den(key, term)
            return Q(zmul(1 / c, D), ZERO, den)
        n = zadd(zmul(a.re, a.re), zmul(a.im, a.im))
        c, facs = factor_den(n)
        den = {}
        for key, term, m in facs:
            den[key] = (term, m)
            CTX.reg_den(key, term)
        return Q(zmul(1 / c, zmul(a.re, D)), zmul(-1 / c, zmul(a.im, D)), den)

    def __truediv__(a, b):
        if isinstance(b, _np.ndarray):
            return _emap(lambda x: a / x, b)
        b = Q.of(b)
        return a * b.inv()

    def __rtruediv__(a, b):
        if isinstance(b, _np.ndarray):
            ia = a.inv()
            return _emap(lambda x: x * ia, b)
        return Q.of(b) * a.inv()

    def __pow__(a, n):
        from . import atoms
        return atoms.power(a, n)

    def __rpow__(a, b):
        from . import atoms
        return atoms.power(Q.of(b), a)

    # ---- comparisons (reals only)
    def _signed_num(a):
        """term with the same sign as the (real) value, assuming all denominator factors are non-zero"""
        assert a.is_real, 'ordering comparison of complex value'
        odd = {k: (t, 1) for k, (t, m) in a.den.items() if m % 2 == 1}
        return zmul(a.re, _prod(odd))

    def _cmp(a, b, op):
        d = a - Q.of(b)
        t = d._signed_num()
        if is_c(t):
            return B(bool(op(t, 0)))
        cond = op(t, 0)
        if CTX.facts:
            # comparisons decided by the declared facts are resolved (value-level masks of the legacy code become concrete)
            for want, neg in ((True, z3.Not(cond)), (False, cond)):
                so = z3.Solver()
                so.set('timeout', 3000)
                so.add(CTX.facts)
                so.add(CTX.den_conds())
                so.add(CTX.pc)
                so.add(neg)
                if so.check() == z3.unsat:
                    return B(want)
        return B(cond)

    def __gt__(a, b):
        return a._cmp(b, lambda x, y: x > y)

    def __ge__(a, b):
        return a._cmp(b, lambda x, y: x >= y)

    def __lt__(a, b):
        return a._cmp(b, lambda x, y: x < y)

    def __le__(a, b):
        return a._cmp(b, lambda x, y: x <= y)

    def __eq__(a, b):
        if b is None:
            return False
        if isinstance(b, _np.ndarray):
            return NotImplemented
        d = a - Q.of(b)
        if is_c(d.re) and is_c(d.im):
            return B(d.re == 0 and d.im == 0)
        conds = []
        for part in (d.re, d.im):
            if is_c(part):
                if part != 0:
                    return B(False)
            else:
                conds.append(part == 0)
        cond = z3.And(*conds) if len(conds) > 1 else conds[0]
        if CTX.facts:
            for want, neg in ((True, z3.Not(cond)), (False, cond)):
                so = z3.Solver()
                so.set('timeout', 3000)
                so.add(CTX.facts)
                so.add(CTX.den_conds())
                so.add(CTX.pc)
                so.add(neg)
                if so.check() == z3.unsat:
                    return B(want)
        return B(cond)

    def __ne__(a, b):
        e = a.__eq__(b)
        if e is NotImplemented or isinstance(e, bool):
            return not e if isinstance(e, bool) else e
        return ~e

    def __hash__(self):
        return id(self)

    def __abs__(a):
        from . import atoms
        return atoms.absval(a)

    def __float__(a):
        if a.is_const and a.is_real:
            return float(a.re)
        raise TypeError('symbolic value used as concrete float')

    def __index__(a):
        if a.is_const and a.is_real and a.re.denominator == 1:
            return int(a.re)
        raise TypeError('symbolic value used as index')

    def __int__(a):
        return a.__index__()

    def __and__(a, b):
        return int(a) & int(b)
    __rand__ = __and__

    def __repr__(a):
        return 'Q(%s, %s, den=%d)' % (a.re, a.im, len(a.den))

    # ---- goal helpers
    def is_zero_conds(a):
        """list of z3 bools whose conjunction says value == 0 (given denominators non-zero)"""
        out = []
        for part in (a.re, a.im):
            if is_c(part):
                if part != 0:
                    out.append(z3.BoolVal(False))
            else:
                out.append(part == 0)
        return out

    def substitute(a, pairs):
        def s(t):
            return t if is_c(t) else z3.simplify(z3.substitute(t, *pairs))
        return Q(s(a.re), s(a.im), {k: (s(t), m) for k, (t, m) in a.den.items()})


def eq_goal(a, b):
    """z3 Bool: a == b as rational functions (cross-multiplied, denominators assumed non-zero)"""
    d = Q.of(a) - Q.of(b)
    cs = d.is_zero_conds()
    if not cs:
        return z3.BoolVal(True)
    return z3.And(*cs) if len(cs) > 1 else cs[0]


def close_goal(a, b, eps, scale):
    """|a-b| <= eps*scale for real a,b, scale >= 0 (Q); cross-multiplied with positive denominators assumed by caller"""
    d = Q.of(a) - Q.of(b)
    s = Q.of(scale) * Q.of(eps)
    return z3.And((d - s <= 0).c, (d + s >= 0).c)
