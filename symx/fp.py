"""symx.fp — IEEE-754 values (z3 QF_FP) for the few properties that are about special values (0, inf, NaN, signed zero).
FPV wraps a z3 FP term; arithmetic is round-nearest-even; bool masks multiply by 1.0/0.0 exactly as numpy does (False*inf = NaN)."""
import z3
from fractions import Fraction as Fr

RNE = z3.RNE()


class FPSort:
    def __init__(self, ebits=11, sbits=53):
        self.sort = z3.FPSort(ebits, sbits)
        self.ebits, self.sbits = ebits, sbits


F64 = FPSort(11, 53)
F32 = FPSort(8, 24)
F16 = FPSort(5, 11)


class FB:
    def __init__(self, c, S):
        self.c = c
        self.S = S

    def asfp(self):
        return FPV(z3.If(self.c, z3.FPVal(1.0, self.S.sort), z3.FPVal(0.0, self.S.sort)), self.S)

    def __mul__(self, o):
        if isinstance(o, FB):
            return FB(z3.And(self.c, o.c), self.S)
        return self.asfp() * o
    __rmul__ = __mul__

    def __invert__(self):
        return FB(z3.Not(self.c), self.S)

    def __add__(self, o):
        return self.asfp() + o
    __radd__ = __add__

    def __sub__(self, o):
        return self.asfp() - o

    def __rsub__(self, o):
        return self.asfp().__rsub__(o)

    def __and__(self, o):
        return FB(z3.And(self.c, o.c), self.S)

    def __or__(self, o):
        return FB(z3.Or(self.c, o.c), self.S)

    def __bool__(self):
        from .values import CTX
        sc = z3.simplify(self.c)
        if z3.is_true(sc):
            return True
        if z3.is_false(sc):
            return False
        if CTX.explorer is None:
            raise RuntimeError('branch on symbolic FP condition outside an Explorer')
        return CTX.explorer.decide(self.c)


ABSTRACT = {'on': False, 'fresh': [], 'n': 0}


def _abs_or(a, b, mk):
    """arithmetic between operands that do not depend on the special-valued input is abstracted to a fresh finite variable (stated cut)"""
    ta = getattr(a, 'taint', False)
    tb = getattr(b, 'taint', False)
    if ABSTRACT['on'] and not ta and not tb:
        ABSTRACT['n'] += 1
        v = z3.FP('abs!%d' % ABSTRACT['n'], a.S.sort)
        ABSTRACT['fresh'].append(v)
        return FPV(v, a.S, False)
    r = mk()
    r.taint = ta or tb
    return r


class FPV:
    __array_priority__ = 3000

    def __init__(self, t, S=F64, taint=True):
        self.t = t
        self.S = S
        self.taint = taint

    @staticmethod
    def sym(name, S=F64, taint=True):
        return FPV(z3.FP(name, S.sort), S, taint)

    def of(self, x):
        if isinstance(x, FPV):
            return x
        if isinstance(x, FB):
            return x.asfp()
        if isinstance(x, Fr):
            # correctly rounded value of the exact literal
            return FPV(z3.fpRealToFP(RNE, z3.RealVal(str(x)), self.S.sort), self.S, False)
        if isinstance(x, bool):
            return FPV(z3.FPVal(1.0 if x else 0.0, self.S.sort), self.S, False)
        if isinstance(x, (int, float)):
            return FPV(z3.FPVal(float(x), self.S.sort), self.S, False)
        raise TypeError(type(x))

    def __add__(a, b):
        b = a.of(b)
        return _abs_or(a, b, lambda: FPV(z3.fpAdd(RNE, a.t, b.t), a.S))
    __radd__ = __add__

    def __sub__(a, b):
        b = a.of(b)
        return _abs_or(a, b, lambda: FPV(z3.fpSub(RNE, a.t, b.t), a.S))

    def __rsub__(a, b):
        b = a.of(b)
        return _abs_or(b, a, lambda: FPV(z3.fpSub(RNE, b.t, a.t), a.S))

    def __mul__(a, b):
        b = a.of(b)
        return _abs_or(a, b, lambda: FPV(z3.fpMul(RNE, a.t, b.t), a.S))
    __rmul__ = __mul__

    def __truediv__(a, b):
        b = a.of(b)
        return _abs_or(a, b, lambda: FPV(z3.fpDiv(RNE, a.t, b.t), a.S))

    def __rtruediv__(a, b):
        b = a.of(b)
        return _abs_or(b, a, lambda: FPV(z3.fpDiv(RNE, b.t, a.t), a.S))

    def __neg__(a):
        return FPV(z3.fpNeg(a.t), a.S, a.taint)

    def __abs__(a):
        return FPV(z3.fpAbs(a.t), a.S, a.taint)

    def sqrt(a):
        return FPV(z3.fpSqrt(RNE, a.t), a.S, a.taint)

    def __lt__(a, b):
        return FB(z3.fpLT(a.t, a.of(b).t), a.S)

    def __le__(a, b):
        return FB(z3.fpLEQ(a.t, a.of(b).t), a.S)

    def __gt__(a, b):
        return FB(z3.fpGT(a.t, a.of(b).t), a.S)

    def __ge__(a, b):
        return FB(z3.fpGEQ(a.t, a.of(b).t), a.S)

    def __eq__(a, b):
        return FB(z3.fpEQ(a.t, a.of(b).t), a.S)

    def __ne__(a, b):
        return FB(z3.Not(z3.fpEQ(a.t, a.of(b).t)), a.S)

    def __hash__(self):
        return id(self)

    # classification
    def isnan(a):
        return z3.fpIsNaN(a.t)

    def isinf(a):
        return z3.fpIsInf(a.t)

    def iszero(a):
        return z3.fpIsZero(a.t)

    def isneg(a):
        return z3.fpIsNegative(a.t)

    def finite(a):
        return z3.And(z3.Not(z3.fpIsNaN(a.t)), z3.Not(z3.fpIsInf(a.t)))


def fp_ite(c, a, b):
    return FPV(z3.If(c.c if isinstance(c, FB) else c, a.t, a.of(b).t), a.S)


class NPFP:
    """np shim for FP execution"""
    float64 = float

    @staticmethod
    def sqrt(x):
        return x.sqrt()

    @staticmethod
    def abs(x):
        return abs(x)


def model_float(m, v):
    """python float of an FP model value"""
    val = m.eval(v.t if isinstance(v, FPV) else v, model_completion=True)
    if z3.fpIsNaN(val) is True:
        return float('nan')
    s = str(val)
    if 'NaN' in s:
        return float('nan')
    if '+oo' in s:
        return float('inf')
    if '-oo' in s:
        return float('-inf')
    if s in ('+0.0', '+zero'):
        return 0.0
    if s in ('-0.0', '-zero'):
        return -0.0
    try:
        sig = val.significand_as_long()
        exp = val.exponent_as_long(False)
        sign = val.sign()
        import math
        sb = val.sbits() - 1
        if val.isSubnormal():
            f = sig * 2.0 ** (exp - sb + 1) if False else float(Fr(sig, 2 ** sb) * Fr(2) ** exp) if exp >= 0 else float(Fr(sig, 2 ** sb) / Fr(2) ** (-exp))
        else:
            f = float((1 + Fr(sig, 2 ** sb)) * (Fr(2) ** exp if exp >= 0 else 1 / Fr(2) ** (-exp)))
        return -f if sign else f
    except Exception:
        return float(eval(s.replace('*(2**', '*(2.0**')))
