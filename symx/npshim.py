"""symx.npshim — the `np` the executed source sees. Arrays are real numpy object arrays holding Q values."""
import numpy as _np
from fractions import Fraction as Fr
from .values import Q, B, CTX, ite, to_fr
from . import atoms


class SArr(_np.ndarray):
    """object ndarray whose comparisons stay element-wise symbolic (numpy would coerce them to bool)"""
    def __le__(self, o):
        return _np.less_equal(self, o, dtype=object).view(SArr)

    def __lt__(self, o):
        return _np.less(self, o, dtype=object).view(SArr)

    def __ge__(self, o):
        return _np.greater_equal(self, o, dtype=object).view(SArr)

    def __gt__(self, o):
        return _np.greater(self, o, dtype=object).view(SArr)

    def __eq__(self, o):
        return _np.equal(self, o, dtype=object).view(SArr)

    def __ne__(self, o):
        return _np.not_equal(self, o, dtype=object).view(SArr)

    __hash__ = None

    def __setitem__(self, key, value):
        # boolean-mask assignment with a symbolic mask:  a[mask] = v  ->  a[i] = ite(mask[i], v, a[i])
        if isinstance(key, _np.ndarray) and key.dtype == object and key.shape == self.shape and key.size and isinstance(key.flat[0], B):
            for idx in _np.ndindex(self.shape):
                _np.ndarray.__setitem__(self, idx, ite(key[idx], value if not isinstance(value, _np.ndarray) else value[idx], self[idx]))
            return
        _np.ndarray.__setitem__(self, key, value)


def _elem(f):
    def g(x, *a, **k):
        if isinstance(x, _np.ndarray):
            out = _np.empty(x.shape, dtype=object).view(SArr)
            for idx in _np.ndindex(x.shape):
                out[idx] = f(x[idx], *a, **k)
            return out
        return f(x, *a, **k)
    return g


def _q(x):
    return x if isinstance(x, (Q, B)) else Q.of(x)


class NP:
    float64 = float
    complex128 = complex
    int64 = int
    int32 = int
    bool_ = bool
    ndarray = _np.ndarray
    pi = None          # set by the check (symbol with bounds) through set_pi
    inf = None
    nan = None
    newaxis = None

    sqrt = staticmethod(_elem(lambda x: atoms.sqrt(_q(x))))
    exp = staticmethod(_elem(lambda x: atoms.exp(_q(x))))
    cos = staticmethod(_elem(lambda x: atoms.cos(_q(x))))
    sin = staticmethod(_elem(lambda x: atoms.sin(_q(x))))
    tan = staticmethod(_elem(lambda x: atoms.sin(_q(x)) / atoms.cos(_q(x))))
    abs = staticmethod(_elem(lambda x: atoms.absval(_q(x))))
    absolute = abs
    real = staticmethod(_elem(lambda x: _q(x).real))
    imag = staticmethod(_elem(lambda x: _q(x).imag))
    conj = staticmethod(_elem(lambda x: _q(x).conjugate()))
    conjugate = conj

    @staticmethod
    def sign(x):
        def s(v):
            v = _q(v)
            return ite(v > 0, Q(1), ite(v < 0, Q(-1), Q(0)))
        return _elem(s)(x)

    @staticmethod
    def copysign(a, b):
        def f(av, bv):
            av, bv = _q(av), _q(bv)
            mag = atoms.absval(av)
            return ite(bv >= 0, mag, -mag)
        if isinstance(b, _np.ndarray):
            out = _np.empty(b.shape, dtype=object).view(SArr)
            for idx in _np.ndindex(b.shape):
                out[idx] = f(a[idx] if isinstance(a, _np.ndarray) else a, b[idx])
            return out
        return f(a, b)

    @staticmethod
    def isnan(x):
        return _elem(lambda v: B(False))(x)

    @staticmethod
    def isinf(x):
        return _elem(lambda v: B(False))(x)

    @staticmethod
    def empty(shape, dtype=None):
        return _np.empty(shape, dtype=object).view(SArr)

    @staticmethod
    def zeros(shape, dtype=None):
        a = _np.empty(shape, dtype=object).view(SArr)
        a.fill(Q(0))
        return a

    @staticmethod
    def ones(shape, dtype=None):
        a = _np.empty(shape, dtype=object).view(SArr)
        a.fill(Q(1))
        return a

    @staticmethod
    def zeros_like(x, dtype=None):
        if isinstance(x, _np.ndarray):
            return NP.zeros(x.shape)
        return Q(0)

    @staticmethod
    def ones_like(x, dtype=None):
        if dtype is bool:
            return B(True)
        if isinstance(x, _np.ndarray):
            return NP.ones(x.shape)
        return Q(1)

    empty_like = zeros_like

    @staticmethod
    def full(shape, v, dtype=None):
        a = _np.empty(shape, dtype=object).view(SArr)
        a.fill(v)
        return a

    @staticmethod
    def asarray(x, dtype=None, order=None):
        if isinstance(x, _np.ndarray):
            return x
        a = _np.empty(len(x), dtype=object).view(SArr)
        for i, v in enumerate(x):
            a[i] = v
        return a
    array = asarray
    ascontiguousarray = asarray

    @staticmethod
    def sum(x, axis=None):
        if axis is None:
            tot = Q(0)
            for v in _np.asarray(x, dtype=object).ravel():
                tot = tot + v
            return tot
        return _np.sum(x, axis=axis)

    @staticmethod
    def copy(x):
        return x.copy() if isinstance(x, _np.ndarray) else x

    @staticmethod
    def maximum(a, b):
        return ite(_q(a) >= _q(b), a, b)

    @staticmethod
    def minimum(a, b):
        return ite(_q(a) <= _q(b), a, b)

    @staticmethod
    def where(c, a, b):
        return ite(c, a, b)

    @staticmethod
    def all(x):
        return x

    @staticmethod
    def any(x):
        return x


def set_pi(lo='3.1415926', hi='3.1415927'):
    import z3
    p = CTX.atom('PI')
    CTX.axiom(z3.And(p > z3.RealVal(lo), p < z3.RealVal(hi)), 'pi is a symbol with %s < PI < %s' % (lo, hi))
    NP.pi = Q(p)
    return NP.pi


def obj_array(vals, shape=None):
    a = _np.empty(len(vals), dtype=object).view(SArr)
    for i, v in enumerate(vals):
        a[i] = v
    return a.reshape(shape) if shape else a
