"""symx.pyx2py — transliterate Cython leaf kernels to Python source (per function / method), for execution under the symbolic values.

What is dropped: C types and declarations, casts, `noexcept nogil`, `inline`, `const`, `cimport`s.
What is kept and made explicit: stack arrays (`cdef double complex x[3]`, `cdef double complex[3][3] m`) become CArr with their DECLARED extent
(out-of-extent accesses raise ExtentError), `&a[i]` / `&a[i][j]` / `&a` become Ptr views, pointer indexing is bounds-checked against the extent.
Cython language_level 3 semantics: `/` is true division."""
import re
from fractions import Fraction as Fr

CTYPE = r'(?:(?:const|unsigned|signed|long|short)\s+)*(?:double\s+complex|float\s+complex|double|float|int|long|char|size_t|ssize_t|Py_ssize_t|bint|cpp_bool|bool|void|int32_t|int64_t|uint8_t|uint32_t|uint64_t|unsigned|str|tuple|list|dict|object|np\.ndarray|ndarray|[A-Z]\w*)'
CTYPE_RE = re.compile(r'^' + CTYPE + r'(?:\s*\[[^\]]*\])*(?:\s*\*+)?(?:\s+(?:noexcept|nogil))*$')


class ExtentError(IndexError):
    pass


class LoopBudgetError(RuntimeError):
    """a `while` loop of the transliterated source ran past the iteration budget with concrete loop variables: it does not terminate"""


LOOP_BUDGET = 200000
SIZEOF_UNIT = 7919          # stands for sizeof(T) in the transliteration: an allocation of n * sizeof(T) bytes is n * 7919, and anything that is not a multiple is a malformed size
_LOOP_COUNT = {}


def _loop_tick(site):
    n = _LOOP_COUNT.get(site, 0) + 1
    _LOOP_COUNT[site] = n
    if n > LOOP_BUDGET:
        _LOOP_COUNT[site] = 0
        raise LoopBudgetError('while loop at %s exceeded %d iterations' % (site, LOOP_BUDGET))


VIOLATIONS = []      # out-of-extent accesses recorded in lenient mode
STRICT = [True]


def _violation(msg, arr=None):
    if STRICT[0]:
        e = ExtentError(msg)
        e.src_declared = bool(getattr(arr, 'src_declared', False))
        raise e
    VIOLATIONS.append(msg)


class CArr:
    """fixed-extent C array (flattened, row-major); index beyond the declared extent is an ExtentError
    (lenient mode: recorded in VIOLATIONS and served from an overflow area, as adjacent stack memory would)"""

    def __init__(self, shape, name='?'):
        # src_declared: the extent comes from the SOURCE (a `cdef type[N] x` declaration transliterated into CArr((N,), ...) inside the function body), not from the harness
        import sys as _sys
        try:
            self.src_declared = _sys._getframe(1).f_code.co_filename.startswith('TidalPy/')
        except Exception:
            self.src_declared = False
        self.shape = tuple(shape) if isinstance(shape, (tuple, list)) else (shape,)
        n = 1
        for s in self.shape:
            n *= s
        self.extent = n
        self.data = [None] * n
        self.name = name
        self.writes = 0
        self.overflow = {}

    def _flat(self, idx):
        if isinstance(idx, tuple):
            raise TypeError('tuple index')
        return idx

    def __getitem__(self, i):
        if len(self.shape) > 1:
            return _Row(self, int(i))
        i = int(i)
        if not (0 <= i < self.extent):
            _violation('read %s[%d] beyond declared extent %d' % (self.name, i, self.extent), self)
            return self.overflow.get(i)
        return self.data[i]

    def __setitem__(self, i, v):
        i = int(i)
        if not (0 <= i < self.extent):
            _violation('write %s[%d] beyond declared extent %d' % (self.name, i, self.extent), self)
            self.overflow[i] = v
            return
        self.writes += 1
        self.data[i] = v

    def __len__(self):
        return self.extent


class _Row:
    def __init__(self, arr, i):
        self.arr, self.i = arr, i

    def _off(self, j):
        ncol = self.arr.extent // self.arr.shape[0]
        if not (0 <= self.i < self.arr.shape[0]) or not (0 <= int(j) < ncol):
            raise ExtentError('access %s[%d][%d] beyond declared shape %r' % (self.arr.name, self.i, int(j), self.arr.shape))
        return self.i * ncol + int(j)

    def __getitem__(self, j):
        return self.arr.data[self._off(j)]

    def __setitem__(self, j, v):
        self.arr.data[self._off(j)] = v
        self.arr.writes += 1


class Ptr:
    """pointer into a CArr / list-like `base` at offset `off`; indexing is checked against the base extent"""

    def __init__(self, base, off=0):
        if isinstance(base, Ptr):
            base, off = base.base, base.off + off
        self.base, self.off = base, int(off)

    def _ext(self):
        b = self.base
        return b.extent if isinstance(b, CArr) else len(b)

    def __getitem__(self, i):
        k = self.off + int(i)
        if not (0 <= k < self._ext()):
            _violation('pointer read at offset %d beyond extent %d of %s' % (k, self._ext(), getattr(self.base, 'name', 'buffer')), self.base)
            return self.base.overflow.get(k) if isinstance(self.base, CArr) else None
        return self.base.data[k] if isinstance(self.base, CArr) else self.base[k]

    def __setitem__(self, i, v):
        k = self.off + int(i)
        if not (0 <= k < self._ext()):
            _violation('pointer write at offset %d beyond extent %d of %s' % (k, self._ext(), getattr(self.base, 'name', 'buffer')), self.base)
            if isinstance(self.base, CArr):
                self.base.overflow[k] = v
            return
        if isinstance(self.base, CArr):
            self.base.data[k] = v
            self.base.writes += 1
        else:
            self.base[k] = v

    def __add__(self, k):
        return Ptr(self.base, self.off + int(k))


class Ref:
    """&scalar : a one-element cell"""

    def __init__(self, v=None):
        self.v = v

    def __getitem__(self, i):
        assert int(i) == 0
        return self.v

    def __setitem__(self, i, v):
        assert int(i) == 0
        self.v = v


def addr(x, *idx):
    """&x[i][j]... -> Ptr ; &x (array) -> Ptr(x,0)"""
    if isinstance(x, CArr):
        if not idx:
            return Ptr(x, 0)
        if len(x.shape) > 1 and len(idx) == 2:
            ncol = x.extent // x.shape[0]
            return Ptr(x, int(idx[0]) * ncol + int(idx[1]))
        if len(x.shape) > 1 and len(idx) == 1:
            ncol = x.extent // x.shape[0]
            return Ptr(x, int(idx[0]) * ncol)
        return Ptr(x, int(idx[0]))
    if isinstance(x, (Ptr,)):
        return Ptr(x, int(idx[0]) if idx else 0)
    if isinstance(x, list):
        return Ptr(x, int(idx[0]) if idx else 0)
    try:
        import numpy as _np
        if isinstance(x, _np.ndarray):
            return Ptr(x, int(idx[0]) if idx else 0)
    except Exception:
        pass
    return Ref(x)


def _split_args(argtxt):
    out, depth, cur = [], 0, ''
    for ch in argtxt:
        if ch in '([{':
            depth += 1
        elif ch in ')]}':
            depth -= 1
        if ch == ',' and depth == 0:
            out.append(cur)
            cur = ''
        else:
            cur += ch
    if cur.strip():
        out.append(cur)
    return [a.strip() for a in out if a.strip()]


def strip_comment(line):
    q = None
    for i, ch in enumerate(line):
        if q:
            if ch == q and line[i - 1] != '\\':
                q = None
        elif ch in '"\'':
            q = ch
        elif ch == '#':
            return line[:i]
    return line


def _arg_name(a):
    if a.startswith('*'):
        return a
    default = None
    if '=' in a:
        a, default = a.split('=', 1)
        a, default = a.strip(), default.strip()
    a = re.sub(r'\[[^\]]*\]', '', a)      # memoryview / array suffixes
    nm = re.split(r'[\s\*&]+', a.strip())[-1]
    return nm if default is None else '%s=%s' % (nm, default)


HEADER_RE = re.compile(r'^(?P<ind>[ \t]*)(?P<kw>cdef|cpdef|def)\s+(?P<rest>.*)$')


def find_function(src, qual):
    """return (header_text, body_lines, indent) of function `name` or `Class.name` in pyx source"""
    lines = src.split('\n')
    cls, name = (qual.split('.') + [None])[:2] if '.' in qual else (None, qual)
    start, end = 0, len(lines)
    if cls:
        m = None
        for i, ln in enumerate(lines):
            if re.match(r'^\s*(?:cdef\s+)?class\s+%s\b' % re.escape(cls), ln):
                m = i
                break
        if m is None:
            raise KeyError('class %s not found' % cls)
        ind = len(lines[m]) - len(lines[m].lstrip())
        start = m + 1
        end = len(lines)
        for j in range(m + 1, len(lines)):
            l2 = lines[j]
            if l2.strip() and not l2.lstrip().startswith('#') and (len(l2) - len(l2.lstrip())) <= ind:
                end = j
                break
    pat = re.compile(r'^(\s*)(?:cdef|cpdef|def)\s+(?:[^()=]*?[\s\*])?%s\s*\(' % re.escape(name))
    for i in range(start, end):
        m = pat.match(lines[i])
        if m and not lines[i].lstrip().startswith('#'):
            ind = len(m.group(1))
            # header until paren depth 0 and trailing ':'
            j = i
            depth = 0
            hdr = ''
            while True:
                l2 = strip_comment(lines[j]).rstrip()
                hdr += ' ' + l2.strip().rstrip('\\')
                depth += l2.count('(') - l2.count(')')
                if depth <= 0 and l2.rstrip().endswith(':'):
                    break
                j += 1
            body = []
            k = j + 1
            while k < len(lines):
                l2 = lines[k]
                if l2.strip() and (len(l2) - len(l2.lstrip())) <= ind and not l2.lstrip().startswith('#'):
                    break
                body.append(l2)
                k += 1
            return hdr.strip(), body, ind, (i + 1, k)
    raise KeyError('function %s not found' % qual)


def _conv_header(hdr):
    m = re.match(r'^(?:cdef|cpdef|def)\s+(.*?)\((.*)\)\s*(?:noexcept)?\s*(?:nogil)?\s*(?:except\s*[^:]*)?\s*:\s*$', hdr)
    if not m:
        raise SyntaxError('cannot parse header: ' + hdr)
    pre, args = m.group(1).strip(), m.group(2)
    name = re.split(r'[\s\*]+', pre)[-1]
    names = [_arg_name(a) for a in _split_args(args)]
    return name, names


_CAST = re.compile(r'<\s*' + CTYPE + r'(?:\s*\*+)?\s*>')
_DECL = re.compile(r'^(?P<ind>\s*)cdef\s+(?P<type>' + CTYPE + r')(?P<rest>.*)$')


def _conv_addr(code):
    # &name[...][...]  / &name
    def rep(m):
        nm = m.group(1)
        idx = m.group(2) or ''
        parts = re.findall(r'\[((?:[^\[\]]|\[[^\]]*\])*)\]', idx)
        return 'addr(%s%s)' % (nm, ''.join(', ' + p for p in parts))
    return re.sub(r'(?:(?<=^)|(?<=[\(,=\[:+\-*/])|(?<=[\(,=\[:+\-*/]\s)|(?<=[\(,=\[:+\-*/]\s\s))&\s*([A-Za-z_][\w\.]*)((?:\[(?:[^\[\]]|\[[^\]]*\])*\])*)', rep, code)


def _conv_decl(line, cells=frozenset()):
    """returns list of python lines (possibly empty) for a `cdef <type> ...` declaration line, or None if not a declaration"""
    m = _DECL.match(line)
    if not m:
        return None
    ind, rest = m.group('ind'), m.group('rest').strip()
    typ_suffix = ''
    # array-typed:  cdef double complex[3][3] name   |  cdef double complex name[3]
    am = re.match(r'^((?:\[\s*\w+\s*\])+)\s*(\w+)\s*$', rest)
    if am:
        dims = re.findall(r'\[\s*(\w+)\s*\]', am.group(1))
        return ['%s%s = CArr((%s,), %r)' % (ind, am.group(2), ', '.join(dims), am.group(2))]
    rest = rest.lstrip('*').strip()
    out = []
    for part in _split_args(rest):
        part = part.strip().lstrip('*').strip()
        am = re.match(r'^(\w+)\s*((?:\[\s*\w+\s*\])+)\s*$', part)
        if am:
            dims = re.findall(r'\[\s*(\w+)\s*\]', am.group(2))
            out.append('%s%s = CArr((%s,), %r)' % (ind, am.group(1), ', '.join(dims), am.group(1)))
            continue
        if '=' in part and not re.match(r'^\w+\s*==', part):
            nm, val = part.split('=', 1)
            if nm.strip() in cells:
                out.append('%s%s = Ref(%s)' % (ind, nm.strip(), val.strip()))
            else:
                out.append('%s%s = %s' % (ind, nm.strip(), val.strip()))
        elif part in cells:
            out.append('%s%s = Ref(None)' % (ind, part))
        # pure declaration: nothing
    return out


def _addr_scalars(body_lines):
    """locals whose address is taken as a whole (`&name`, no index) and that are declared as scalars in this body: they become Ref cells"""
    text = '\n'.join(strip_comment(l) for l in body_lines)
    taken = set(re.findall(r'&\s*([A-Za-z_]\w*)\b(?!\s*[\[\.\w])', text))
    declared = set()
    for m in re.finditer(r'^\s*cdef\s+' + CTYPE + r'\s*\**\s*([^\n=\[]*?)\s*(?:=.*)?$', text, flags=re.M):
        for nm in m.group(1).split(','):
            nm = nm.strip().lstrip('*').strip()
            if re.match(r'^[A-Za-z_]\w*$', nm):
                declared.add(nm)
    return taken & declared


def _typed_str_assignments(body_lines, out):
    """names declared `cdef str NAME`: plain assignments to them go through _cstr (Cython's implicit type test)"""
    names = set()
    for l in body_lines:
        m = re.match(r'^\s*cdef\s+str\s+(\w+)\s*(?:=.*)?$', strip_comment(l))
        if m:
            names.add(m.group(1))
    if not names:
        return out
    res = []
    for ln in out:
        m = re.match(r'^(\s*)(\w+)\s*=(?!=)\s*(.+)$', ln)
        if m and m.group(2) in names and not m.group(3).lstrip().startswith(('"', "'", 'f"', "f'")):
            ln = '%s%s = _cstr(%s)' % (m.group(1), m.group(2), m.group(3))
        res.append(ln)
    return res


def translit_body(body_lines):
    cells = _addr_scalars(body_lines)
    out = _typed_str_assignments(body_lines, _translit_body(body_lines, cells))
    if not cells:
        return out
    res = []
    for ln in out:
        m = re.match(r'^(\s*)(\w+) = Ref\(', ln)
        decl_name = m.group(2) if m and m.group(2) in cells else None
        for nm in cells:
            if nm == decl_name:
                continue
            ln = re.sub(r'addr\(%s\)' % nm, '@@CELL_%s@@' % nm, ln)
            ln = re.sub(r'(?<![\w\.])%s\b(?!\s*=\s*Ref\()' % nm, nm + '.v', ln)
            ln = ln.replace('@@CELL_%s@@' % nm, nm)
        res.append(ln)
    return res


def _translit_body(body_lines, cells=frozenset()):
    # join continuation lines (backslash or open parens) so that declarations can be handled as one logical line
    logical = []
    buf = ''
    depth = 0
    for ln in body_lines:
        code = strip_comment(ln)
        stripped = code.rstrip()
        if not buf:
            buf = stripped
        else:
            buf += ' ' + stripped.strip()
        depth += code.count('(') + code.count('[') + code.count('{') - code.count(')') - code.count(']') - code.count('}')
        if stripped.endswith('\\'):
            buf = buf[:-1]
            continue
        if depth > 0:
            continue
        depth = 0
        logical.append(buf)
        buf = ''
    if buf:
        logical.append(buf)
    out = []
    in_cdef_block = None
    for ln in logical:
        if not ln.strip():
            continue
        ind = len(ln) - len(ln.lstrip())
        if in_cdef_block is not None:
            if ind > in_cdef_block:
                d = _conv_decl(' ' * in_cdef_block + 'cdef ' + ln.strip(), cells)
                if d is None:
                    raise SyntaxError('cdef block line not understood: ' + ln)
                out += d
                continue
            in_cdef_block = None
        if re.match(r'^\s*cdef\s*:\s*$', ln):
            in_cdef_block = ind
            continue
        if re.match(r'^\s*(from\s+\S+\s+)?cimport\b', ln):
            continue
        d = _conv_decl(ln, cells)
        if d is not None:
            out += [_post(x) for x in d]
            continue
        ln = re.sub(r'^(\s*)with\s+(?:nogil|gil)\s*:', r'\1if True:', ln)
        out.append(_post(ln))
    return out


_INTCAST = re.compile(r'<\s*(?:unsigned\s+|signed\s+)?(?:int|long|long\s+long|short|char|size_t|Py_ssize_t|ssize_t)\s*>\s*([A-Za-z_][\w\.]*(?:\([^()]*\))?|\([^()]*\))')


def _cint(v):
    """C integer cast: identity on symbolic values (the symbolic executor works over the reals and the integer-valuedness is a path condition of the caller), int() on python floats"""
    return int(v) if isinstance(v, float) else v


_VIEWCAST = re.compile(r'<\s*' + CTYPE + r'\s*\[\s*:\s*([^\]]+?)\s*\]\s*>\s*([A-Za-z_][\w\.]*)')


def _cstr(v):
    """assignment to a `cdef str` variable: Cython raises TypeError for anything but str / None"""
    if v is None or isinstance(v, str):
        return v
    if isinstance(v, (bool, int, float, complex, bytes, list, tuple, dict, set, frozenset)) or type(v).__name__ == 'Q':
        raise TypeError('Expected str, got %s' % type(v).__name__)
    return v          # a harness object standing for a string (symbolic string classes of the checks)


def _memview_cast(ptr, n):
    """`<T[:n]> ptr`: Cython raises ValueError for a non-positive extent"""
    try:
        k = int(n) if isinstance(n, (int, float)) else int(n.const())
    except Exception:
        return ptr
    if k <= 0:
        raise ValueError('Invalid shape in axis 0: %d.' % k)
    return ptr


def _post(ln):
    ln = _VIEWCAST.sub(lambda m: '_memview_cast(%s, %s)' % (m.group(2), m.group(1)), ln)
    ln = _INTCAST.sub(lambda m: '_cint(%s)' % m.group(1), ln)
    ln = _CAST.sub('', ln)
    ln = _conv_addr(ln)
    ln = re.sub(r'\bNULL\b', 'None', ln)
    ln = re.sub(r'\bsizeof\(([^)]*)\)', '_SIZEOF_UNIT', ln)      # a marker unit (see SIZEOF_UNIT): allocation stubs divide by it and require a whole number of elements
    return ln


def translit_function(src, qual, newname=None):
    hdr, body, ind, span = find_function(src, qual)
    name, args = _conv_header(hdr)
    lines = translit_body(body)
    # re-indent relative
    base = None
    res = []
    for ln in lines:
        k = len(ln) - len(ln.lstrip())
        if base is None:
            base = k
        res.append('    ' + ln[base:] if len(ln) >= base else ln)
    if not res:
        res = ['    pass']
    code = 'def %s(%s):\n' % (newname or name, ', '.join(args)) + '\n'.join(res) + '\n'
    return code, span


RUNTIME = {'CArr': CArr, 'Ptr': Ptr, 'Ref': Ref, 'addr': addr, 'ExtentError': ExtentError, 'prange': range, '_cint': _cint, '_cstr': _cstr, '_memview_cast': _memview_cast, '_loop_tick': _loop_tick, '_SIZEOF_UNIT': SIZEOF_UNIT}
