"""Exact power series (in e) of Hansen coefficients X^{n,m}_k(e) with Fractions, truncated at order N (independent oracle for C08).
X^{n,m}_k = (1+b^2)^{-(n+1)} [z^0] z^{m-k} (1-b z)^{n+1-m} (1-b/z)^{n+1+m} exp(k e (z-1/z)/2),  b = e/(1+sqrt(1-e^2))."""
from fractions import Fraction as Fr
from math import comb, factorial
from functools import lru_cache
N = 24


def smul(a, b):
    r = [Fr(0)] * (N + 1)
    for i, x in enumerate(a):
        if x == 0:
            continue
        for j, y in enumerate(b):
            if i + j > N:
                break
            if y:
                r[i + j] += x * y
    return r


def sadd(a, b):
    return [x + y for x, y in zip(a, b)]


def sscale(a, c):
    return [x * c for x in a]


def spow(a, n):
    r = [Fr(1)] + [Fr(0)] * N
    for _ in range(n):
        r = smul(r, a)
    return r


def sinv(a):
    r = [Fr(0)] * (N + 1)
    r[0] = 1 / a[0]
    for n in range(1, N + 1):
        s = sum(a[k] * r[n - k] for k in range(1, n + 1))
        r[n] = -s / a[0]
    return r


def binom_series(alpha, x):
    r = [Fr(1)] + [Fr(0)] * N
    term = [Fr(1)] + [Fr(0)] * N
    c = Fr(1)
    for k in range(1, N + 1):
        c = c * (alpha - (k - 1)) / k
        term = smul(term, x)
        r = sadd(r, sscale(term, c))
    return r


E = [Fr(0), Fr(1)] + [Fr(0)] * (N - 1)
E2 = smul(E, E)
SQ = binom_series(Fr(1, 2), sscale(E2, -1))
BETA = smul(E, sinv(sadd([Fr(1)] + [Fr(0)] * N, SQ)))
_BP = None


def gbinom(a, j):
    r = Fr(1)
    for i in range(j):
        r = r * (a - i) / (i + 1)
    return r


@lru_cache(maxsize=None)
def _bp():
    out = [[Fr(1)] + [Fr(0)] * N]
    for j in range(1, N + 1):
        out.append(smul(out[-1], BETA))
    return out


@lru_cache(maxsize=None)
def _bessel(k, s):
    ke2 = sscale(E, Fr(k, 2))
    sa = abs(s)
    r = [Fr(0)] * (N + 1)
    p = spow(ke2, sa)
    ke2sq = smul(ke2, ke2)
    for t in range(0, (N - sa) // 2 + 1):
        r = sadd(r, sscale(p, Fr((-1) ** t, factorial(t) * factorial(t + sa))))
        p = smul(p, ke2sq)
    if s < 0 and sa % 2 == 1:
        r = sscale(r, -1)
    return r


@lru_cache(maxsize=None)
def hansen(n, m, k):
    a = n + 1 - m
    b = n + 1 + m
    bp = _bp()
    tot = [Fr(0)] * (N + 1)
    for i in range(N + 1):
        ca = gbinom(a, i) * (-1) ** i
        if ca == 0:
            continue
        for j in range(N + 1 - i):
            cb = gbinom(b, j) * (-1) ** j
            if cb == 0:
                continue
            s = -(m - k) - i + j
            if abs(s) > N or i + j + abs(s) > N:
                continue
            tot = sadd(tot, sscale(smul(bp[i + j], _bessel(k, s)), ca * cb))
    pref = binom_series(Fr(-(n + 1)), smul(BETA, BETA))
    return smul(pref, tot)


@lru_cache(maxsize=None)
def G2(l, p, q):
    g = hansen(-(l + 1), l - 2 * p, l - 2 * p + q)
    return smul(g, g)


def closed_form_P(l, m):
    """X_0^{-(l+1),m}(e) = (1-e^2)^{-(l-1/2)} * P(e),  P(e) = sum_j C(l-1, 2j+|m|) C(2j+|m|, j) (e/2)^(2j+|m|)  (coefficients by power of e)"""
    m = abs(m)
    out = {}
    j = 0
    while 2 * j + m <= l - 1:
        out[2 * j + m] = Fr(comb(l - 1, 2 * j + m) * comb(2 * j + m, j), 2 ** (2 * j + m))
        j += 1
    return out


def selftest():
    g = hansen(-3, 2, 3)
    assert g[1] == Fr(7, 2) and g[3] == Fr(-123, 16) and g[5] == Fr(489, 128), g[:6]
    g = hansen(-3, 2, 2)
    assert g[0] == 1 and g[2] == Fr(-5, 2) and g[4] == Fr(13, 16)
    # closed form cross-check against the series for k = 0
    for l in (2, 3, 4, 5):
        for m in range(-l, l + 1, 2):
            P = closed_form_P(l, m)
            ps = [P.get(k, Fr(0)) for k in range(N + 1)]
            ser = smul(ps, binom_series(Fr(-(2 * l - 1), 2), sscale(E2, -1)))
            assert ser == hansen(-(l + 1), m, 0), (l, m)
    return True


if __name__ == '__main__':
    import time
    t = time.time()
    print(selftest(), time.time() - t)
    t = time.time()
    G2(7, 3, 5)
    print(time.time() - t)
