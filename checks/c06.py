"""C06 — the radial solver is total, memory-safe and leaves its inputs intact: control-skeleton symbolic execution of cf_radial_solver / radial_solver,
failure protocol of RadialSolverSolution, extent-checked kernels, and replay of every bad exit on the real compiled solver."""
import sys, os, ast, json, subprocess, tempfile, re
sys.path.insert(0, os.path.dirname(os.path.dirname(os.path.abspath(__file__))))
import z3
from fractions import Fraction as Fr
from symx.values import Q, B, CTX, eq_goal
from symx import loader, solve, replay, pyx2py, skeleton
from symx.pyx2py import CArr, Ptr
from symx.solve import Obligation, discharge, reach_twin, TIER, REPO, VERIF

PID = 'C06'
SOLVER = 'TidalPy/RadialSolver/solver.pyx'


def real_solver(cfg, timeout=600):
    """run the real compiled radial_solver in a subprocess (crash = non-zero return code without a result line)"""
    with tempfile.TemporaryDirectory(prefix='verif_c06_') as td:
        env = dict(os.environ)
        env['PYTHONPATH'] = REPO
        p = subprocess.run([replay.VENV_PY, os.path.join(VERIF, 'replay', 'c06_replay.py')], input=json.dumps(cfg), capture_output=True, text=True, cwd=td, env=env, timeout=timeout)
    if '@@RESULT@@' not in p.stdout:
        return {'crashed': True, 'returncode': p.returncode, 'stderr': p.stderr[-400:]}
    out = json.loads(p.stdout.split('@@RESULT@@')[-1])
    out['crashed'] = False
    return out


# message substring of a raise site -> configuration that reaches it on the real solver
RECIPES = [
    ('Requested solver', {'solve_for': ['bogus']}),
    ('Unsupported number of solvers', {'solve_for': ['tidal'] * 6}),
    ('three layer slices', {'layers': [['solid', True, False], ['solid', True, False]], 'break': 'thin_layer'}),
    ('NaNs encountered', {'break': 'nan_density'}),
    ('3 radial slices per layer', {'slices_per_layer': 3}),
    ('not supported. Currently supported types', {'break': 'bad_layer_type'}),
    ('Unsupported integration method', {'break': 'bad_method'}),
]


def recipe_for(note):
    for sub, cfg in RECIPES:
        if sub in note:
            return dict(cfg)
    return None


def load_fn(name):
    src = open(os.path.join(REPO, SOLVER)).read()
    code, span = pyx2py.translit_function(src, name)
    loader.ENCODED.append({'file': SOLVER, 'function': name + ' (control skeleton)', 'sha256_16': solve.sha_of('\n'.join(src.split('\n')[span[0] - 1:span[1]])), 'lines': '%d-%d' % span,
                           'via': 'pyx2py transliteration + symx.skeleton'})
    return ast.parse(code).body[0], code


def job_wrapper_sizes():
    """radial_solver (Python-visible wrapper): the guards executed before any C-level access force every array to the length of the radius array and every per-layer tuple to the number
    of layers. Sizes are z3 Ints; asserts / `if ...: raise` guards up to the first allocation are the path condition."""
    fn, code = load_fn('radial_solver')
    arrays = ['radius_array', 'density_array', 'gravity_array', 'bulk_modulus_array', 'complex_shear_modulus_array']
    tuples = ['layer_types', 'is_static_by_layer', 'is_incompressible_by_layer', 'upper_radius_by_layer']
    env = {}
    SZ = {a: z3.Int('size_' + a) for a in arrays}
    LN = {t: z3.Int('len_' + t) for t in tuples}

    def ev(e):
        if isinstance(e, ast.Attribute) and e.attr == 'size' and isinstance(e.value, ast.Name) and e.value.id in SZ:
            return SZ[e.value.id]
        if isinstance(e, ast.Call) and getattr(e.func, 'id', None) == 'len' and isinstance(e.args[0], ast.Name) and e.args[0].id in LN:
            return LN[e.args[0].id]
        if isinstance(e, ast.Name) and e.id in env:
            return env[e.id]
        if isinstance(e, ast.Constant) and isinstance(e.value, int):
            return z3.IntVal(e.value)
        if isinstance(e, ast.Compare) and len(e.ops) == 1:
            l_, r_ = ev(e.left), ev(e.comparators[0])
            if l_ is None or r_ is None:
                return None
            return {ast.Eq: l_ == r_, ast.NotEq: l_ != r_, ast.Lt: l_ < r_, ast.LtE: l_ <= r_, ast.Gt: l_ > r_, ast.GtE: l_ >= r_}.get(type(e.ops[0]))
        if isinstance(e, ast.BoolOp):
            vs = [ev(v) for v in e.values]
            if any(v is None for v in vs):
                return None
            return z3.And(*vs) if isinstance(e.op, ast.And) else z3.Or(*vs)
        if isinstance(e, ast.UnaryOp) and isinstance(e.op, ast.Not):
            v = ev(e.operand)
            return None if v is None else z3.Not(v)
        return None
    pc = [v >= 0 for v in list(SZ.values()) + list(LN.values())]
    guards = []
    for st in fn.body:
        txt = ast.unparse(st)
        if 'allocate_mem' in txt or isinstance(st, (ast.For, ast.While)) or 'cf_radial_solver' in txt:
            break
        if isinstance(st, ast.Assign) and len(st.targets) == 1 and isinstance(st.targets[0], ast.Name):
            v = ev(st.value)
            if v is not None:
                env[st.targets[0].id] = v
        elif isinstance(st, ast.Assert):
            c = ev(st.test)
            if c is not None:
                pc.append(c)
                guards.append(txt[:80])
        elif isinstance(st, ast.If) and st.body and isinstance(st.body[0], ast.Raise) and not st.orelse:
            c = ev(st.test)
            if c is not None:
                pc.append(z3.Not(c))
                guards.append(txt.split('\n')[0][:80])
    goal = z3.And(*[SZ[a] == SZ['radius_array'] for a in arrays[1:]] + [LN[t] == LN['layer_types'] for t in tuples[1:]])

    def rp(md):
        short = {'density_array': 'density', 'gravity_array': 'gravity', 'bulk_modulus_array': 'bulk', 'complex_shear_modulus_array': 'shear'}
        tshort = {'is_static_by_layer': 'is_static', 'is_incompressible_by_layer': 'is_incompressible', 'upper_radius_by_layer': 'upper_radius'}
        bad_arr = [a for a in arrays[1:] if md.get('size_' + a) != md.get('size_radius_array')]
        bad_tup = [t for t in tuples[1:] if md.get('len_' + t) != md.get('len_layer_types')]
        outs = []
        for a in bad_arr:
            r = real_solver({'layers': [['solid', True, False], ['solid', True, False]], 'truncate': short[a]})
            outs.append((a, 'CRASHED' if r.get('crashed') else r.get('exception'), r.get('success')))
        for t in bad_tup:
            r = real_solver({'layers': [['solid', True, False], ['solid', True, False]], 'short_tuple': tshort[t]})
            outs.append((t, 'CRASHED' if r.get('crashed') else r.get('exception'), r.get('success')))
        accepted = [o for o in outs if o[1] is None or o[1] == 'CRASHED']
        return bool(accepted), 'real radial_solver called with a too-short %s: (argument, exception, success) = %r' % (', '.join(bad_arr + bad_tup), outs)
    res = [discharge(Obligation('radial_solver: the guards before the first allocation (%d found) force all five arrays to one length and all four per-layer tuples to one length' % len(guards), goal, pc,
                                with_axioms=False, with_dens=False, replay=replay.api_or_witness([SOLVER], rp, 'the size guards of radial_solver do not force equal lengths (current source)'), key='wrapper:sizes'))]
    res.append({'name': 'wrapper sizes [reachability twin]', 'key': 'twin', 'twin': True, 'verdict': solve.sat_check(list(pc), 60000), 'solver_s': 0.0, 'info': {'guards': guards}})
    return {'results': res, 'encoded': loader.ENCODED, 'label': 'wrapper sizes'}


# ------------------------------------------------------------------------------------------------ whole cf_radial_solver over symbolic data with stub kernels (buffer discipline)

def real_malformed(solve_for, nondim):
    """REAL radial_solver with the malformed solve_for: are the caller's arrays intact after the call?"""
    code = (
        "import sys, json\n"
        "sys.modules['diffeqpy'] = None\n"
        "import numpy as np\n"
        "from TidalPy.RadialSolver import radial_solver\n"
        "from TidalPy.utilities.spherical_helper import calculate_mass_gravity_arrays\n"
        "N = 40\n"
        "r = np.linspace(0.1, 6.0e6, N); rho = np.full(N, 3500.)\n"
        "vol, mass, g = calculate_mass_gravity_arrays(r, rho)\n"
        "K = np.full(N, 1e11); mu = np.full(N, 5e10 + 1e8j)\n"
        "orig = [a.copy() for a in (r, rho, g, K, mu)]\n"
        "out = {}\n"
        "try:\n"
        "    s = radial_solver(r, rho, g, K, mu, 1e-5, 3500., ('solid',), (False,), (False,), (6.0e6,), degree_l=2, solve_for=%r, nondimensionalize=%r)\n"
        "    out['returned'] = bool(s.success)\n"
        "except Exception as e:\n"
        "    out['raised'] = '%%s: %%s' %% (type(e).__name__, str(e)[:80])\n"
        "out['changed'] = [nm for nm, a, o in zip(('radius', 'density', 'gravity', 'bulk', 'shear'), (r, rho, g, K, mu), orig) if not np.allclose(a, o, rtol=1e-12)]\n"
        "out['radius_top'] = float(r[-1])\n"
        "print('@@RESULT@@' + json.dumps(out))\n") % (solve_for, bool(nondim))
    import subprocess, tempfile
    with tempfile.TemporaryDirectory(prefix='verif_c06_') as td:
        p = subprocess.run([replay.VENV_PY, '-c', code], capture_output=True, text=True, cwd=td, env=dict(os.environ, PYTHONPATH=REPO), timeout=900)
    if '@@RESULT@@' not in p.stdout:
        crashed = p.returncode < 0 or p.returncode > 1
        return crashed, 'real radial_solver(solve_for=%r): the interpreter ended with return code %s %s' % (solve_for, p.returncode, p.stderr[-200:])
    out = json.loads(p.stdout.split('@@RESULT@@')[-1])
    return bool(out['changed']), 'real radial_solver(solve_for=%r, nondimensionalize=%r): %s' % (solve_for, bool(nondim), json.dumps(out))


def job_whole(stack, nondim, solve_for=('tidal', 'loading'), malformed=None):
    """The WHOLE transliterated cf_radial_solver is executed for a concrete stack (types / static flags; 4 + k slices per layer; concrete rational radii, every other number a symbol)
    with recording stubs for the kernels it calls and for the CyRK solver object. Indices and sizes are concrete, so every buffer access is checked against the extent it was
    allocated / declared with, and the data flow of the integration phase is compared with what it must be."""
    import c02
    fn, code = load_fn('cf_radial_solver')
    L = len(stack)
    nsl = [4 + i for i in range(L)]
    total = sum(nsl)
    starts = [sum(nsl[:i]) for i in range(L)]
    bounds = [Fr(i + 1) for i in range(L)]
    radius = CArr((total,), 'radius_array')
    k = 0
    for li in range(L):
        lo = Fr(li) if li else Fr(1, 10)
        for j in range(nsl[li]):
            radius.data[k] = Q(lo + (bounds[li] - lo) * (Fr(j, nsl[li] - 1) if li == 0 else Fr(j + 1, nsl[li])))     # strictly increasing; the last point of a layer is its upper radius
            k += 1

    def sym_arr(name, cplx=False):
        a = CArr((total,), name)
        for i in range(total):
            a.data[i] = Q.csym('%s_%d' % (name, i)) if cplx else Q.sym('%s_%d' % (name, i))
        return a
    density, gravity, bulk, shear = sym_arr('rho'), sym_arr('g'), sym_arr('K'), sym_arr('mu')
    nsols = [c02.nsol(t, st) for (t, st, inc) in stack]
    rec = {'alloc': [], 'freed': [], 'start': [], 'iface': [], 'solver': [], 'surface': [], 'rev': [], 'collapse': [], 'love': [], 'nondim': 0, 'redim': 0, 'redim_rf': 0}
    cNAN, rNAN = Q.sym('cmplx_NAN'), Q.sym('NAN')

    def allocate_mem(n, name=''):
        v_ = Fr(n) if isinstance(n, int) else Q.of(n).const()
        if v_.denominator != 1 or v_ % pyx2py.SIZEOF_UNIT != 0 or v_ < 0:
            e_ = pyx2py.ExtentError('allocate_mem(%s): the requested size %s is not (element count) * sizeof(element type)' % (name, v_ / pyx2py.SIZEOF_UNIT))
            e_.src_declared = True
            e_.alloc_fault = True           # raised by the allocation stub on behalf of the source statement that computed the size
            raise e_
        n = int(v_ // pyx2py.SIZEOF_UNIT)
        a = CArr((n,), str(name).split(' ')[0])
        a.src_declared = True            # the size is the source's own allocation expression
        rec['alloc'].append(a)
        return a

    def PyMem_Free(pt):
        base = pt.base if isinstance(pt, Ptr) else pt
        rec['freed'].append(base)

    def find_start(lt, st, inc, use_kamata, freq, r_lo, rho_lo, K_lo, mu_lo, degree_l, Gv, maxy, init, check):
        li = 0
        for j in range(nsols[li]):
            for y in range(2 * nsols[li]):
                init[j * maxy + y] = Q.csym('init_L0_s%d_y%d' % (j, y))
        rec['start'].append(dict(lt=lt, st=st, inc=inc, r_lo=r_lo, rho_lo=rho_lo, K_lo=K_lo, mu_lo=mu_lo))

    def iface(upp, init, n_below, n_here, maxy, ltb, stb, incb, lt, st, inc, ig, sld, Gv):
        li = len(rec['iface']) + 1
        rec['iface'].append(dict(upp=[upp[j * maxy + y] for j in range(n_below) for y in range(2 * n_below)], n_below=n_below, n_here=n_here, below=(ltb, stb, incb), here=(lt, st, inc), ig=ig, sld=sld))
        for j in range(n_here):
            for y in range(2 * n_here):
                init[j * maxy + y] = Q.csym('init_L%d_s%d_y%d' % (li, j, y))

    class Solver:
        def __init__(self, li, a):
            self.li, self.args, self.success, self.message, self.calls, self.y0 = li, a, True, '', 0, [a[14]]
            self.solution_y_ptr = None

        def change_y0_pointer(self, pt, auto_reset_state=False):
            self.y0.append(pt)

        def _solve(self, reset=True):
            n = nsl[self.li] * 4 * nsols[self.li]
            a = CArr((n,), 'solver_solution')
            for i in range(n):
                a.data[i] = Q.sym('sol_L%d_c%d_%d' % (self.li, self.calls, i))
            # snapshot of the initial condition the solver would start from: the 2*num_ys reals at its current y0 pointer
            y0 = self.y0[-1]
            self.snap = getattr(self, 'snap', []) + [[y0[i] for i in range(4 * nsols[self.li])]]
            self.sols = getattr(self, 'sols', []) + [a]
            self.solution_y_ptr = a
            self.calls += 1

    def build_solver(*a):
        sv = Solver(len(rec['solver']), a)
        rec['solver'].append(sv)
        return sv

    def st_surface(cv, info, bc, upp, gs, Gv, num_sols, maxy, ytype_i, lt, st, inc):
        for j in range(num_sols):
            cv[j] = Q.csym('Csurf_t%d_%d' % (ytype_i, j))
        info.v = 0
        rec['surface'].append(ytype_i)

    def st_rev(cv, cv_above, upp, *a):
        kk = len(rec['rev'])
        for j in range(a[-2]):
            cv[j] = Q.csym('Cint%d_%d' % (kk, j))
        rec['rev'].append(a)
    real_col, _ = loader.load_pyx('TidalPy/RadialSolver/collapse/collapse.pyx', ['cf_collapse_layer_solution'], {})

    class Sol:
        def __init__(self, total_slices, solve_for, num_ytypes):
            self.full_solution_ptr = CArr((int(total_slices) * 6 * int(num_ytypes),), 'full_solution')
            self.complex_love_ptr = CArr((3 * int(num_ytypes),), 'complex_love')
            self.success, self.message = None, None
            rec['solution'] = self
    if malformed is not None:
        # malformed-argument runs use the REAL constructor of the solution object (its memoryview casts raise for an empty extent, like Cython's)
        ctor, _ = loader.load_pyx(SOLVER, ['RadialSolverSolution.__init__'], {'allocate_mem': allocate_mem, 'MAX_NUM_Y': 6, 'NAN': rNAN})

        class Sol:
            def __init__(self, *a):
                rec['solution'] = self
                ctor['RadialSolverSolution.__init__'](self, *a)

    def nd_stub(kind):
        def f(*a):
            rec[kind] += 1
        return f
    # the radial-function re-dimensionalisation is bound through the kernel's OWN signature (names and defaults read from nondimensional.pyx): a dropped optional argument silently
    # takes its default
    import re as _re
    nd_src = open(os.path.join(REPO, 'TidalPy/utilities/dimensions/nondimensional.pyx')).read()
    hdr_ = pyx2py.find_function(nd_src, 'cf_redimensionalize_radial_functions')[0]
    sig_rf = []
    for a_ in pyx2py._split_args(_re.match(r'^\s*(?:cdef|cpdef|def)\s+.*?\((.*)\)', ' '.join(hdr_.split())).group(1)):
        nm_, _, df_ = a_.partition('=')
        sig_rf.append((nm_.replace('*', ' ').split()[-1], df_.strip() or None))

    def redim_rf_stub(*a, **k):
        rec['redim_rf'] += 1
        bound = {nm_: (int(df_) if df_ is not None else None) for nm_, df_ in sig_rf}
        for (nm_, _), v_ in zip(sig_rf, a):
            bound[nm_] = v_
        bound.update(k)
        rec['redim_rf_args'] = [bound[nm_] for nm_, _ in sig_rf]
    G = Q.sym('G')
    ns = {'G': G, 'MAX_NUM_Y': 6, 'MAX_NUM_Y_REAL': 12, 'NAN': rNAN, 'cmplx_NAN': cNAN, 'PyMem_Free': PyMem_Free, 'allocate_mem': allocate_mem, 'RadialSolverSolution': Sol,
          'cf_apply_surface_bc': st_surface, 'cf_build_dblcmplx': lambda a, b: Q.of(a) + Q(0, 1) * Q.of(b), 'cf_build_solver': build_solver,
          'cf_collapse_layer_solution': real_col['cf_collapse_layer_solution'], 'cf_find_num_solutions': lambda t, st, inc: c02.nsol(t, st), 'cf_find_starting_conditions': find_start,
          'cf_non_dimensionalize_physicals': nd_stub('nondim'), 'cf_redimensionalize_physicals': nd_stub('redim'), 'cf_redimensionalize_radial_functions': redim_rf_stub,
          'cf_solve_upper_y_at_interface': iface, 'cf_top_to_bottom_interface_bc': st_rev, 'find_love_cf': lambda out, surf, gs: rec['love'].append([surf[i] for i in range(6)]),
          'isnan': lambda v: False, 'isinf': lambda v: False}
    ns.update(pyx2py.RUNTIME)
    ns.update({k_: v_ for k_, v_ in loader.base_ns().items() if k_ not in ns})
    mod = ast.Module(body=[loader._Rewrite(code).visit(fn)], type_ignores=[])
    ast.fix_missing_locations(mod)
    exec(compile(mod, SOLVER + ':cf_radial_solver', 'exec'), ns)
    f = ns['cf_radial_solver']
    # with nondimensionalize the scaling kernels are stubs (their own contracts are C03): radii and layer bounds are given already scaled (outer radius 1), so radius_planet = 1 and the
    # layer search compares like with like
    if nondim:
        Rtop = radius.data[total - 1]
        for i in range(total):
            radius.data[i] = Q.of(radius.data[i]) / Rtop
        upper = [b / Fr(L) for b in bounds]
    else:
        upper = list(bounds)
    pyx2py.VIOLATIONS.clear()
    pyx2py.STRICT[0] = False
    raised = None
    try:
        sol = f(total, radius, density, gravity, bulk, shear, Q.sym('w'), Q.sym('rho_bulk'), L, [t for (t, st, inc) in stack], [st for (t, st, inc) in stack], [inc for (t, st, inc) in stack],
                [Q(u) for u in upper], 2, solve_for, False, 'rk45', Q.sym('rtol'), Q.sym('atol'), True, 500000, 500, 500, Q(0), True, nondim, False, False)
    except (TypeError, ValueError, AttributeError, NotImplementedError, RuntimeError) as e:
        if malformed is None or isinstance(e, pyx2py.ExtentError):
            raise
        raised, sol = e, None
    finally:
        viol = list(pyx2py.VIOLATIONS)
        pyx2py.STRICT[0] = True
    tag = ' / '.join(c02.kname(t, st) for (t, st, inc) in stack) + (' [nondimensionalize]' if nondim else '')
    results = []
    if malformed is not None:
        def rp_mal(md):
            ok_, det_ = real_malformed(solve_for, nondim)
            if ok_:
                return True, det_
            return replay.api_or_witness([SOLVER], lambda md2: real_malformed(solve_for, nondim), 'cf_radial_solver (current source, transliterated, stub kernels) called with solve_for=%r raises %s '
                                         'after %d scaling and %d restoring call(s)' % (solve_for, type(raised).__name__ if raised else 'nothing', rec['nondim'], rec['redim']))(md)
        results.append(discharge(Obligation('cf_radial_solver called with the malformed solve_for=%r (%s)%s: it ends with a Python exception or a solution object, and at that exit every in-place scaling of the '
                                            'caller\'s arrays has been undone' % (solve_for, malformed, ' [nondimensionalize]' if nondim else ''),
                                            z3.And(z3.BoolVal(raised is not None or sol is not None), z3.BoolVal(rec['nondim'] == rec['redim']), z3.BoolVal(not viol)), [], with_axioms=False, with_dens=False,
                                            replay=rp_mal, key='malformed:%s' % malformed)))
        return {'results': results, 'encoded': loader.ENCODED, 'label': 'malformed ' + malformed}

    def ob(name, conds, key, A=()):
        results.append(discharge(Obligation('cf_radial_solver whole run [%s]: %s' % (tag, name), z3.And(*conds) if conds else z3.BoolVal(True), list(A), with_axioms=False, with_dens=False,
                                            replay=lambda md, name=name: (True, 'whole-function run of the transliterated current cf_radial_solver with stub kernels: %s' % name), key='whole:%s' % key)))

    def same(a, b):
        if a is None or b is None:
            return z3.BoolVal(a is b)
        return eq_goal(Q.of(a), Q.of(b))
    ob('every buffer access stays inside the extent the buffer was allocated / declared with (%d allocations)' % len(rec['alloc']), [z3.BoolVal(not viol)], 'extents')
    ob('succeeds, every allocation is released exactly once, scaling and restoring are paired', [z3.BoolVal(sol is rec.get('solution') and sol.success is True),
        z3.BoolVal(all(sum(1 for fr in rec['freed'] if fr is a) == 1 for a in rec['alloc'])), z3.BoolVal(rec['nondim'] == (1 if nondim else 0) and rec['redim'] == (1 if nondim else 0)),
        z3.BoolVal(rec['redim_rf'] == (1 if nondim else 0))], 'protocol')
    if nondim:
        ra = rec.get('redim_rf_args') or [None] * 5
        base_ = ra[0].base if isinstance(ra[0], Ptr) else ra[0]
        ob('the radial functions are re-dimensionalised with the solution buffer, the planet radius and bulk density the arrays were scaled with, the slice count and the number of requested '
           'solution types (arguments bound through the kernel\'s own signature and defaults)',
           [z3.BoolVal(sol is not None and base_ is sol.full_solution_ptr and (not isinstance(ra[0], Ptr) or ra[0].off == 0)), same(ra[1], radius.data[total - 1]) if ra[1] is not None else z3.BoolVal(False),
            same(ra[2], Q.sym('rho_bulk')) if ra[2] is not None else z3.BoolVal(False), z3.BoolVal(ra[3] is not None and int(Q.of(ra[3]).const()) == total),
            z3.BoolVal(ra[4] is not None and int(Q.of(ra[4]).const()) == len(solve_for))], 'redim-rf-args')
    if len(rec['solver']) == L and len(rec['iface']) == L - 1 and len(rec['start']) == 1:
        # storage written by the integration phase = main_storage[layer][solution] (allocation order: main, then per layer: by-solution, then one per solution)
        by_y = [a_ for a_ in rec['alloc'] if a_.name == 'storage_by_y_ptr']
        stor, idx = [], 0
        for li in range(L):
            stor.append(by_y[idx:idx + nsols[li]])
            idx += nsols[li]
        for li in range(L):
            sv = rec['solver'][li]
            ny = 2 * nsols[li]
            a = sv.args
            conds = [z3.BoolVal(a[0:3] == stack[li]), z3.BoolVal(a[3] == nsl[li]), z3.BoolVal(a[4] == 2 * ny), z3.BoolVal(sv.calls == nsols[li]), z3.BoolVal(len(getattr(sv, 'sols', [])) == nsols[li])]
            for pt, arr_ in zip(a[5:10], (radius, density, gravity, bulk, shear)):
                conds.append(z3.BoolVal(isinstance(pt, Ptr) and pt.base is arr_ and pt.off == starts[li]))
            conds.append(z3.And(same(a[13][0], radius.data[starts[li]]), same(a[13][1], radius.data[starts[li] + nsl[li] - 1])))
            ob('layer %d: cf_build_solver receives this layer\'s kind, slice count, 2 x num_ys, the array pointers at the layer start and the radial span' % li, conds, 'solver-args')
            conds = []
            for j in range(nsols[li]):
                # initial condition seen by solve j: re/im interleaved copy of initial_y[j * 6 + y]
                snap = sv.snap[j] if j < len(getattr(sv, 'snap', [])) else [None] * (2 * ny)
                for y in range(ny):
                    want = Q.csym('init_L%d_s%d_y%d' % (li, j, y))
                    conds += [same(snap[2 * y], want.real), same(snap[2 * y + 1], want.imag)]
            ob('layer %d: each solve starts from ITS solution\'s initial vector, real and imaginary parts interleaved (y0 pointer at solution * 12)' % li, conds, 'initial-conditions')
            conds = []
            for j in range(nsols[li]):
                if j >= len(getattr(sv, 'sols', [])):
                    conds.append(z3.BoolVal(False))
                    continue
                if j >= len(stor[li]):
                    conds.append(z3.BoolVal(False))
                    continue
                st_, so_ = stor[li][j], sv.sols[j]
                conds.append(z3.BoolVal(st_.extent == nsl[li] * ny and all(v is not None for v in st_.data)))
                for sl in range(nsl[li]):
                    for y in range(ny):
                        got = st_.data[ny * sl + y] if ny * sl + y < len(st_.data) else None      # a too-small buffer is reported by the extent obligations, not by an IndexError here
                        if got is not None:
                            conds.append(same(got, Q.of(so_.data[2 * ny * sl + 2 * y]) + Q(0, 1) * Q.of(so_.data[2 * ny * sl + 2 * y + 1])))
            ob('layer %d: the storage of every solution is written completely, element [slice, y] = complex(solver[2 num_ys slice + 2y], solver[... + 1]) of THAT solve' % li, conds, 'storage')
        for li in range(1, L):
            c = rec['iface'][li - 1]
            nyb = 2 * nsols[li - 1]
            conds = [z3.BoolVal(c['n_below'] == nsols[li - 1] and c['n_here'] == nsols[li]), z3.BoolVal(c['below'] == stack[li - 1] and c['here'] == stack[li]),
                     same(c['ig'], (gravity.data[starts[li]] + gravity.data[starts[li] - 1]) / 2)]
            for j in range(nsols[li - 1]):
                for y in range(nyb):
                    i_ = nyb * (nsl[li - 1] - 1) + y
                    conds.append(same(c['upp'][j * nyb + y], stor[li - 1][j].data[i_]) if i_ < len(stor[li - 1][j].data) else z3.BoolVal(False))
            ob('interface below layer %d: cf_solve_upper_y_at_interface receives the top-slice values of every solution of the layer below, both layer kinds, and the mean of the two interface gravities' % li,
               conds, 'interface-forward')
        c0 = rec['start'][0]
        ob('innermost layer: cf_find_starting_conditions receives the layer kind and the material values of the FIRST slice',
           [z3.BoolVal((c0['lt'], c0['st'], c0['inc']) == stack[0]), same(c0['r_lo'], radius.data[0]), same(c0['rho_lo'], density.data[0]), same(c0['K_lo'], bulk.data[0]), same(c0['mu_lo'], shear.data[0])],
           'starting-call')
    else:
        ob('one solver per layer, one interface call per interface, one starting-condition call', [z3.BoolVal(False)], 'counts')
    return {'results': results, 'encoded': loader.ENCODED, 'label': 'whole run ' + tag}


def job_skeleton(fname):
    fn, code = load_fn(fname)
    cfg = skeleton.Config(scale_calls=['cf_non_dimensionalize_physicals'], restore_calls=['cf_redimensionalize_physicals'], param_bools=['nondimensionalize', 'raise_on_fail'],
                          flag_names=['error', 'cysolver_setup'])
    ex = skeleton.Executor(fn, cfg)
    exits = ex.run()
    if not exits:
        raise RuntimeError('no exits')
    results = []
    nd = cfg.param_bools['nondimensionalize']
    rof = cfg.param_bools['raise_on_fail']
    # group exits by site
    sites = {}
    for e in exits:
        sites.setdefault((e.kind, e.line, e.note), []).append(e)
    for (kind, line, note), es in sorted(sites.items(), key=lambda kv: kv[0][1]):
        msg = re.sub(r'\s+', ' ', note)[:90]
        # (1) inputs restored: no feasible path reaches this exit with the caller's arrays still scaled
        bad = z3.Or(*[z3.And(*(e.pc + [e.state.scaled])) for e in es]) if es else z3.BoolVal(False)

        def rp(md, note=note, kind=kind):
            c = recipe_for(note)
            if c is None:
                return True, 'static witness only (no replay recipe for this exit): path to `%s` leaves the input arrays scaled' % msg
            span = loader.SPANS.get((SOLVER, fname)) or pyx2py.translit_function(open(os.path.join(REPO, SOLVER)).read(), fname)[1]
            ok_sync, why = replay.compiled_in_sync(SOLVER, span)
            if not ok_sync:
                return True, 'path witness on the CURRENT source: `%s` is reachable with the arrays scaled and no restore on the way; the compiled module is not in sync with solver.pyx (%s), so it is not used as replay target' % (msg, why)
            c['nondimensionalize'] = True
            r = real_solver(c)
            if r.get('crashed'):
                return True, 'real solver crashed the interpreter: %r' % r
            changed = max(r['max_rel_change'])
            return changed > 1e-12, 'real radial_solver(%s): exception=%s, max relative change of the input arrays %.3g (radius[-1] = %r)' % (c, r.get('exception'), changed, r.get('radius_last'))
        results.append(discharge(Obligation('%s exit `%s`: the caller\'s arrays are never left in non-dimensional units' % (fname, msg), z3.Not(bad), [], with_axioms=False, with_dens=False, replay=rp,
                                            key='restore:%s:%s' % (fname, msg[:60]))))
        # (2) every allocation is released on the way to this exit
        leaks = [e for e in es if e.state.live]
        leak_goal = z3.Not(z3.Or(*[z3.And(*e.pc) for e in leaks])) if leaks else z3.BoolVal(True)
        what = sorted({v for e in leaks for v in e.state.live.values()})

        def rp2(md, what=what):
            return True, 'static witness: allocation(s) %s still live at exit `%s` (leak on an error path; not observable as a crash)' % (what, msg)
        results.append(discharge(Obligation('%s exit `%s`: every allocate_mem is matched by a PyMem_Free' % (fname, msg), leak_goal, [], with_axioms=False, with_dens=False, replay=rp2,
                                            key='leak:%s:%s' % (fname, msg[:60]))))
    # (3) failure protocol: a path that sets error = True while raise_on_fail holds must end in a raise
    bad_ret = [e for e in exits if e.kind in ('return', 'fallthrough') and e.state.flags.get('error') is True]
    goal = z3.Not(z3.Or(*[z3.And(*(e.pc + [rof])) for e in bad_ret])) if bad_ret else z3.BoolVal(True)
    results.append(discharge(Obligation('%s: with raise_on_fail every failure path raises (no return with error = True and raise_on_fail)' % fname, goal, [], with_axioms=False, with_dens=False,
                                        replay=lambda md: (True, 'a failure path returns normally although raise_on_fail is set'), key='protocol:raise_on_fail:%s' % fname)))
    # (3b) a failure site that was passed without raising (raise_on_fail off) must leave the error flag set, so that the solution object reports success = False
    silent = [e for e in exits if e.kind in ('return', 'fallthrough') and any(t.startswith('guard-off:raise_on_fail@') for t in e.state.trace) and e.state.flags.get('error') is not True]
    lines_ = sorted({t for e in silent for t in e.state.trace if t.startswith('guard-off:raise_on_fail@')})

    def rp3b(md):
        # public-API replay: a singular surface system (single static-liquid layer at degree 1) must be reported as a failure
        r = real_solver({'layers': [['liquid', True, False]], 'degree_l': 1, 'raise_on_fail': False, 'solve_for': ['tidal']})
        if r.get('crashed'):
            return True, 'real solver crashed: %r' % r
        witness = 'failure site(s) %s passed with raise_on_fail off reach a normal return with error unset (current source)' % lines_
        if r.get('exception'):
            return False, witness + '; the public-API recipe raised %s instead' % r.get('exception')
        bad = bool(r.get('success')) and not r.get('finite', True)
        span = loader.SPANS.get((SOLVER, fname)) or pyx2py.translit_function(open(os.path.join(REPO, SOLVER)).read(), fname)[1]
        if not replay.compiled_in_sync(SOLVER, span)[0]:
            return True, witness + '; compiled module not in sync with solver.pyx, path witness only'
        return bad, witness + '; real radial_solver(single static liquid layer, l=1, raise_on_fail=False): success=%s message=%r finite result=%s' % (r.get('success'), r.get('message'), r.get('finite'))
    results.append(discharge(Obligation('%s: a failure site passed with raise_on_fail off always leaves error = True (the solution reports success = False)' % fname,
                                        z3.Not(z3.Or(*[z3.And(*e.pc) for e in silent])) if silent else z3.BoolVal(True), [], with_axioms=False, with_dens=False, replay=rp3b, key='protocol:error-flag:%s' % fname)))
    # (4) exactly one restore after a scale on every normal return
    multi = [e for e in exits if e.kind == 'return' and e.state.restores > 1]
    results.append(discharge(Obligation('%s: no path restores the arrays more than once' % fname, z3.Not(z3.Or(*[z3.And(*e.pc) for e in multi])) if multi else z3.BoolVal(True), [],
                                        with_axioms=False, with_dens=False, replay=lambda md: (True, 'double re-dimensionalisation'), key='restore:once:%s' % fname)))
    # vacuity: a normal return with a scale and a restore exists
    okp = [e for e in exits if e.kind == 'return' and any(t.startswith('scale@') for t in e.state.trace) and any(t.startswith('restore@') for t in e.state.trace)]
    twin_q = [z3.Or(*[z3.And(*e.pc) for e in okp]) if okp else z3.BoolVal(False)]
    results.append({'name': '%s: a scale ... restore ... return path exists [reachability twin]' % fname, 'key': 'twin', 'twin': True, 'verdict': solve.sat_check(twin_q, 60000) if fname == 'cf_radial_solver' else 'sat',
                    'solver_s': 0.0, 'info': {'exits': len(exits), 'paths': ex.paths}})
    return {'results': results, 'encoded': loader.ENCODED, 'paths': ex.paths, 'label': 'skeleton ' + fname}


def job_solution_object():
    """RadialSolverSolution: with success = False every result accessor returns None"""
    import numpy as np
    names = ['RadialSolverSolution.result', 'RadialSolverSolution.love', 'RadialSolverSolution.k', 'RadialSolverSolution.h', 'RadialSolverSolution.l', 'RadialSolverSolution.__getitem__']

    class Boom:
        def __getattr__(self, a):
            raise RuntimeError('numeric data touched although success is False')
    fns, _ = loader.load_pyx(SOLVER, names, {'np': Boom(), 'MAX_NUM_Y': 6})

    class S:
        success = False
        error_code = -1
        message = 'failed'
        num_ytypes = 2
        ytypes = ('tidal', 'loading')
        ytype_names = ('tidal', 'loading')
        full_solution_view = Boom()
        complex_love_view = Boom()
    results = []
    s = S()
    for q in names:
        nm = q.split('.')[1]
        try:
            if nm == '__getitem__':
                S.result = None
                v = fns[q](s, 'tidal')
            else:
                v = fns[q](s)
            ok, why = v is None, 'returned %r' % (v,)
        except Exception as e:
            ok, why = False, 'raised %r' % e
        results.append(discharge(Obligation('RadialSolverSolution.%s returns None when success is False (no numeric result exposed)' % nm, z3.BoolVal(ok), [], with_axioms=False, with_dens=False,
                                            replay=lambda md, why=why: (True, why), key='solution:%s' % nm)))
    # ownership: with success = True the accessors must not hand out VIEWS of the buffers that __dealloc__ frees (the array would dangle once the solution object is collected). numpy is a
    # stub that tracks provenance: ascontiguousarray / asarray of a contiguous buffer, reshape, .T and slicing keep the base; np.array(..) copies.
    class Buf:
        def __init__(self, name):
            self.name = name

        def __getitem__(self, idx):
            return Arr(self)

    class Arr:
        def __init__(self, base):
            self.base = base

        def reshape(self, *a, **k):
            return Arr(self.base)

        @property
        def T(self):
            return Arr(self.base)

        def __getitem__(self, idx):
            return Arr(self.base)

        def copy(self, *a, **k):
            return Arr(None)

    def base_of(v):
        return v if isinstance(v, Buf) else (v.base if isinstance(v, Arr) else None)

    class NPown:
        complex128 = 'complex128'

        @staticmethod
        def ascontiguousarray(v, dtype=None):
            return Arr(base_of(v))
        asarray = ascontiguousarray

        @staticmethod
        def array(v, dtype=None, copy=True, **k):
            return Arr(None if copy else base_of(v))

        @staticmethod
        def copy(v):
            return Arr(None)
    freed = []
    own, _ = loader.load_pyx(SOLVER, names + ['RadialSolverSolution.__dealloc__'], {'np': NPown, 'MAX_NUM_Y': 6, 'PyMem_Free': lambda p: freed.append(p)})

    class S2:
        success = True
        num_ytypes, num_slices = 2, 5
        ytypes = ('tidal', 'loading')
    s2 = S2()
    s2.full_solution_ptr, s2.complex_love_ptr = Buf('full_solution'), Buf('complex_love')
    s2.full_solution_view, s2.complex_love_view = s2.full_solution_ptr, s2.complex_love_ptr      # <T[:n]> ptr: a memoryview OF the same memory
    own['RadialSolverSolution.__dealloc__'](s2)

    def rp_own(md):
        code = ("import sys, gc, json\nsys.modules['diffeqpy'] = None\nimport numpy as np\nfrom TidalPy.RadialSolver import radial_solver\n"
                "from TidalPy.utilities.spherical_helper import calculate_mass_gravity_arrays\n"
                "N = 40\nr = np.linspace(0.1, 6.0e6, N); rho = np.full(N, 3500.)\nvol, mass, g = calculate_mass_gravity_arrays(r, rho)\nK = np.full(N, 1e11); mu = np.full(N, 5e10 + 1e8j)\n"
                "solve = lambda: radial_solver(r, rho, g, K, mu, 1e-5, 3500., ('solid',), (False,), (False,), (6.0e6,), degree_l=2)\n"
                "s = solve(); ref = np.array(s.result, copy=True); kref = np.array(s.k, copy=True)\n"
                "y = solve().result; k = solve().k; gc.collect()\njunk = [np.full(6 * N, 7.7 + 1j) for _ in range(50)]\n"
                "print('@@RESULT@@' + json.dumps({'result_from_temporary_equals_kept': bool(np.allclose(y, ref, equal_nan=True)), 'k_from_temporary': str(k), 'k_kept': str(kref)}))\n")
        import subprocess, tempfile
        with tempfile.TemporaryDirectory(prefix='verif_c06_') as td:
            p = subprocess.run([replay.VENV_PY, '-c', code], capture_output=True, text=True, cwd=td, env=dict(os.environ, PYTHONPATH=REPO), timeout=900)
        if '@@RESULT@@' not in p.stdout:
            return True, 'the accessor returns a view of a buffer that __dealloc__ frees (current source); the real run ended with return code %s' % p.returncode
        out = json.loads(p.stdout.split('@@RESULT@@')[-1])
        bad = (not out['result_from_temporary_equals_kept']) or out['k_from_temporary'] != out['k_kept']
        return True, 'REAL radial_solver: arrays taken from a solution object that has been collected: %s%s' % (json.dumps(out), ' -> freed memory is read' if bad else ' (memory not yet re-used in this run)')
    for q in names:
        nm = q.split('.')[1]
        if nm == '__getitem__':
            S2.result = own['RadialSolverSolution.result'](s2)
            v = own[q](s2, 'tidal')
        else:
            v = own[q](s2)
        b = base_of(v)
        results.append(discharge(Obligation('RadialSolverSolution.%s (success = True) returns an array that does not alias a buffer released by __dealloc__ (%d buffers released)' % (nm, len(freed)),
                                            z3.BoolVal(v is not None and not any(b is f for f in freed)), [], with_axioms=False, with_dens=False, replay=rp_own, key='solution:owns:%s' % nm)))
    return {'results': results, 'encoded': loader.ENCODED, 'label': 'solution object'}


def job_dynamic(cfg, expect):
    """the real compiled solver on a configuration singled out by the static analysis (liquid surface layers, validation failures): never crashes; protocol and input preservation hold"""
    r = real_solver(cfg)
    results = []
    tag = json.dumps(cfg, sort_keys=True)[:150]
    results.append(discharge(Obligation('real radial_solver %s: the interpreter survives (returns or raises a Python exception)' % tag, z3.BoolVal(not r.get('crashed')), [], with_axioms=False, with_dens=False,
                                        replay=lambda md: (True, 'crash: %r' % r), key='dynamic:alive:%s' % expect)))
    if not r.get('crashed'):
        changed = max(r['max_rel_change'])
        results.append(discharge(Obligation('real radial_solver %s: input arrays unchanged afterwards (max relative change %.2g)' % (tag, changed), z3.BoolVal(changed <= 1e-12), [], with_axioms=False,
                                            with_dens=False, replay=lambda md: (True, 'exception=%s, arrays changed by %.3g, radius[-1]=%r' % (r.get('exception'), changed, r.get('radius_last'))),
                                            key='dynamic:restore:%s' % expect)))
        if r.get('exception') is None:
            proto = (r['success'] and not r['result_is_none']) or ((not r['success']) and r['result_is_none'] and r['love_is_none'] and r['k_is_none'] and bool(r.get('message')))
            results.append(discharge(Obligation('real radial_solver %s: success protocol (success => result; failure => message and no numeric result)' % tag, z3.BoolVal(bool(proto)), [], with_axioms=False,
                                                with_dens=False, replay=lambda md: (True, 'protocol broken: %r' % r), key='dynamic:protocol:%s' % expect)))
    return {'results': results, 'encoded': [], 'label': 'dynamic ' + expect, 'notes': ['%s -> %s' % (tag, {k: r.get(k) for k in ('exception', 'success', 'message')})]}


def main():
    jobs = [(job_skeleton, {'fname': 'cf_radial_solver'}), (job_skeleton, {'fname': 'radial_solver'}), (job_solution_object, {}), (job_wrapper_sizes, {})]
    for stack, nd in (([(0, False, False), (0, False, False)], False), ([(0, False, False), (1, True, False), (0, False, False)], True), ([(1, False, False), (0, True, False)], False),
                      ([(0, True, True)], True), ([(0, False, False), (1, False, False), (1, True, False), (0, True, False)], False)):
        jobs.append((job_whole, {'stack': stack, 'nondim': nd}))
    # malformed solve_for values: every kind of value the tuple-typed argument admits (empty, a non-string entry first / later, None entry, too many entries, unknown name, wrong case)
    for sf, kind in (((), 'empty'), ((1,), 'non-string'), (('tidal', 2.5), 'non-string-later'), (('tidal', None), 'none-entry'), (('tidal',) * 6, 'too-many'), (('bogus',), 'unknown-name'),
                     (('Tidal', 'LOADING'), 'upper-case')):
        for nd in (True, False):
            jobs.append((job_whole, {'stack': [(0, False, False)], 'nondim': nd, 'solve_for': sf, 'malformed': kind}))
    dyn = [({'layers': [['solid', True, False], ['liquid', False, False]], 'solve_for': ['tidal']}, 'liquid-dynamic-surface'),
           ({'layers': [['solid', True, False], ['liquid', True, False]], 'solve_for': ['tidal']}, 'liquid-static-surface'),
           ({'layers': [['solid', False, False]], 'solve_for': ['tidal', 'loading', 'free']}, 'solid-3types'),
           ({'layers': [['solid', True, False]], 'solve_for': ['tidal'], 'nondimensionalize': False}, 'solid-dimensional'),
           ({'layers': [['solid', False, False]], 'solve_for': ['tidal'], 'max_num_steps': 5}, 'step-budget'),
           ({'solve_for': ['bogus']}, 'invalid-solve_for'), ({'solve_for': ['tidal'] * 6}, 'too-many-solve_for'), ({'break': 'nan_density'}, 'nan-bulk-density'), ({'break': 'inf_density'}, 'inf-bulk-density'), ({'break': 'zero_density'}, 'zero-bulk-density'), ({'break': 'nan_frequency'}, 'nan-frequency'),
           ({'layers': [['solid', False, False]], 'solve_for': ['tidal'], 'expected_size': 1}, 'expected-size-1'), ({'layers': [['solid', False, False]], 'solve_for': ['tidal'], 'expected_size': 2}, 'expected-size-2'),
           ({'layers': [['solid', True, False], ['solid', True, False]], 'break': 'thin_layer'}, 'thin-layer'), ({'break': 'bad_layer_type'}, 'bad-layer-type'), ({'break': 'bad_method'}, 'bad-method'),
           ({'layers': [['solid', False, False]], 'solve_for': ['tidal'], 'max_num_steps': 5, 'raise_on_fail': True}, 'step-budget-raise')]
    if TIER == 'thorough':
        for a in ('solid', 'liquid'):
            for b in ('solid', 'liquid'):
                for st in (True, False):
                    dyn.append(({'layers': [['solid', True, False], [a, st, False], [b, st, False]], 'solve_for': ['tidal']}, '3layer-%s-%s-%s' % (a, b, st)))
    for c, e in dyn:
        jobs.append((job_dynamic, {'cfg': c, 'expect': e}))
    import c02
    for (t, s) in [(0, False), (1, False), (1, True)]:
        jobs.append((c02.job_surface, {'ltype': t, 'static': s, 'incomp': False}))
    # termination and extents of the interface kernels of the collapse phase, for every pair of layer kinds (their while loops carry an iteration budget: a loop whose counter does
    # not advance is a hang of the solver)
    for lo in c02.kinds():
        for up in c02.kinds():
            jobs.append((c02.job_interface, {'lower': lo, 'upper': up, 'inc_l': False, 'inc_u': False}))
    jobs.append((c02.job_collapse_y3, {}))
    import c03
    jobs.append((c03.job_roundtrip, {}))
    meta = {
        'explanation': 'cf_radial_solver and radial_solver are transliterated and executed by a path-enumerating symbolic executor over their control skeleton (scale / restore calls, allocate_mem / PyMem_Free with '
                       'a small points-to map for the nested storage, raise, return, try/finally; `nondimensionalize`, `raise_on_fail` are z3 Booleans shared by every occurrence; conditions without tracked '
                       'meaning fork with fresh Booleans; loops run 0/1 times consistently per iterable). Per exit site z3 decides: no feasible path leaves the caller arrays scaled; every allocation is released; '
                       'failure paths raise under raise_on_fail. Bad exits are replayed on the REAL compiled solver in a subprocess (exception, arrays before/after, exit status). '
                       'Declared stack extents of the surface kernel (C02 obligations) and redim(nondim(x)) = x (C03) are included; RadialSolverSolution accessors are executed with success = False.',
        'bounds': 'all paths of the control skeleton with loops unrolled 0/1 times (%s); dynamic runs: 1-2 layer stacks incl. liquid surface layers, validation failures, step-budget failure.' % ('thorough adds eight 3-layer stacks' if TIER == 'thorough' else 'quick'),
        'outside': 'hangs inside CyRK (the while loops of TidalPy\'s own interface / collapse kernels are run with an iteration budget of 200000); NaN/inf material values inside the integrator; interpreter-level malformed arguments beyond the checks present in the source; leaks are reported separately from memory-safety.',
        'assumptions': ['opaque branch conditions are independent (over-approximation; every bad exit is confirmed on the real solver where a recipe exists)'],
        'stubs': ['CyRK integrator, numpy I/O not modelled (skeleton only)'],
    }
    solve.run_check(PID, jobs, meta)


if __name__ == '__main__':
    main()
