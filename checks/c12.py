"""C12 — homogeneous-body Love number helpers (TidalPy/tides/love1d.py) equal the closed form; general == degree-2 helpers at l=2;
call sites pass (mu, g, R, rho, l) in the order of the definition."""
import sys, os, ast
sys.path.insert(0, os.path.dirname(os.path.dirname(os.path.abspath(__file__))))
import z3
from fractions import Fraction as Fr
from symx.values import Q, CTX, eq_goal
from symx import loader, solve, replay
from symx.solve import Obligation, discharge, reach_twin

PID = 'C12'
FILE = 'TidalPy/tides/love1d.py'
MOD = 'TidalPy.tides.love1d'
NAMES = ['complex_love', 'complex_love_general', 'static_love', 'static_love_general', 'effective_rigidity', 'effective_rigidity_general']


def _num_oracle(name, md, l):
    mu, g, R, rho = (float(md[k]) for k in ('mu', 'g', 'R', 'rho'))
    J = complex(float(md.get('J_r', 1)), float(md.get('J_i', 0)))
    m = float(md.get('m', 1))
    if name == 'eff':
        return (2 * l * l + 4 * l + 3) / l * mu / (rho * g * R)
    if name == 'klove':
        return 3 / (2 * (l - 1)) / (1 + m / (J * mu))
    if name == 'kstatic':
        return 3 / (2 * (l - 1)) / (1 + m)


def job_closed_forms(lmode):
    fns, ns = loader.load_py(FILE, NAMES)
    mu, g, R, rho, m = [Q.sym(n) for n in ('mu', 'g', 'R', 'rho', 'm')]
    J = Q.csym('J')
    pos = [mu.re > 0, g.re > 0, R.re > 0, rho.re > 0, m.re > 0, z3.Or(J.re != 0, J.im != 0)]
    results = []
    if lmode == 'sym':
        lq = Q.sym('l')
        ls = [(lq, [lq.re >= 2], 'l symbolic real >= 2')]
    else:
        ls = [(l, [], 'l=%d' % l) for l in range(2, 8)]
    for l, lass, ltxt in ls:
        A = pos + lass
        lf = lambda md: float(md['l']) if lmode == 'sym' else int(l)
        # (1) effective rigidity
        eff = fns['effective_rigidity_general'](mu, g, R, rho, l)
        lq_ = Q.of(l)
        oracle = (2 * lq_ * lq_ + 4 * lq_ + 3) * mu / (lq_ * rho * g * R)

        def rp_eff(md, lf=lf):
            lv = lf(md)
            a = [float(md.get(k, 1)) for k in ('mu', 'g', 'R', 'rho')]
            r = replay.call1(MOD, 'effective_rigidity_general', *a, int(lv) if float(lv).is_integer() else lv)
            want = _num_oracle('eff', dict(md, **{k: md.get(k, 1) for k in ('mu', 'g', 'R', 'rho')}), lv)
            if not r['ok']:
                return True, 'real call raised ' + r['error']
            return abs(r['value'] - want) > 1e-9 * abs(want), 'effective_rigidity_general%r -> %r, closed form %r' % (tuple(a) + (lv,), r['value'], want)
        # when l is a symbolic real the model may be non-integer: constrain replayable models to integer l by an extra finder obligation
        results.append(discharge(Obligation('effective_rigidity_general == (2l^2+4l+3)/l * mu/(rho g R) [%s]' % ltxt, eq_goal(eff, oracle),
                                            A + ([z3.Or(*[l.re == k for k in range(2, 8)])] if lmode == 'sym' else []),
                                            replay=rp_eff, key='effective_rigidity_general:closed_form')))
        # (2) complex love general
        k = fns['complex_love_general'](J, mu, m, l)
        oracle = Q(Fr(3, 2)) / (lq_ - 1) / (1 + m / (J * mu))

        def rp_k(md, lf=lf):
            lv = lf(md)
            Jc = complex(float(md.get('J_r', 1)), float(md.get('J_i', 0)))
            r = replay.call1(MOD, 'complex_love_general', Jc, float(md.get('mu', 1)), float(md.get('m', 1)), int(lv))
            want = 3 / (2 * (lv - 1)) / (1 + float(md.get('m', 1)) / (Jc * float(md.get('mu', 1))))
            if not r['ok']:
                return True, 'real call raised ' + r['error']
            return abs(r['value'] - want) > 1e-9 * abs(want), 'complex_love_general -> %r, closed form %r' % (r['value'], want)
        results.append(discharge(Obligation('complex_love_general == 3/(2(l-1))/(1+m/(J mu)) [%s]' % ltxt, eq_goal(k, oracle),
                                            A + ([z3.Or(*[l.re == k_ for k_ in range(2, 8)])] if lmode == 'sym' else []), replay=rp_k,
                                            key='complex_love_general:closed_form')))
        ks = fns['static_love_general'](m, l)
        oracle = Q(Fr(3, 2)) / (lq_ - 1) / (1 + m)

        def rp_s(md, lf=lf):
            lv = lf(md)
            r = replay.call1(MOD, 'static_love_general', float(md.get('m', 1)), int(lv))
            want = 3 / (2 * (lv - 1)) / (1 + float(md.get('m', 1)))
            return (not r['ok']) or abs(r['value'] - want) > 1e-9 * abs(want), 'static_love_general -> %r, closed form %r' % (r.get('value'), want)
        results.append(discharge(Obligation('static_love_general == 3/(2(l-1))/(1+m) [%s]' % ltxt, eq_goal(ks, oracle),
                                            A + ([z3.Or(*[l.re == k_ for k_ in range(2, 8)])] if lmode == 'sym' else []), replay=rp_s,
                                            key='static_love_general:closed_form')))
    results.append(reach_twin('C12 closed forms', pos + (ls[0][1])))
    return {'results': results, 'encoded': loader.ENCODED, 'axioms': CTX.axiom_notes, 'notes': CTX.notes}


def job_degree2():
    fns, ns = loader.load_py(FILE, NAMES)
    mu, g, R, rho, m = [Q.sym(n) for n in ('mu', 'g', 'R', 'rho', 'm')]
    J = Q.csym('J')
    pos = [mu.re > 0, g.re > 0, R.re > 0, rho.re > 0, m.re > 0, z3.Or(J.re != 0, J.im != 0)]
    res = []

    def mk(fn2, fng, args):
        def rp(md):
            a = []
            for nm in args:
                a.append(complex(float(md.get('J_r', 1)), float(md.get('J_i', 0))) if nm == 'J' else float(md.get(nm, 1)))
            r = replay.call_real([{'module': MOD, 'func': fn2, 'args': a}, {'module': MOD, 'func': fng, 'args': a + [2]}])
            if not (r[0]['ok'] and r[1]['ok']):
                return True, 'raised: %r' % r
            return abs(r[0]['value'] - r[1]['value']) > 1e-9 * abs(r[0]['value']), '%s%r=%r vs %s(...,2)=%r' % (fn2, tuple(a), r[0]['value'], fng, r[1]['value'])
        return rp
    res.append(discharge(Obligation('effective_rigidity == effective_rigidity_general(l=2)',
                                    eq_goal(fns['effective_rigidity'](mu, g, R, rho), fns['effective_rigidity_general'](mu, g, R, rho, 2)), pos,
                                    replay=mk('effective_rigidity', 'effective_rigidity_general', ['mu', 'g', 'R', 'rho']),
                                    key='effective_rigidity:degree2_vs_general')))
    res.append(discharge(Obligation('effective_rigidity == 19 mu/(2 rho g R)',
                                    eq_goal(fns['effective_rigidity'](mu, g, R, rho), Q(Fr(19, 2)) * mu / (rho * g * R)), pos,
                                    replay=replay.fn_replay(MOD, 'effective_rigidity', ['mu', 'g', 'R', 'rho'], lambda val, a: abs(val - 9.5 * a[0] / (a[3] * a[1] * a[2])) > 1e-9 * abs(val), '19 mu/(2 rho g R)'), key='effective_rigidity:closed_form')))
    res.append(discharge(Obligation('complex_love == complex_love_general(l=2)',
                                    eq_goal(fns['complex_love'](J, mu, m), fns['complex_love_general'](J, mu, m, 2)), pos,
                                    replay=mk('complex_love', 'complex_love_general', ['J', 'mu', 'm']), key='complex_love:degree2_vs_general')))
    res.append(discharge(Obligation('static_love == static_love_general(l=2)',
                                    eq_goal(fns['static_love'](m), fns['static_love_general'](m, 2)), pos,
                                    replay=mk('static_love', 'static_love_general', ['m']), key='static_love:degree2_vs_general')))
    # default order_l of the general helpers is 2
    def rp_defaults(md):
        f = lambda k: float(md.get(k, 1))
        Jv = complex(f('J_r'), f('J_i'))
        calls = [{'module': MOD, 'func': 'complex_love_general', 'args': [Jv, f('mu'), f('m')]}, {'module': MOD, 'func': 'complex_love_general', 'args': [Jv, f('mu'), f('m'), 2]},
                 {'module': MOD, 'func': 'static_love_general', 'args': [f('m')]}, {'module': MOD, 'func': 'static_love_general', 'args': [f('m'), 2]},
                 {'module': MOD, 'func': 'effective_rigidity_general', 'args': [f('mu'), f('g'), f('R'), f('rho')]}, {'module': MOD, 'func': 'effective_rigidity_general', 'args': [f('mu'), f('g'), f('R'), f('rho'), 2]}]
        r = replay.call_real(calls)
        if not all(x['ok'] for x in r):
            return True, 'raised: %r' % [x.get('error') for x in r]
        vals = [x['value'] for x in r]
        return any(abs(vals[i] - vals[i + 1]) > 1e-12 * abs(vals[i + 1]) for i in (0, 2, 4)), 'default vs order_l=2: %r' % (vals,)
    res.append(discharge(Obligation('default order_l of the general helpers is 2',
                                    z3.And(eq_goal(fns['complex_love_general'](J, mu, m), fns['complex_love_general'](J, mu, m, 2)),
                                           eq_goal(fns['static_love_general'](m), fns['static_love_general'](m, 2)),
                                           eq_goal(fns['effective_rigidity_general'](mu, g, R, rho), fns['effective_rigidity_general'](mu, g, R, rho, 2))), pos,
                                    replay=rp_defaults, key='defaults')))
    res.append(reach_twin('C12 degree-2', pos))
    return {'results': res, 'encoded': loader.ENCODED, 'axioms': CTX.axiom_notes}


def job_callsites():
    """the OOP wrappers TidesBase.calculate_effective_rigidity / calculate_complex_love_number (tides/methods/base.py) forward their
    arguments to the love1d helpers in the right order: executed symbolically and compared with the closed form."""
    fns, ns = loader.load_py(FILE, NAMES)
    w, ns2 = loader.load_py('TidalPy/tides/methods/base.py', ['TidesBase.calculate_effective_rigidity', 'TidesBase.calculate_complex_love_number'],
                            {'effective_rigidity_general': fns['effective_rigidity_general'], 'complex_love_general': fns['complex_love_general']})
    mu, g, R, rho, m = [Q.sym(n) for n in ('mu', 'g', 'R', 'rho', 'm')]
    J = Q.csym('J')
    l = Q.sym('l')
    pos = [mu.re > 0, g.re > 0, R.re > 0, rho.re > 0, m.re > 0, z3.Or(J.re != 0, J.im != 0), l.re >= 2]
    res = []

    def rp_wrap(which):
        def rp(md):
            f = lambda k, d=1.0: float(md.get(k, d))
            lv = max(2, int(round(f('l', 2.0))))
            Jv = complex(f('J_r'), f('J_i', 0.5))
            if which == 'calculate_effective_rigidity':
                a = [f('mu', 2.0), f('g', 3.0), f('R', 5.0), f('rho', 7.0)]
                calls = [{'module': 'TidalPy.tides.methods.base', 'func': 'TidesBase.calculate_effective_rigidity', 'args': a + [lv]}, {'module': MOD, 'func': 'effective_rigidity_general', 'args': a + [lv]}]
            else:
                calls = [{'module': 'TidalPy.tides.methods.base', 'func': 'TidesBase.calculate_complex_love_number', 'args': [f('mu', 2.0), Jv, f('m', 3.0), lv]},
                         {'module': MOD, 'func': 'complex_love_general', 'args': [Jv, f('mu', 2.0), f('m', 3.0), lv]}]
            r = replay.call_real(calls)
            if not all(x['ok'] for x in r):
                return True, 'raised: %r' % [x.get('error') for x in r]
            return abs(r[0]['value'] - r[1]['value']) > 1e-12 * abs(r[1]['value']), 'TidesBase.%s%r = %r, love1d helper = %r' % (which, tuple(calls[0]['args']), r[0]['value'], r[1]['value'])
        return rp
    e1 = w['TidesBase.calculate_effective_rigidity'](mu, g, R, rho, l)
    res.append(discharge(Obligation('TidesBase.calculate_effective_rigidity(mu,g,R,rho,l) == love1d.effective_rigidity_general(mu,g,R,rho,l)',
                                    eq_goal(e1, fns['effective_rigidity_general'](mu, g, R, rho, l)), pos,
                                    replay=rp_wrap('calculate_effective_rigidity'), key='callsite:calculate_effective_rigidity')))
    k1 = w['TidesBase.calculate_complex_love_number'](mu, J, m, l)
    res.append(discharge(Obligation('TidesBase.calculate_complex_love_number(mu,J,m,l) == love1d.complex_love_general(J,mu,m,l)',
                                    eq_goal(k1, fns['complex_love_general'](J, mu, m, l)), pos,
                                    replay=rp_wrap('calculate_complex_love_number'), key='callsite:calculate_complex_love_number')))
    res.append(reach_twin('C12 wrappers', pos))
    return {'results': res, 'encoded': loader.ENCODED, 'axioms': CTX.axiom_notes}


def main():
    import c10
    jobs = [(job_closed_forms, {'lmode': 'sym'}), (job_closed_forms, {'lmode': 'each'}), (job_degree2, {}), (job_callsites, {}), (c10.job_love_callsite, {'L': 4})]
    # the quick_tides front ends (tuple and dict / world-instance entry points, single and dual) are the call sites of the helpers: which body's gravity, density, radius reaches which
    # effective rigidity is decided by provenance terms against an independent composition of the leaf functions
    jobs += [(c10.job_quick_api, {'chunk': ch, 'nchunks': 4}) for ch in range(4)]
    meta = {
        'explanation': 'The six functions of TidalPy/tides/love1d.py are taken from the current source (AST), executed on z3 real/complex symbols '
                       '(division-free rational functions, exact source literals) and compared with the closed form written independently in the harness; '
                       'each equality is decided by z3 (negated goal unsat) for a symbolic real degree l>=2 and again for each integer l in 2..7. '
                       'The OOP wrappers in tides/methods/base.py are executed symbolically and compared with the helpers (argument order); the collapse_modes call site is covered by C10.',
        'bounds': 'l symbolic real >= 2 (covers l in 2..7 and beyond); mu,g,R,rho,m > 0; J complex non-zero. No loop unrolling involved.',
        'outside': 'floating-point rounding; agreement with the layered solver is by transitivity with C01 (same closed form) and is not re-run here.',
        'assumptions': ['mu, g, R, rho, m > 0; J != 0'],
    }
    solve.run_check(PID, jobs, meta)


if __name__ == '__main__':
    main()
