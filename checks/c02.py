"""C02 — surface and internal boundary conditions of the radial solution (one surface step, one interface step from an arbitrary state)."""
import sys, os, ast, itertools
sys.path.insert(0, os.path.dirname(os.path.dirname(os.path.abspath(__file__))))
import z3
from fractions import Fraction as Fr
from symx.values import Q, B, CTX, eq_goal
from symx import loader, solve, replay, atoms, pyx2py
from symx.pyx2py import CArr, Ptr
from symx.npshim import set_pi
from symx.solve import Obligation, discharge, reach_twin, TIER, REPO, _vars_of
import rs

PID = 'C02'
BND = 'TidalPy/RadialSolver/boundaries/boundaries.pyx'
COL = 'TidalPy/RadialSolver/collapse/collapse.pyx'
INT = 'TidalPy/RadialSolver/interfaces/interfaces.pyx'
REV = 'TidalPy/RadialSolver/interfaces/reversed.pyx'
SOLVER = 'TidalPy/RadialSolver/solver.pyx'
MAXY = 6


def nsol(ltype, static):
    return 3 if ltype == 0 else (1 if static else 2)


def store_map(ltype, static):
    """physical y index (0-based: y1..y6, 'y7') -> storage index within a solution of this layer kind"""
    if ltype == 0:
        return {0: 0, 1: 1, 2: 2, 3: 3, 4: 4, 5: 5}
    return {4: 0, 'y7': 1} if static else {0: 0, 1: 1, 4: 2, 5: 3}


class Zgesv:
    """LAPACK zgesv contract stub: fresh unknowns x with sum_j A[i + j n] x_j = b_i (column major), info = 0"""
    def __init__(self):
        self.cons = []
        self.calls = 0

    def __call__(self, n_ref, nrhs_ref, A, lda_ref, ipiv, b, ldb_ref, info):
        n = int(n_ref[0])
        self.calls += 1
        xs = [Q(z3.Real('x%d_%d' % (self.calls, j))) for j in range(n)]
        for i in range(n):
            lhs = Q(0)
            for j in range(n):
                lhs = lhs + Q.of(A[i + j * n]) * xs[j]
            self.cons.append(eq_goal(lhs, Q.of(b[i])))
        for j in range(n):
            b[j] = xs[j]
        info[0] = 0


def kinds():
    return [(0, False), (0, True), (1, False), (1, True)]      # (layer_type, is_static); type 0 solid, 1 liquid


def kname(t, s):
    return ('solid' if t == 0 else 'liquid') + ('-static' if s else '-dynamic')


# ------------------------------------------------------------------------------------------------ surface
def job_surface(ltype, static, incomp):
    pi = set_pi()
    z = Zgesv()
    ns = {'zgesv': z, 'pi': pi, 'NAN': Q.sym('NAN')}
    bnd, _ = loader.load_pyx(BND, ['cf_apply_surface_bc'], ns)
    col, _ = loader.load_pyx(COL, ['cf_collapse_layer_solution'], {})
    n = nsol(ltype, static)
    nys = 2 * n
    g, G, w, R, rho = [Q.sym(x) for x in ('g_s', 'G', 'w', 'R', 'rho')]
    pos = [g.re > 0, G.re > 0, w.re > 0, R.re > 0, rho.re > 0]
    results = []
    tag = 'surface %s%s' % (kname(ltype, static), ' incompressible' if incomp else '')
    for ytype_i in range(5):
        pyx2py.VIOLATIONS.clear()
        pyx2py.STRICT[0] = False
        z.cons.clear()
        bc = [Q.sym('bc%d' % i) for i in range(15)]
        U = CArr((18,), 'uppermost_y_per_solution')
        for j in range(n):
            for k in range(nys):
                U.data[j * MAXY + k] = Q.sym('U%d_%d' % (j, k))
        cvec = CArr((3,), 'constant_vector')
        info = CArr((1,), 'bc_solution_info')
        bnd['cf_apply_surface_bc'](Ptr(cvec, 0), Ptr(info, 0), bc, Ptr(U, 0), g, G, n, MAXY, ytype_i, ltype, static, incomp)
        viol = list(pyx2py.VIOLATIONS)
        pyx2py.STRICT[0] = True
        nout = 5 * MAXY
        sol = CArr((nout,), 'solution')
        storage = [[U.data[j * MAXY + k] for k in range(nys)] for j in range(n)]
        col['cf_collapse_layer_solution'](Ptr(sol, 0), Ptr(cvec, 0), storage, [R], [rho], [g], w, 0, 1, n, MAXY, nys, nout, ytype_i, ltype, static, incomp)
        A = pos + z.cons
        y = lambda i: Q.of(sol.data[ytype_i * MAXY + i])
        b0, b1, b2 = bc[ytype_i * 3 + 0], bc[ytype_i * 3 + 1], bc[ytype_i * 3 + 2]
        if ltype == 0:
            goal = z3.And(eq_goal(y(1), b0), eq_goal(y(3), b1), eq_goal(y(5), b2))
            txt = 'y2 = bc[0], y4 = bc[1], y6 = bc[2]'
        elif not static:
            goal = z3.And(eq_goal(y(1), b0), eq_goal(y(5), b2))
            txt = 'y2 = bc[0], y6 = bc[2]'
        else:
            # static liquid stores (y5, y7); the collapsed output carries y5 only, y7 is recovered from the constants: y7 = C0 * U[0][1]
            y7 = Q.of(cvec.data[0]) * U.data[0 * MAXY + 1]
            goal = eq_goal(y7, b2 + b0 * (4 * pi * G / g))
            txt = 'y7 = bc[2] + bc[0] 4 pi G / g'

        def rp(md, viol=viol):
            return True, 'surface condition not met for %s, solution type %d (transliterated current source); extent notes: %s' % (tag, ytype_i, viol[:2])
        results.append(discharge(Obligation('%s, solution type %d: collapsed surface values satisfy the requested condition (%s)' % (tag, ytype_i, txt), goal, A, replay=rp,
                                            key='surface:bc:%s' % kname(ltype, static))))
        results.append(discharge(Obligation('%s, solution type %d: every access stays inside the declared stack extents' % (tag, ytype_i), z3.BoolVal(not viol), [], with_axioms=False, with_dens=False,
                                            replay=lambda md, viol=viol: (True, 'out-of-extent access in cf_apply_surface_bc: %s' % '; '.join(viol[:4])), key='surface:extent:%s' % kname(ltype, static))))
        # independence of solution types: only the slot of this type is written, only its boundary values are read
        written = [i for i in range(nout) if sol.data[i] is not None]
        ok_slots = all(ytype_i * MAXY <= i < (ytype_i + 1) * MAXY for i in written)
        used = set()
        for i in written:
            q = Q.of(sol.data[i])
            used |= set(_vars_of([t for t in (q.re, q.im) if not isinstance(t, Fr)]).keys())
        for c in z.cons:
            used |= set(_vars_of([c]).keys())
        foreign = sorted(v for v in used if v.startswith('bc') and not (ytype_i * 3 <= int(v[2:]) < ytype_i * 3 + 3))
        results.append(discharge(Obligation('%s, solution type %d: writes only its own output slot and depends on no other type\'s boundary values' % (tag, ytype_i),
                                            z3.BoolVal(ok_slots and not foreign), [], with_axioms=False, with_dens=False,
                                            replay=lambda md, w_=written, f_=foreign: (True, 'slots written %r, foreign boundary values %r' % (w_, f_)), key='surface:independent:%s' % kname(ltype, static))))
        so = z3.Solver()
        so.add(A)
        results.append({'name': '%s type %d [reachability twin]' % (tag, ytype_i), 'key': 'twin', 'twin': True, 'verdict': str(so.check()), 'solver_s': 0.0, 'info': {}})
    return {'results': results, 'encoded': loader.ENCODED, 'axioms': CTX.axiom_notes + ['zgesv contract: A x = b (column-major), info = 0'], 'label': tag}


# ------------------------------------------------------------------------------------------------ the solver's glue for one interface
def load_glue():
    """AST slice of cf_radial_solver: the statements that choose interface_gravity and static_liquid_density before cf_solve_upper_y_at_interface"""
    src = open(os.path.join(REPO, SOLVER)).read()
    code, span = pyx2py.translit_function(src, 'cf_radial_solver')
    tree = ast.parse(code)
    grav, dens = None, None
    for node in ast.walk(tree):
        if isinstance(node, ast.Assign) and isinstance(node.targets[0], ast.Name) and node.targets[0].id == 'interface_gravity' and not isinstance(node.value, ast.Name):
            if 'last_layer_upper_gravity' in ast.unparse(node.value):
                grav = node
        if isinstance(node, ast.If) and dens is None:
            txt = ast.unparse(node)
            if txt.count('static_liquid_density =') >= 6 and 'layer_below_type' in ast.unparse(node.test):
                dens = node
    if grav is None or dens is None:
        raise RuntimeError('interface glue of cf_radial_solver not found (harness out of date)')
    mod = ast.Module(body=[grav, dens], type_ignores=[])
    seg = ast.unparse(mod)
    loader.ENCODED.append({'file': SOLVER, 'function': 'cf_radial_solver: interface_gravity / static_liquid_density selection (AST slice)', 'sha256_16': solve.sha_of(seg)})
    mod = loader._Rewrite(seg).visit(ast.parse(seg))
    ast.fix_missing_locations(mod)
    return compile(mod, 'solver.pyx:glue', 'exec')


def job_interface(lower, upper, inc_l, inc_u):
    (lt, ls), (ut, us) = lower, upper
    pi = set_pi()
    ns = {'pi': pi, 'NAN': Q.sym('NAN'), 'cmplx_NAN': None, 'cmplx_zero': Q(0)}
    fwd, _ = loader.load_pyx(INT, ['cf_solve_upper_y_at_interface'], ns)
    rev, _ = loader.load_pyx(REV, ['cf_top_to_bottom_interface_bc'], dict(ns))
    glue = load_glue()
    nl, nu = nsol(lt, ls), nsol(ut, us)
    g_lo, g_up, rho_lo, rho_up, G = [Q.sym(x) for x in ('g_lo', 'g_up', 'rho_lo', 'rho_up', 'G')]
    pos = [x.re > 0 for x in (g_lo, g_up, rho_lo, rho_up, G)]
    # formal-indeterminate mode: every complex quantity is one real symbol (the two kernels apply field operations only)
    U = [None] * 18
    for j in range(nl):
        for k in range(2 * nl):
            U[j * MAXY + k] = Q.sym('U%d_%d' % (j, k))
    up = CArr((18,), 'upper_layer_y')
    env = {'gravity_lower': g_up, 'last_layer_upper_gravity': g_lo, 'density_lower': rho_up, 'last_layer_upper_density': rho_lo, 'layer_type': ut, 'layer_below_type': lt,
           'layer_is_static': us, 'layer_below_is_static': ls, 'NAN': None}
    env.update(loader.base_ns())
    exec(glue, env)
    ig, ld = env['interface_gravity'], env['static_liquid_density']
    pyx2py.VIOLATIONS.clear()
    pyx2py.STRICT[0] = False
    fwd['cf_solve_upper_y_at_interface'](U, Ptr(up, 0), nl, nu, MAXY, lt, ls, inc_l, ut, us, inc_u, ig, ld, G)
    Cup = [Q.sym('C%d' % j) for j in range(nu)] + [None] * (3 - nu)
    Clo = CArr((3,), 'constant_vector')
    rev['cf_top_to_bottom_interface_bc'](Ptr(Clo, 0), Cup, U, g_lo, g_up, rho_lo, rho_up, lt, ut, ls, us, inc_l, inc_u, nl, MAXY)
    viol = list(pyx2py.VIOLATIONS)
    pyx2py.STRICT[0] = True
    upv = up.data

    def comb(C, V, n, idx):
        tot = Q(0)
        for j in range(n):
            if C[j] is None or V[j * MAXY + idx] is None:
                raise RuntimeError('uninitialised value used: solution %d index %d' % (j, idx))
            tot = tot + Q.of(C[j]) * Q.of(V[j * MAXY + idx])
        return tot
    sl, su = store_map(lt, ls), store_map(ut, us)
    goals = {}
    Cl = Clo.data
    for yy in (0, 1, 4, 5):
        if yy in sl and yy in su:
            goals['y%d continuous' % (yy + 1)] = (comb(Cl, U, nl, sl[yy]), comb(Cup, upv, nu, su[yy]))
    if lt == 0 and ut != 0:
        goals['y4 = 0 on the solid side (top of the solid below)'] = (comb(Cl, U, nl, 3), Q(0))
    if ut == 0 and lt != 0:
        goals['y4 = 0 on the solid side (base of the solid above)'] = (comb(Cup, upv, nu, 3), Q(0))
    fourpiG = 4 * pi * G

    def y7(C, V, n, t, st):
        s = store_map(t, st)
        if 'y7' in s:
            return comb(C, V, n, s['y7'])
        return comb(C, V, n, s[5]) + fourpiG / ig * comb(C, V, n, s[1])
    if ((lt != 0 and ls) or (ut != 0 and us)) and not (lt == 0 and ut == 0):
        goals['y7 = y6 + 4 pi G y2 / g carried through the static liquid'] = (y7(Cl, U, nl, lt, ls), y7(Cup, upv, nu, ut, us))
    # static liquid on one side and not the other: the static-liquid side has no y1,y2; the dynamic/solid side must satisfy the free-surface-like relation y2 = rho (g y1 - y5)
    def p2(C, V, n, t, st, rho):
        s = store_map(t, st)
        return comb(C, V, n, s[1]) - rho * (ig * comb(C, V, n, s[0]) - comb(C, V, n, s[4]))
    if ut != 0 and us and not (lt != 0 and ls):
        goals['y2 = rho_liquid (g y1 - y5) below a static liquid'] = (p2(Cl, U, nl, lt, ls, ld), Q(0))
    if lt != 0 and ls and not (ut != 0 and us):
        goals['y2 = rho_liquid (g y1 - y5) above a static liquid'] = (p2(Cup, upv, nu, ut, us, ld), Q(0))
    tag = '%s%s -> %s%s' % (kname(lt, ls), '(inc)' if inc_l else '', kname(ut, us), '(inc)' if inc_u else '')
    results = []
    for name, (a, b) in goals.items():
        def rp(md, name=name):
            return True, 'interface %s: %s violated (transliterated current interfaces.pyx / reversed.pyx, glue from solver.pyx)' % (tag, name)
        results.append(discharge(Obligation('interface %s: %s' % (tag, name), eq_goal(a, b), pos, replay=rp, key='interface:%s:%s' % (tag, name.split(' ')[0]))))
    results.append(discharge(Obligation('interface %s: accesses stay inside declared extents' % tag, z3.BoolVal(not viol), [], with_axioms=False, with_dens=False,
                                        replay=lambda md: (True, 'out-of-extent: %s' % viol[:3]), key='interface:extent:%s' % tag)))
    results.append(reach_twin('interface ' + tag, pos))
    return {'results': results, 'encoded': loader.ENCODED, 'axioms': CTX.axiom_notes, 'label': 'interface ' + tag}


def job_collapse_y3():
    """dynamic liquid layers: the collapsed y3 is reconstructed as (g y1 - y2/rho - y5)/(w^2 r), the algebraic relation of the liquid ODE"""
    col, _ = loader.load_pyx(COL, ['cf_collapse_layer_solution'], {})
    g, w, R, rho = [Q.sym(x) for x in ('g', 'w', 'R', 'rho')]
    pos = [x.re > 0 for x in (g, w, R, rho)]
    C = [Q.sym('C0'), Q.sym('C1')]
    S = [[Q.sym('S%d_%d' % (j, k)) for k in range(4)] for j in range(2)]
    results = []
    for ytype_i in range(3):
        nout = 5 * MAXY
        sol = CArr((nout,), 'solution')
        col['cf_collapse_layer_solution'](Ptr(sol, 0), C, S, [R], [rho], [g], w, 0, 1, 2, MAXY, 4, nout, ytype_i, 1, False, False)
        o = ytype_i * MAXY
        y1, y2, y3, y5, y6 = (Q.of(sol.data[o + i]) if sol.data[o + i] is not None else None for i in (0, 1, 2, 4, 5))
        want = {0: C[0] * S[0][0] + C[1] * S[1][0], 1: C[0] * S[0][1] + C[1] * S[1][1], 4: C[0] * S[0][2] + C[1] * S[1][2], 5: C[0] * S[0][3] + C[1] * S[1][3]}
        conds = [z3.BoolVal(v is not None) for v in (y1, y2, y3, y5, y6)]
        if all(v is not None for v in (y1, y2, y3, y5, y6)):
            conds += [eq_goal(y1, want[0]), eq_goal(y2, want[1]), eq_goal(y5, want[4]), eq_goal(y6, want[5]), eq_goal(y3, (g * y1 - y2 / rho - y5) / (w * w * R))]
        results.append(discharge(Obligation('collapse, dynamic liquid, solution type %d: y1,y2,y5,y6 are the weighted sums and y3 = (g y1 - y2/rho - y5)/(w^2 r)' % ytype_i, z3.And(*conds), pos,
                                            replay=lambda md: (True, 'collapse of a dynamic liquid layer wrong'), key='collapse:liquid')))
    return {'results': results, 'encoded': loader.ENCODED, 'label': 'collapse y3'}


def main():
    jobs = []
    incs = [False, True] if TIER == 'thorough' else [False]
    for (t, s) in [(0, False), (1, False), (1, True)]:
        for inc in incs:
            jobs.append((job_surface, {'ltype': t, 'static': s, 'incomp': inc}))
    if TIER == 'thorough':
        jobs.append((job_surface, {'ltype': 0, 'static': True, 'incomp': False}))
    for lo in kinds():
        for up in kinds():
            for il in incs:
                for iu in incs:
                    jobs.append((job_interface, {'lower': lo, 'upper': up, 'inc_l': il, 'inc_u': iu}))
    jobs.append((job_collapse_y3, {}))
    meta = {
        'explanation': 'cf_apply_surface_bc (zgesv replaced by its contract: fresh unknowns with A x = b), cf_collapse_layer_solution, cf_solve_upper_y_at_interface, cf_top_to_bottom_interface_bc '
                       'and the interface-gravity / liquid-density selection of cf_radial_solver (AST slice) are transliterated from the current .pyx and executed on symbols. '
                       'Surface: for an ARBITRARY set of per-solution surface vectors the collapsed solution meets exactly the requested condition of each solution type and touches no other slot. '
                       'Interface: for ARBITRARY per-solution vectors at the top of the lower layer and arbitrary constants of the upper layer, mapping the vectors upward and the constants downward gives '
                       'collapsed values that agree in y1, y2, y5, y6 where both sides define them, y4 = 0 on the solid side of a solid/liquid contact and y7 carried through static liquids '
                       '(one inductive step => any stack of layers). Stack arrays carry their declared extents.',
        'bounds': 'one interface / the surface; all 16 (type x static) orderings (x incompressibility flags in the thorough tier); up to 5 solution types; formal-indeterminate mode for the interface kernels.',
        'outside': 'that integration inside a layer preserves solution-hood (integrator); singular surface matrices (zgesv info != 0).',
        'assumptions': ['gravity, density, G > 0', 'zgesv solves the system it is given'],
        'stubs': ['zgesv -> contract stub', 'pi -> bounded symbol'],
    }
    solve.run_check(PID, jobs, meta)


if __name__ == '__main__':
    main()
