"""C02 — surface and internal boundary conditions of the radial solution (one surface step, one interface step from an arbitrary state)."""
import sys, os, ast, itertools
sys.path.insert(0, os.path.dirname(os.path.dirname(os.path.abspath(__file__))))
import z3
from fractions import Fraction as Fr
from symx.values import Q, B, CTX, eq_goal
from symx import loader, solve, replay, atoms, pyx2py
from symx.pyx2py import CArr, Ptr
from symx.npshim import set_pi
from symx.solve import Obligation, discharge, reach_twin, TIER, REPO, _vars_of
import rs

PID = 'C02'
BND = 'TidalPy/RadialSolver/boundaries/boundaries.pyx'
COL = 'TidalPy/RadialSolver/collapse/collapse.pyx'
INT = 'TidalPy/RadialSolver/interfaces/interfaces.pyx'
REV = 'TidalPy/RadialSolver/interfaces/reversed.pyx'
SOLVER = 'TidalPy/RadialSolver/solver.pyx'
MAXY = 6


def nsol(ltype, static):
    return 3 if ltype == 0 else (1 if static else 2)


def store_map(ltype, static):
    """physical y index (0-based: y1..y6, 'y7') -> storage index within a solution of this layer kind"""
    if ltype == 0:
        return {0: 0, 1: 1, 2: 2, 3: 3, 4: 4, 5: 5}
    return {4: 0, 'y7': 1} if static else {0: 0, 1: 1, 4: 2, 5: 3}


class Zgesv:
    """LAPACK zgesv contract stub: fresh unknowns x with sum_j A[i + j n] x_j = b_i (column major), info = 0"""
    def __init__(self):
        self.cons = []
        self.calls = 0

    def __call__(self, n_ref, nrhs_ref, A, lda_ref, ipiv, b, ldb_ref, info):
        n = int(n_ref[0])
        self.calls += 1
        xs = [Q(z3.Real('x%d_%d' % (self.calls, j))) for j in range(n)]
        for i in range(n):
            lhs = Q(0)
            for j in range(n):
                lhs = lhs + Q.of(A[i + j * n]) * xs[j]
            self.cons.append(eq_goal(lhs, Q.of(b[i])))
        for j in range(n):
            b[j] = xs[j]
        info[0] = 0


def kinds():
    return [(0, False), (0, True), (1, False), (1, True)]      # (layer_type, is_static); type 0 solid, 1 liquid


def kname(t, s):
    return ('solid' if t == 0 else 'liquid') + ('-static' if s else '-dynamic')


# ------------------------------------------------------------------------------------------------ surface
def job_surface(ltype, static, incomp):
    pi = set_pi()
    z = Zgesv()
    ns = {'zgesv': z, 'pi': pi, 'NAN': Q.sym('NAN')}
    bnd, _ = loader.load_pyx(BND, ['cf_apply_surface_bc'], ns)
    col, _ = loader.load_pyx(COL, ['cf_collapse_layer_solution'], {})
    n = nsol(ltype, static)
    nys = 2 * n
    g, G, w, R, rho = [Q.sym(x) for x in ('g_s', 'G', 'w', 'R', 'rho')]
    pos = [g.re > 0, G.re > 0, w.re > 0, R.re > 0, rho.re > 0]
    results = []
    tag = 'surface %s%s' % (kname(ltype, static), ' incompressible' if incomp else '')
    for ytype_i in range(5):
        pyx2py.VIOLATIONS.clear()
        pyx2py.STRICT[0] = False
        z.cons.clear()
        bc = [Q.sym('bc%d' % i) for i in range(15)]
        U = CArr((18,), 'uppermost_y_per_solution')
        for j in range(n):
            for k in range(nys):
                U.data[j * MAXY + k] = Q.sym('U%d_%d' % (j, k))
        cvec = CArr((3,), 'constant_vector')
        info = CArr((1,), 'bc_solution_info')
        bnd['cf_apply_surface_bc'](Ptr(cvec, 0), Ptr(info, 0), bc, Ptr(U, 0), g, G, n, MAXY, ytype_i, ltype, static, incomp)
        viol = list(pyx2py.VIOLATIONS)
        pyx2py.STRICT[0] = True
        nout = 5 * MAXY
        sol = CArr((nout,), 'solution')
        storage = [[U.data[j * MAXY + k] for k in range(nys)] for j in range(n)]
        col['cf_collapse_layer_solution'](Ptr(sol, 0), Ptr(cvec, 0), storage, [R], [rho], [g], w, 0, 1, n, MAXY, nys, nout, ytype_i, ltype, static, incomp)
        A = pos + z.cons
        y = lambda i: Q.of(sol.data[ytype_i * MAXY + i])
        b0, b1, b2 = bc[ytype_i * 3 + 0], bc[ytype_i * 3 + 1], bc[ytype_i * 3 + 2]
        if ltype == 0:
            goal = z3.And(eq_goal(y(1), b0), eq_goal(y(3), b1), eq_goal(y(5), b2))
            txt = 'y2 = bc[0], y4 = bc[1], y6 = bc[2]'
        elif not static:
            goal = z3.And(eq_goal(y(1), b0), eq_goal(y(5), b2))
            txt = 'y2 = bc[0], y6 = bc[2]'
        else:
            # static liquid stores (y5, y7); the collapsed output carries y5 only, y7 is recovered from the constants: y7 = C0 * U[0][1]
            y7 = Q.of(cvec.data[0]) * U.data[0 * MAXY + 1]
            goal = eq_goal(y7, b2 + b0 * (4 * pi * G / g))
            txt = 'y7 = bc[2] + bc[0] 4 pi G / g'

        def rp(md, viol=viol):
            return True, 'surface condition not met for %s, solution type %d (transliterated current source); extent notes: %s' % (tag, ytype_i, viol[:2])
        results.append(discharge(Obligation('%s, solution type %d: collapsed surface values satisfy the requested condition (%s)' % (tag, ytype_i, txt), goal, A, replay=rp,
                                            key='surface:bc:%s' % kname(ltype, static))))
        results.append(discharge(Obligation('%s, solution type %d: every access stays inside the declared stack extents' % (tag, ytype_i), z3.BoolVal(not viol), [], with_axioms=False, with_dens=False,
                                            replay=lambda md, viol=viol: (True, 'out-of-extent access in cf_apply_surface_bc: %s' % '; '.join(viol[:4])), key='surface:extent:%s' % kname(ltype, static))))
        # independence of solution types: only the slot of this type is written, only its boundary values are read
        written = [i for i in range(nout) if sol.data[i] is not None]
        ok_slots = all(ytype_i * MAXY <= i < (ytype_i + 1) * MAXY for i in written)
        used = set()
        for i in written:
            q = Q.of(sol.data[i])
            used |= set(_vars_of([t for t in (q.re, q.im) if not isinstance(t, Fr)]).keys())
        for c in z.cons:
            used |= set(_vars_of([c]).keys())
        foreign = sorted(v for v in used if v.startswith('bc') and not (ytype_i * 3 <= int(v[2:]) < ytype_i * 3 + 3))
        results.append(discharge(Obligation('%s, solution type %d: writes only its own output slot and depends on no other type\'s boundary values' % (tag, ytype_i),
                                            z3.BoolVal(ok_slots and not foreign), [], with_axioms=False, with_dens=False,
                                            replay=lambda md, w_=written, f_=foreign: (True, 'slots written %r, foreign boundary values %r' % (w_, f_)), key='surface:independent:%s' % kname(ltype, static))))
        results.append({'name': '%s type %d [reachability twin]' % (tag, ytype_i), 'key': 'twin', 'twin': True, 'verdict': solve.sat_check(A, 30000), 'solver_s': 0.0, 'info': {}})
    return {'results': results, 'encoded': loader.ENCODED, 'axioms': CTX.axiom_notes + ['zgesv contract: A x = b (column-major), info = 0'], 'label': tag}


# ------------------------------------------------------------------------------------------------ the solver's glue for one interface
def load_glue():
    """AST slice of cf_radial_solver: the statements that choose interface_gravity and static_liquid_density before cf_solve_upper_y_at_interface"""
    src = open(os.path.join(REPO, SOLVER)).read()
    code, span = pyx2py.translit_function(src, 'cf_radial_solver')
    tree = ast.parse(code)
    grav, dens = None, None
    for node in ast.walk(tree):
        if isinstance(node, ast.Assign) and isinstance(node.targets[0], ast.Name) and node.targets[0].id == 'interface_gravity' and not isinstance(node.value, ast.Name):
            if 'last_layer_upper_gravity' in ast.unparse(node.value):
                grav = node
        if isinstance(node, ast.If) and dens is None:
            txt = ast.unparse(node)
            if txt.count('static_liquid_density =') >= 6 and 'layer_below_type' in ast.unparse(node.test):
                dens = node
    if grav is None or dens is None:
        raise RuntimeError('interface glue of cf_radial_solver not found (harness out of date)')
    mod = ast.Module(body=[grav, dens], type_ignores=[])
    seg = ast.unparse(mod)
    loader.ENCODED.append({'file': SOLVER, 'function': 'cf_radial_solver: interface_gravity / static_liquid_density selection (AST slice)', 'sha256_16': solve.sha_of(seg)})
    mod = loader._Rewrite(seg).visit(ast.parse(seg))
    ast.fix_missing_locations(mod)
    return compile(mod, 'solver.pyx:glue', 'exec')


def job_interface(lower, upper, inc_l, inc_u):
    (lt, ls), (ut, us) = lower, upper
    pi = set_pi()
    ns = {'pi': pi, 'NAN': Q.sym('NAN'), 'cmplx_NAN': None, 'cmplx_zero': Q(0)}
    fwd, _ = loader.load_pyx(INT, ['cf_solve_upper_y_at_interface'], ns)
    rev, _ = loader.load_pyx(REV, ['cf_top_to_bottom_interface_bc'], dict(ns))
    glue = load_glue()
    nl, nu = nsol(lt, ls), nsol(ut, us)
    g_lo, g_up, rho_lo, rho_up, G = [Q.sym(x) for x in ('g_lo', 'g_up', 'rho_lo', 'rho_up', 'G')]
    pos = [x.re > 0 for x in (g_lo, g_up, rho_lo, rho_up, G)]
    # formal-indeterminate mode: every complex quantity is one real symbol (the two kernels apply field operations only)
    U = [None] * 18
    for j in range(nl):
        for k in range(2 * nl):
            U[j * MAXY + k] = Q.sym('U%d_%d' % (j, k))
    up = CArr((18,), 'upper_layer_y')
    env = {'gravity_lower': g_up, 'last_layer_upper_gravity': g_lo, 'density_lower': rho_up, 'last_layer_upper_density': rho_lo, 'layer_type': ut, 'layer_below_type': lt,
           'layer_is_static': us, 'layer_below_is_static': ls, 'NAN': None}
    env.update(loader.base_ns())
    exec(glue, env)
    ig, ld = env['interface_gravity'], env['static_liquid_density']
    pyx2py.VIOLATIONS.clear()
    pyx2py.STRICT[0] = False
    fwd['cf_solve_upper_y_at_interface'](U, Ptr(up, 0), nl, nu, MAXY, lt, ls, inc_l, ut, us, inc_u, ig, ld, G)
    Cup = [Q.sym('C%d' % j) for j in range(nu)] + [None] * (3 - nu)
    Clo = CArr((3,), 'constant_vector')
    rev['cf_top_to_bottom_interface_bc'](Ptr(Clo, 0), Cup, U, g_lo, g_up, rho_lo, rho_up, lt, ut, ls, us, inc_l, inc_u, nl, MAXY)
    viol = list(pyx2py.VIOLATIONS)
    pyx2py.STRICT[0] = True
    upv = up.data

    def comb(C, V, n, idx):
        tot = Q(0)
        for j in range(n):
            if C[j] is None or V[j * MAXY + idx] is None:
                raise RuntimeError('uninitialised value used: solution %d index %d' % (j, idx))
            tot = tot + Q.of(C[j]) * Q.of(V[j * MAXY + idx])
        return tot
    sl, su = store_map(lt, ls), store_map(ut, us)
    goals = {}
    Cl = Clo.data
    for yy in (0, 1, 4, 5):
        if yy in sl and yy in su:
            goals['y%d continuous' % (yy + 1)] = (comb(Cl, U, nl, sl[yy]), comb(Cup, upv, nu, su[yy]))
    if lt == 0 and ut != 0:
        goals['y4 = 0 on the solid side (top of the solid below)'] = (comb(Cl, U, nl, 3), Q(0))
    if ut == 0 and lt != 0:
        goals['y4 = 0 on the solid side (base of the solid above)'] = (comb(Cup, upv, nu, 3), Q(0))
    fourpiG = 4 * pi * G

    def y7(C, V, n, t, st):
        s = store_map(t, st)
        if 'y7' in s:
            return comb(C, V, n, s['y7'])
        return comb(C, V, n, s[5]) + fourpiG / ig * comb(C, V, n, s[1])
    if ((lt != 0 and ls) or (ut != 0 and us)) and not (lt == 0 and ut == 0):
        goals['y7 = y6 + 4 pi G y2 / g carried through the static liquid'] = (y7(Cl, U, nl, lt, ls), y7(Cup, upv, nu, ut, us))
    # static liquid on one side and not the other: the static-liquid side has no y1,y2; the dynamic/solid side must satisfy the free-surface-like relation y2 = rho (g y1 - y5)
    def p2(C, V, n, t, st, rho):
        s = store_map(t, st)
        return comb(C, V, n, s[1]) - rho * (ig * comb(C, V, n, s[0]) - comb(C, V, n, s[4]))
    if ut != 0 and us and not (lt != 0 and ls):
        goals['y2 = rho_liquid (g y1 - y5) below a static liquid'] = (p2(Cl, U, nl, lt, ls, ld), Q(0))
    if lt != 0 and ls and not (ut != 0 and us):
        goals['y2 = rho_liquid (g y1 - y5) above a static liquid'] = (p2(Cup, upv, nu, ut, us, ld), Q(0))
    tag = '%s%s -> %s%s' % (kname(lt, ls), '(inc)' if inc_l else '', kname(ut, us), '(inc)' if inc_u else '')
    results = []
    for name, (a, b) in goals.items():
        def rp(md, name=name):
            return True, 'interface %s: %s violated (transliterated current interfaces.pyx / reversed.pyx, glue from solver.pyx)' % (tag, name)
        results.append(discharge(Obligation('interface %s: %s' % (tag, name), eq_goal(a, b), pos, replay=rp, key='interface:%s:%s' % (tag, name.split(' ')[0]))))
    unwritten = [(j, k_) for j in range(nu) for k_ in range(2 * nu) if upv[j * MAXY + k_] is None]
    results.append(discharge(Obligation('interface %s: every entry of the %d starting vectors of the upper layer (%d values each) is written' % (tag, nu, 2 * nu), z3.BoolVal(not unwritten), [],
                                        with_axioms=False, with_dens=False, replay=lambda md: (True, 'cf_solve_upper_y_at_interface (transliterated current source) leaves (solution, entry) %s of the upper-layer '
                                                                                               'starting vectors unwritten: the integrator would start from uninitialised memory' % unwritten[:6]),
                                        key='interface:unwritten:%s' % tag)))
    results.append(discharge(Obligation('interface %s: accesses stay inside declared extents' % tag, z3.BoolVal(not viol), [], with_axioms=False, with_dens=False,
                                        replay=lambda md: (True, 'out-of-extent: %s' % viol[:3]), key='interface:extent:%s' % tag)))
    results.append(reach_twin('interface ' + tag, pos))
    return {'results': results, 'encoded': loader.ENCODED, 'axioms': CTX.axiom_notes, 'label': 'interface ' + tag}


def job_collapse_y3():
    """dynamic liquid layers: the collapsed y3 is reconstructed as (g y1 - y2/rho - y5)/(w^2 r), the algebraic relation of the liquid ODE"""
    col, _ = loader.load_pyx(COL, ['cf_collapse_layer_solution'], {})
    g, w, R, rho = [Q.sym(x) for x in ('g', 'w', 'R', 'rho')]
    pos = [x.re > 0 for x in (g, w, R, rho)]
    C = [Q.sym('C0'), Q.sym('C1')]
    S = [[Q.sym('S%d_%d' % (j, k)) for k in range(4)] for j in range(2)]
    results = []
    for ytype_i in range(3):
        nout = 5 * MAXY
        sol = CArr((nout,), 'solution')
        col['cf_collapse_layer_solution'](Ptr(sol, 0), C, S, [R], [rho], [g], w, 0, 1, 2, MAXY, 4, nout, ytype_i, 1, False, False)
        o = ytype_i * MAXY
        y1, y2, y3, y5, y6 = (Q.of(sol.data[o + i]) if sol.data[o + i] is not None else None for i in (0, 1, 2, 4, 5))
        want = {0: C[0] * S[0][0] + C[1] * S[1][0], 1: C[0] * S[0][1] + C[1] * S[1][1], 4: C[0] * S[0][2] + C[1] * S[1][2], 5: C[0] * S[0][3] + C[1] * S[1][3]}
        conds = [z3.BoolVal(v is not None) for v in (y1, y2, y3, y5, y6)]
        if all(v is not None for v in (y1, y2, y3, y5, y6)):
            conds += [eq_goal(y1, want[0]), eq_goal(y2, want[1]), eq_goal(y5, want[4]), eq_goal(y6, want[5]), eq_goal(y3, (g * y1 - y2 / rho - y5) / (w * w * R))]
        results.append(discharge(Obligation('collapse, dynamic liquid, solution type %d: y1,y2,y5,y6 are the weighted sums and y3 = (g y1 - y2/rho - y5)/(w^2 r)' % ytype_i, z3.And(*conds), pos,
                                            replay=lambda md: (True, 'collapse of a dynamic liquid layer wrong'), key='collapse:liquid')))
    return {'results': results, 'encoded': loader.ENCODED, 'label': 'collapse y3'}


# ------------------------------------------------------------------------------------------------ the solver's collapse loop and Love extraction (call sites / data flow)
GLUE_STACKS = [[(0, False, False), (0, False, False)], [(0, False, False), (1, True, False), (0, False, False)], [(1, False, False), (0, True, False)], [(0, True, True), (1, False, False), (1, True, False), (0, False, False)]]
def _solver_blocks():
    """AST slices of cf_radial_solver: the `for ytype_i` collapse loop and the `for ytype_i` Love-number extraction loop"""
    src = open(os.path.join(REPO, SOLVER)).read()
    code, span = pyx2py.translit_function(src, 'cf_radial_solver')
    tree = ast.parse(code)
    col = love = None
    for node in ast.walk(tree):
        if isinstance(node, ast.For) and getattr(node.target, 'id', None) == 'ytype_i':
            txt = ast.unparse(node)
            if 'cf_collapse_layer_solution' in txt:
                col = node
            elif 'find_love_cf' in txt:
                love = node
    if col is None or love is None:
        raise RuntimeError('collapse loop / Love extraction of cf_radial_solver not found (harness out of date)')
    out = []
    for nm, node in (('collapse loop', col), ('Love-number extraction', love)):
        seg = ast.unparse(node)
        loader.ENCODED.append({'file': SOLVER, 'function': 'cf_radial_solver: %s (AST slice)' % nm, 'sha256_16': solve.sha_of(seg)})
        mod = loader._Rewrite(seg).visit(ast.parse(seg))
        ast.fix_missing_locations(mod)
        out.append(compile(mod, 'solver.pyx:%s' % nm, 'exec'))
    return out


def job_collapse_glue(stack):
    """The collapse loop of cf_radial_solver executed for a concrete stack (bottom -> top, 2 slices per layer, 2 solution types) over symbolic arrays, with recording stubs for the
    kernels it calls (their own contracts are the surface / interface / collapse obligations): every call site must receive the quantities of the right layer, side and solution type, and
    the Love-number extraction must read exactly what the collapse wrote for the surface slice of its own solution type."""
    col_code, love_code = _solver_blocks()
    real_col, _ = loader.load_pyx(COL, ['cf_collapse_layer_solution'], {})
    L, SL, NT = len(stack), 2, 2
    total = L * SL
    nsols = [nsol(t, st) for (t, st, inc) in stack]

    def arr(name):
        a = CArr((total,), name)
        for i in range(total):
            a.data[i] = Q.sym('%s_%d' % (name, i))
        return a
    radius, density, gravity, bulk, shear = arr('r'), arr('rho'), arr('g'), arr('K'), arr('mu')
    storage = [[[Q.sym('S_%d_%d_%d' % (li, j, k)) for k in range(SL * 2 * nsols[li])] for j in range(nsols[li])] for li in range(L)]
    nout = MAXY * NT
    solution = CArr((total * nout,), 'solution')
    rec = {'surface': [], 'interface': [], 'collapse': [], 'love': []}
    cNAN = Q.sym('cmplx_NAN')

    def snap(v, n):
        return [v[i] for i in range(n)]

    def st_surface(cv, info, bc, upp, gs, G, num_sols, maxy, ytype_i, lt, st, inc):
        vals = [Q.sym('Csurf_t%d_%d' % (ytype_i, j)) for j in range(num_sols)]
        for j in range(num_sols):
            cv[j] = vals[j]
        info.v = 0
        rec['surface'].append(dict(ytype=ytype_i, upp=[upp[j * maxy + k] for j in range(num_sols) for k in range(2 * num_sols)], gs=gs, num_sols=num_sols, lt=lt, st=st, inc=inc, vals=vals))

    def st_interface(cv, cv_above, upp, g_up, g_above_lo, rho_up, rho_above_lo, lt, lat, st, sat, inc, iat, num_sols, maxy):
        k = len(rec['interface'])
        vals = [Q.sym('Cint%d_%d' % (k, j)) for j in range(num_sols)]
        above = snap(cv_above, 3)
        for j in range(num_sols):
            cv[j] = vals[j]
        rec['interface'].append(dict(upp=[upp[j * maxy + kk] for j in range(num_sols) for kk in range(2 * num_sols)], g_up=g_up, g_above_lo=g_above_lo, rho_up=rho_up, rho_above_lo=rho_above_lo,
                                     lt=lt, lat=lat, st=st, sat=sat, inc=inc, iat=iat, num_sols=num_sols, above=above, vals=vals))

    def st_collapse(sol, cv, stor, r_ptr, rho_ptr, g_ptr, freq, start_index, layer_slices, num_sols, maxy, num_ys, num_output_ys, ytype_i, lt, st, inc):
        rec['collapse'].append(dict(cv=snap(cv, num_sols), stor=stor, r0=r_ptr[0], rho0=rho_ptr[0], g0=g_ptr[0], start=start_index, slices=layer_slices, num_sols=num_sols, num_ys=num_ys,
                                    nout=num_output_ys, ytype=ytype_i, lt=lt, st=st, inc=inc, sol_is=sol is solution or getattr(sol, 'base', None) is solution))
        real_col['cf_collapse_layer_solution'](sol, cv, stor, r_ptr, rho_ptr, g_ptr, freq, start_index, layer_slices, num_sols, maxy, num_ys, num_output_ys, ytype_i, lt, st, inc)

    def st_love(out, surf, gs):
        rec['love'].append(dict(surf=snap(surf, MAXY), gs=gs, out=out))

    class Sol:
        pass
    solobj = Sol()
    solobj.complex_love_ptr = CArr((3 * NT,), 'complex_love')
    env = {'num_ytypes': NT, 'num_layers': L, 'start_index_by_layer_ptr': [li * SL for li in range(L)], 'num_slices_by_layer_ptr': [SL] * L, 'num_solutions_by_layer_ptr': nsols,
           'radius_array_ptr': radius, 'density_array_ptr': density, 'gravity_array_ptr': gravity, 'bulk_modulus_array_ptr': bulk, 'complex_shear_modulus_array_ptr': shear,
           'layer_types_ptr': [t for (t, st, inc) in stack], 'is_static_by_layer_ptr': [st for (t, st, inc) in stack], 'is_incompressible_by_layer_ptr': [inc for (t, st, inc) in stack],
           'main_storage_ptr': storage, 'uppermost_y_per_solution_ptr': CArr((18,), 'uppermost_y'), 'constant_vector_ptr': CArr((3,), 'constant_vector'),
           'layer_above_constant_vector_ptr': CArr((3,), 'layer_above_constant_vector'), 'bc_pointer': CArr((15,), 'bc'), 'bc_solution_info': pyx2py.Ref(-999),
           'surface_gravity': Q.sym('surface_gravity'), 'G_to_use': pyx2py.Ref(Q.sym('G')), 'frequency_to_use': pyx2py.Ref(Q.sym('w')), 'MAX_NUM_Y': MAXY, 'solution_ptr': solution,
           'num_output_ys': nout, 'cmplx_NAN': cNAN, 'NAN': Q.sym('NAN'), 'verbose': False, 'raise_on_fail': False, 'error': False, 'feedback_str': '',
           'cf_apply_surface_bc': st_surface, 'cf_top_to_bottom_interface_bc': st_interface, 'cf_collapse_layer_solution': st_collapse, 'find_love_cf': st_love,
           'top_slice_i': total - 1, 'surface_solutions_ptr': CArr((MAXY,), 'surface_solutions'), 'solution': solobj}
    env.update(pyx2py.RUNTIME)
    env.update({k: v for k, v in loader.base_ns().items() if k not in env})
    pyx2py.VIOLATIONS.clear()
    pyx2py.STRICT[0] = False
    try:
        exec(col_code, env)
        exec(love_code, env)
    finally:
        viol = list(pyx2py.VIOLATIONS)
        pyx2py.STRICT[0] = True
    tag = ' / '.join(kname(t, st) + ('(inc)' if inc else '') for (t, st, inc) in stack)
    results = []

    def same(a, b):
        if a is None or b is None:
            return z3.BoolVal(a is b)
        if isinstance(a, (bool, int)) and not isinstance(a, Q) and isinstance(b, (bool, int)):
            return z3.BoolVal(a == b)
        return eq_goal(Q.of(a), Q.of(b))

    def rp_love(md):
        # public-API replay: the Love numbers reported by the real radial_solver for two solution types must be the ones derived from the surface row of ITS OWN result array
        import subprocess, tempfile, json as _json
        cfg = {'layers': [['solid', True, False]], 'solve_for': ['tidal', 'loading'], 'nondimensionalize': True}
        with tempfile.TemporaryDirectory(prefix='verif_c02_') as td:
            e_ = dict(os.environ)
            e_['PYTHONPATH'] = REPO
            p_ = subprocess.run([replay.VENV_PY, os.path.join(solve.VERIF, 'replay', 'c06_replay.py')], input=_json.dumps(cfg), capture_output=True, text=True, cwd=td, env=e_, timeout=900)
        if '@@RESULT@@' not in p_.stdout:
            return True, 'real radial_solver crashed: rc=%s %s' % (p_.returncode, p_.stderr[-300:])
        o_ = _json.loads(p_.stdout.split('@@RESULT@@')[-1])
        if not o_.get('success'):
            return False, 'real radial_solver did not succeed on the replay configuration: %r' % o_
        return o_.get('love_vs_result_surface', 0.0) > 1e-9, 'real radial_solver(solve_for=(tidal, loading)): [k from result[6t+4, -1] - 1, k reported in .love] per type = %r (relative mismatch %r)' % (o_.get('love_rows'), o_.get('love_vs_result_surface'))

    def rp_iface(md):
        # public-API replay: layered planets whose density varies inside every layer (so that 'top of the lower layer' and 'bottom of the layer above' differ): the potential (and y1, y2, y6
        # where no static liquid is involved) must agree between the last slice of a layer and the first slice of the next one to round-off
        worst, outs = 0.0, []
        for cfg in ({'layers': [['solid', False, False], ['liquid', True, False], ['solid', False, False]], 'solve_for': ['tidal', 'loading'], 'gradient': True, 'slices_per_layer': 30},
                    {'layers': [['solid', False, False], ['liquid', False, False], ['liquid', True, False], ['solid', True, False]], 'solve_for': ['tidal'], 'gradient': True, 'slices_per_layer': 30,
                     'frequency': 1.0e-4},
                    {'layers': [['solid', False, False], ['solid', True, False]], 'solve_for': ['tidal', 'loading'], 'gradient': True, 'slices_per_layer': 30}):
            import c06
            o_ = c06.real_solver(cfg)
            if o_.get('crashed'):
                return True, 'real radial_solver crashed on %r' % cfg
            if not o_.get('success'):
                outs.append((cfg['layers'], 'not solved: %s' % str(o_.get('message'))[:80]))
                continue
            outs.append((cfg['layers'], o_.get('interface_jumps_max')))
            worst = max(worst, o_.get('interface_jumps_max') or 0.0)
        return worst > 1e-6, 'real radial_solver with density gradients inside the layers: largest relative jump of y5 (y1, y2, y6) across an interface per stack = %r' % (outs,)

    def ob(name, conds, key):
        if key == 'interface-call':
            results.append(discharge(Obligation('collapse loop [%s]: %s' % (tag, name), z3.And(*conds) if conds else z3.BoolVal(True), [], with_axioms=False, with_dens=False,
                                                replay=replay.api_or_witness([SOLVER, COL, INT, REV], rp_iface, 'interface call site of the collapse loop receives a different quantity'), key='glue:%s' % key)))
            return
        rp_ = replay.api_or_witness([SOLVER, COL, 'TidalPy/RadialSolver/love.pyx'], rp_love, 'Love-number extraction reads a different row than the collapse wrote') if key == 'love-extraction' \
            else (lambda md, name=name: (True, 'call-site data flow of cf_radial_solver (transliterated current solver.pyx): %s' % name))
        results.append(discharge(Obligation('collapse loop [%s]: %s' % (tag, name), z3.And(*conds) if conds else z3.BoolVal(True), [], with_axioms=False, with_dens=False,
                                            replay=rp_, key='glue:%s' % key)))
    ob('runs without leaving declared extents and calls each kernel once per layer and solution type', [z3.BoolVal(not viol), z3.BoolVal(len(rec['surface']) == NT), z3.BoolVal(len(rec['interface']) == NT * (L - 1)),
                                                                                                    z3.BoolVal(len(rec['collapse']) == NT * L), z3.BoolVal(len(rec['love']) == NT)], 'counts')
    if len(rec['surface']) == NT and len(rec['interface']) == NT * (L - 1) and len(rec['collapse']) == NT * L and len(rec['love']) == NT:
        for t in range(NT):
            top = L - 1
            s = rec['surface'][t]
            ny = 2 * nsols[top]
            conds = [z3.BoolVal(s['ytype'] == t), z3.BoolVal(s['num_sols'] == nsols[top]), z3.BoolVal((s['lt'], s['st'], s['inc']) == stack[top]), same(s['gs'], env['surface_gravity'])]
            conds += [same(s['upp'][j * ny + k], storage[top][j][(SL - 1) * ny + k]) for j in range(nsols[top]) for k in range(ny)]
            ob('solution type %d: cf_apply_surface_bc receives the top-of-surface-layer values of every solution, the surface gravity and its own type index' % t, conds, 'surface-call')
            prev_vals = s['vals']
            for d in range(1, L):
                li = L - 1 - d                 # layer being collapsed; li + 1 is the layer above
                c = rec['interface'][t * (L - 1) + d - 1]
                ny = 2 * nsols[li]
                conds = [same(c['g_up'], gravity.data[li * SL + SL - 1]), same(c['g_above_lo'], gravity.data[(li + 1) * SL]), same(c['rho_up'], density.data[li * SL + SL - 1]),
                         same(c['rho_above_lo'], density.data[(li + 1) * SL]), z3.BoolVal((c['lt'], c['st'], c['inc']) == stack[li]), z3.BoolVal((c['lat'], c['sat'], c['iat']) == stack[li + 1]),
                         z3.BoolVal(c['num_sols'] == nsols[li])]
                conds += [same(c['above'][j], prev_vals[j]) for j in range(nsols[li + 1])]
                conds += [same(c['upp'][j * ny + k], storage[li][j][(SL - 1) * ny + k]) for j in range(nsols[li]) for k in range(ny)]
                ob('solution type %d, interface below layer %d: cf_top_to_bottom_interface_bc receives gravity/density at the TOP of the lower layer and at the BOTTOM of the layer above, both layer kinds in '
                   'the right order, the constants of the layer above and the top values of the lower layer' % (t, li + 1), conds, 'interface-call')
                prev_vals = c['vals']
            # collapse calls
            chain = [rec['surface'][t]['vals']] + [rec['interface'][t * (L - 1) + d - 1]['vals'] for d in range(1, L)]
            for d in range(L):
                li = L - 1 - d
                c = rec['collapse'][t * L + d]
                conds = [z3.BoolVal(c['stor'] is storage[li]), z3.BoolVal(c['start'] == li * SL), z3.BoolVal(c['slices'] == SL), z3.BoolVal(c['num_sols'] == nsols[li]), z3.BoolVal(c['num_ys'] == 2 * nsols[li]),
                         z3.BoolVal(c['nout'] == nout), z3.BoolVal(c['ytype'] == t), z3.BoolVal((c['lt'], c['st'], c['inc']) == stack[li]), z3.BoolVal(bool(c['sol_is'])),
                         same(c['r0'], radius.data[li * SL]), same(c['rho0'], density.data[li * SL]), same(c['g0'], gravity.data[li * SL])]
                conds += [same(c['cv'][j], chain[d][j]) for j in range(nsols[li])]
                ob('solution type %d, layer %d: cf_collapse_layer_solution receives this layer\'s storage, arrays, constants and flags' % (t, li), conds, 'collapse-call')
            # Love extraction: the surface values of solution type t
            lv = rec['love'][t]
            top = L - 1
            if stack[top][0] == 0:
                ny = 6
                cv = rec['surface'][t]['vals']
                conds = [same(lv['gs'], env['surface_gravity'])]
                for y in range(6):
                    want = Q(0)
                    for j in range(3):
                        want = want + cv[j] * storage[top][j][(SL - 1) * ny + y]
                    got = lv['surf'][y]
                    conds.append(z3.BoolVal(got is not None))
                    if got is not None:
                        conds.append(eq_goal(Q.of(got), want))
                conds.append(z3.BoolVal(isinstance(lv['out'], Ptr) and lv['out'].base is solobj.complex_love_ptr and lv['out'].off == 3 * t))
                ob('solution type %d: find_love_cf receives the collapsed y1..y6 of the SURFACE slice of its own solution type (sum_j C_j y_j(top)) and writes slots %d..%d of the Love array' % (t, 3 * t, 3 * t + 2),
                   conds, 'love-extraction')
    return {'results': results, 'encoded': loader.ENCODED, 'label': 'collapse glue ' + tag}


def main():
    jobs = []
    for stack in GLUE_STACKS:
        jobs.append((job_collapse_glue, {'stack': stack}))
    # forward (integration-phase) call sites of the interface kernel: whole-function run of cf_radial_solver with stub kernels (C06 machinery)
    import c06
    for stack, nd in (([(0, False, False), (1, True, False), (0, False, False)], True), ([(1, False, False), (0, True, False)], False), ([(0, False, False), (1, False, False), (1, True, False), (0, True, False)], False)):
        jobs.append((c06.job_whole, {'stack': stack, 'nondim': nd}))
    incs = [False, True] if TIER == 'thorough' else [False]
    for (t, s) in [(0, False), (1, False), (1, True)]:
        for inc in incs:
            jobs.append((job_surface, {'ltype': t, 'static': s, 'incomp': inc}))
    if TIER == 'thorough':
        jobs.append((job_surface, {'ltype': 0, 'static': True, 'incomp': False}))
    for lo in kinds():
        for up in kinds():
            for il in incs:
                for iu in incs:
                    jobs.append((job_interface, {'lower': lo, 'upper': up, 'inc_l': il, 'inc_u': iu}))
    jobs.append((job_collapse_y3, {}))
    meta = {
        'explanation': 'cf_apply_surface_bc (zgesv replaced by its contract: fresh unknowns with A x = b), cf_collapse_layer_solution, cf_solve_upper_y_at_interface, cf_top_to_bottom_interface_bc '
                       'and the interface-gravity / liquid-density selection of cf_radial_solver (AST slice) are transliterated from the current .pyx and executed on symbols. '
                       'Surface: for an ARBITRARY set of per-solution surface vectors the collapsed solution meets exactly the requested condition of each solution type and touches no other slot. '
                       'Interface: for ARBITRARY per-solution vectors at the top of the lower layer and arbitrary constants of the upper layer, mapping the vectors upward and the constants downward gives '
                       'collapsed values that agree in y1, y2, y5, y6 where both sides define them, y4 = 0 on the solid side of a solid/liquid contact and y7 carried through static liquids '
                       '(one inductive step => any stack of layers). Stack arrays carry their declared extents.',
        'bounds': 'one interface / the surface; all 16 (type x static) orderings (x incompressibility flags in the thorough tier); up to 5 solution types; formal-indeterminate mode for the interface kernels.',
        'outside': 'that integration inside a layer preserves solution-hood (integrator); singular surface matrices (zgesv info != 0).',
        'assumptions': ['gravity, density, G > 0', 'zgesv solves the system it is given'],
        'stubs': ['zgesv -> contract stub', 'pi -> bounded symbol'],
    }
    solve.run_check(PID, jobs, meta)


if __name__ == '__main__':
    main()
