"""C10 — mode-summed heating and torques: heating == M_host (n dUdM - spin dUdO), vanishing for circular/zero-obliquity/synchronous,
classical (21/2) limit, non-negativity, invariance under grouping of modes sharing a frequency, scalar vs array."""
import sys, os, ast, types, re, copy
sys.path.insert(0, os.path.dirname(os.path.dirname(os.path.abspath(__file__))))
import z3
import numpy as np
from fractions import Fraction as Fr
from symx.values import Q, B, CTX, eq_goal, canon, NotPoly
from symx import loader, solve, replay, atoms
from symx.npshim import NP, obj_array
from symx.solve import Obligation, discharge, reach_twin, TIER, REPO
import importlib
c08 = importlib.import_module('checks.c08') if False else None

PID = 'C10'
MM = 'TidalPy/tides/modes/mode_manipulation.py'


def load_core(ungroup=False):
    love, _ = loader.load_py('TidalPy/tides/love1d.py', ['complex_love_general', 'effective_rigidity_general'])
    uni, _ = loader.load_py('TidalPy/tides/universal_coeffs.py', ['get_universal_coeffs'], {'TidalPyValueException': ValueError})
    ns = {'np': NP, 'complex_love_general': love['complex_love_general'], 'effective_rigidity_general': love['effective_rigidity_general'],
          'get_universal_coeffs': uni['get_universal_coeffs']}
    tr = None
    if ungroup:
        class T(ast.NodeTransformer):
            done = 0

            def visit_Assign(self, n):
                if len(n.targets) == 1 and isinstance(n.targets[0], ast.Name) and n.targets[0].id == 'freq_sig':
                    T.done += 1
                    new = ast.parse('freq_sig = (n_coeff, m, p, q, order_l)').body[0]
                    return ast.copy_location(new, n)
                return n

        def tr(node):
            node = T().visit(node)
            if T.done != 1:
                raise RuntimeError('grouping key assignment `freq_sig = ...` not found exactly once (harness out of date)')
            return node
    fns, ns = loader.load_py(MM, ['calculate_terms'], ns, transform=tr)
    fns2, ns = loader.load_py(MM, ['collapse_modes'], ns)
    G = Q.sym('G')
    sus, _ = loader.load_py('TidalPy/tides/dissipation.py', ['calc_tidal_susceptibility'], {'G': G})
    return fns['calculate_terms'], fns2['collapse_modes'], sus['calc_tidal_susceptibility'], G


def real_tables(L, N, use_obliquity, e, I):
    """execute the real lookup helpers (as find_mode_manipulators would select them) on (e, I)"""
    ecc_tabs = {}
    for l in range(2, L + 1):
        f, _ = loader.load_py('TidalPy/tides/eccentricity_funcs/orderl%d.py' % l, ['eccentricity_funcs_trunc%d' % N], {'np': NP})
        ecc_tabs[l] = f['eccentricity_funcs_trunc%d' % N]
    emods = {'orderl%d' % l: types.SimpleNamespace(**{'eccentricity_funcs_trunc%d' % N: ecc_tabs[l]}) for l in ecc_tabs}
    h, _ = loader.load_py('TidalPy/tides/modes/mode_calc_helper/eccen_calc_orderl%d.py' % L, ['eccentricity_truncation_%d_maxl_%d' % (N, L)], dict(emods, np=NP))
    ecc = h['eccentricity_truncation_%d_maxl_%d' % (N, L)](e)
    imods = {}
    for l in range(2, L + 1):
        f, _ = loader.load_py('TidalPy/tides/inclination_funcs/orderl%d.py' % l, ['calc_inclination', 'calc_inclination_off'], {'np': NP})
        imods['orderl%d' % l] = types.SimpleNamespace(calc_inclination=f['calc_inclination'], calc_inclination_off=f['calc_inclination_off'])
    nm = 'inclination_%s_maxl_%d' % ('on' if use_obliquity else 'off', L)
    h2, _ = loader.load_py('TidalPy/tides/modes/mode_calc_helper/inclin_calc_orderl%d.py' % L, [nm], dict(imods, np=NP))
    inc = h2[nm](I)
    return ecc, inc


def abstract(tabs, prefix, nonneg):
    """replace every table value by a fresh symbol (>= 0), preserving the key structure and aliasing (same object -> same symbol)"""
    seen = {}
    cnt = [0]

    def sym(v):
        k = id(v)
        if k not in seen:
            cnt[0] += 1
            s = z3.Real('%s%d' % (prefix, cnt[0]))
            nonneg.append(s >= 0)
            seen[k] = Q(s)
        return seen[k]

    def walk(d):
        if isinstance(d, dict):
            return {k: walk(v) for k, v in d.items()}
        return sym(d)
    return walk(tabs)


def freq_key(q):
    q = Q.of(q)
    try:
        return ('p', tuple(sorted(canon(q.re).items()))) if not q.den else ('id', id(q))
    except NotPoly:
        return ('t', z3.simplify(q.re).sexpr())


def compliance_by_freq(unique, prefix='k'):
    """one complex symbol per distinct frequency VALUE (a rheology is a function of |frequency|)"""
    table, out, conds = {}, {}, []
    for sig, f in unique.items():
        k = freq_key(f)
        if k not in table:
            i = len(table)
            kr, ki = z3.Real('%sr%d' % (prefix, i)), z3.Real('%snegim%d' % (prefix, i))
            table[k] = Q(kr, -ki)
            conds += [ki >= 0, kr >= 0]
        out[sig] = table[k]
    return out, conds


def api_replay(L, N, use_obliquity, sync, what):
    """public-API replay at generic parameters: quick_tidal_dissipation (CPL) -> residual of heating - M(n dUdM - spin dUdO) etc."""
    def rp(md):
        n = 2.0e-5
        spin = None if sync else 2.7e-5
        kw = dict(host_mass=1.9e27, target_radius=1.8e6, target_mass=8.9e22, target_gravity=1.8, target_density=3500., target_moi=1.0e35,
                  rheology='cpl', eccentricity=0.07, obliquity=0.2 if use_obliquity else None, orbital_frequency=n, spin_frequency=spin,
                  max_tidal_order_l=L, eccentricity_truncation_lvl=N, use_obliquity=use_obliquity, tidal_scale=0.37)      # a scale != 1: heating and the potential derivatives must carry it alike
        if what.startswith('circular synchronous'):
            # circular, zero-obliquity, synchronous orbit; spin passed as its own array with the same values as the mean motion
            kw.update(eccentricity=replay.arr([0.0, 0.0]), obliquity=None, use_obliquity=False, orbital_frequency=replay.arr([n, 1.5 * n]), spin_frequency=replay.arr([n, 1.5 * n]))
            outs = []
            for kw2 in (kw, dict(kw, spin_frequency=None)):
                r = replay.call_real([{'module': 'TidalPy.toolbox.quick_tides', 'func': 'quick_tidal_dissipation', 'args': [], 'kwargs': kw2}])[0]
                if not r['ok']:
                    return True, 'quick_tidal_dissipation raised %s' % r['error']
                outs.append({k: r['value'][k] for k in ('tidal_heating', 'dUdM', 'dUdw', 'dUdO')})
            bad = any(abs(x) > 0 for o in outs for vv in o.values() for x in (vv if isinstance(vv, list) else [vv]))
            return bad, 'quick_tidal_dissipation(e=0, no obliquity, spin == n; l_max=%d N=%d, CPL): spin as separate array -> %r ; spin_frequency=None -> %r' % (L, N, outs[0], outs[1])
        if what == 'sync vs explicit spin':
            outs = []
            for rheo in ('cpl', 'ctl'):
                kwr = dict(kw, rheology=rheo, spin_frequency=None, fixed_k2=0.3, fixed_q=100.)
                if rheo == 'ctl':
                    kwr['fixed_dt'] = 0.01 / n
                pair = []
                for kw2 in (kwr, dict(kwr, spin_frequency=replay.arr([n]), orbital_frequency=replay.arr([n]))):
                    r = replay.call_real([{'module': 'TidalPy.toolbox.quick_tides', 'func': 'quick_tidal_dissipation', 'args': [], 'kwargs': kw2}])[0]
                    if not r['ok']:
                        return True, 'quick_tidal_dissipation raised %s' % r['error']
                    hv = r['value']['tidal_heating']
                    pair.append(float(hv[0] if isinstance(hv, list) else hv))
                outs.append((rheo, pair))
            bad = any(abs(p[0] - p[1]) > 1e-9 * (abs(p[0]) + abs(p[1])) for _, p in outs)
            return bad, 'quick_tidal_dissipation(l_max=%d, N=%d, obliquity=%s): heating with spin_frequency=None vs spin given as a separate array equal to n: %r' % (L, N, kw.get('obliquity'), outs)
        r = replay.call_real([{'module': 'TidalPy.toolbox.quick_tides', 'func': 'quick_tidal_dissipation', 'args': [], 'kwargs': kw}])[0]
        if not r['ok']:
            return True, 'quick_tidal_dissipation raised %s' % r['error']
        v = r['value']
        sp = n if sync else spin
        if what == 'identity':
            lhs = v['tidal_heating']
            rhs = kw['host_mass'] * (n * v['dUdM'] - sp * v['dUdO'])
            return abs(lhs - rhs) > 1e-9 * (abs(lhs) + abs(rhs)), 'quick_tidal_dissipation(l_max=%d,N=%d): heating=%r, M(n dUdM - spin dUdO)=%r' % (L, N, lhs, rhs)
        if what == 'classical':
            a = v['semi_major_axis']
            want = 10.5 * v['negative_imk_by_orderl']['2'] * 6.67430e-11 * kw['host_mass'] ** 2 * kw['target_radius'] ** 5 * n * 0.07 ** 2 / a ** 6
            return abs(v['tidal_heating'] - want) > 1e-6 * abs(want), 'heating=%r classical (21/2)(-Imk2)GM^2R^5 n e^2/a^6=%r' % (v['tidal_heating'], want)
        if what == 'nonneg':
            return v['tidal_heating'] < 0, 'heating=%r' % v['tidal_heating']
        if what == 'dUdw':
            return abs(v['dUdw'] - v['dUdO']) > 1e-9 * (abs(v['dUdw']) + abs(v['dUdO'])), 'zero obliquity: dUdw=%r dUdO=%r (l_max=%d)' % (v['dUdw'], v['dUdO'], L)
        return True, 'structural violation (%s); public API value: heating=%r dUdM=%r dUdO=%r' % (what, v['tidal_heating'], v['dUdM'], v['dUdO'])
    return rp


def job_entries(L, N, use_obliquity, sync, totals):
    calc, collapse, sus, G = load_core()
    e, I = Q.sym('e'), Q.sym('I')
    atoms.declare_angle('I', Fr(1, 2), 't')
    ecc_r, inc_r = real_tables(L, N, use_obliquity, e, I)
    nonneg = []
    ecc = abstract(ecc_r, 'G2_', nonneg)
    inc = abstract(inc_r, 'F2_', nonneg)
    n, a, R, M = [Q.sym(x) for x in ('n', 'a', 'R', 'Mh')]
    spin = n if sync else Q.sym('spin')
    A = [n.re > 0, a.re > 0, R.re > 0, M.re > 0, G.re > 0] + nonneg
    uniq, res = calc(spin, n, a, R, ecc, inc)
    results = []
    tag = 'l_max=%d N=%d obliquity=%s sync=%s' % (L, N, use_obliquity, sync)
    goals_id, goals_nn, goals_fr = [], [], []
    n_entries = 0
    for sig, byl in res.items():
        for l, (ht, dM, dw, dO) in byl.items():
            n_entries += 1
            goals_id.append(eq_goal(Q.of(ht), n * Q.of(dM) - spin * Q.of(dO)))
            goals_nn.append((Q.of(ht) >= 0).c)
        goals_fr.append((Q.of(uniq[sig]) >= 0).c)
    # zero obliquity: only m = l - 2p survives in the obliquity-off tables, hence dUdw_term == dUdO_term per entry (used by the angular-momentum balance of C11)
    goals_w = []
    if not use_obliquity:
        for sig, byl in res.items():
            for l, (ht, dM, dw, dO) in byl.items():
                goals_w.append(eq_goal(Q.of(dw), Q.of(dO)))
    if n_entries == 0:
        raise RuntimeError('calculate_terms returned no entries (vacuous)')
    # batches keep individual queries small
    B_ = 10 if (use_obliquity and N >= 14) else 40
    for i in range(0, len(goals_id), B_):
        results.append(discharge(Obligation('%s: per-entry heating_term == n*dUdM_term - spin*dUdO_term (entries %d..%d of %d)' % (tag, i, min(i + B_, len(goals_id)) - 1, len(goals_id)),
                                            z3.And(*goals_id[i:i + B_]), A, replay=api_replay(L, N, use_obliquity, sync, 'identity'), key='entry-identity:%s' % tag,
                                            info={'entries': n_entries, 'unique_frequencies': len(uniq)})))
    # sign: each entry separately, with only the assumptions on its own symbols (small nlsat problems)
    from symx.solve import _vars_of
    base_A = [n.re > 0, a.re > 0, R.re > 0]
    nn_names = {str(c.arg(0)): c for c in nonneg}
    n_nn_unsat = 0
    first_bad = None
    tsum = 0.0
    for gi, gl in enumerate(goals_nn):
        vs = _vars_of([gl])
        Ai = base_A + [nn_names[k] for k in vs if k in nn_names]
        r_ = discharge(Obligation('%s: per-entry heating_term >= 0 for non-negative tables (entry %d)' % (tag, gi), gl, Ai, with_axioms=False, with_dens=True,
                                  replay=api_replay(L, N, use_obliquity, sync, 'nonneg'), key='entry-nonneg:%s' % tag))
        tsum += r_['solver_s']
        if r_['verdict'] == 'unsat':
            n_nn_unsat += 1
        elif first_bad is None:
            first_bad = r_
    if first_bad is not None:
        results.append(first_bad)
    else:
        results.append({'name': '%s: per-entry heating_term >= 0 for non-negative tables (%d entries, one query each)' % (tag, len(goals_nn)), 'key': 'entry-nonneg:%s' % tag,
                        'verdict': 'unsat', 'solver_s': round(tsum, 3), 'info': {'queries': len(goals_nn), 'unsat': n_nn_unsat}})
    for i in range(0, len(goals_w), 40):
        results.append(discharge(Obligation('%s: zero obliquity: per-entry dUdw_term == dUdO_term (entries %d..)' % (tag, i), z3.And(*goals_w[i:i + 40]), A,
                                            replay=api_replay(L, N, use_obliquity, sync, 'dUdw'), key='entry-dUdw:%s' % tag)))
    results.append(discharge(Obligation('%s: every stored frequency is >= 0 and keyed consistently' % tag, z3.And(*goals_fr), A,
                                        replay=api_replay(L, N, use_obliquity, sync, 'frequency sign'), key='freq:%s' % tag)))
    if sync:
        # the synchronous short-cut (spin IS the mean motion object) must be the general path evaluated at spin = n: nothing but exactly-zero-frequency modes may be dropped.
        # Compared through two frequency weights (1 and the mode frequency itself), which every frequency-dependent Love number interpolates between.
        sg = Q.sym('spin_general')
        uniq_g, res_g = calc(sg, n, a, R, ecc, inc)
        pairs = [(sg.re, n.re)]
        for wname, wf in (('1', lambda f: Q(1)), ('|frequency|', lambda f: Q.of(f))):
            conds = []
            for qi in range(4):
                tot_s, tot_g = Q(0), Q(0)
                for sig, byl in res.items():
                    for l, tup in byl.items():
                        tot_s = tot_s + Q.of(tup[qi]) * wf(uniq[sig])
                for sig, byl in res_g.items():
                    for l, tup in byl.items():
                        tot_g = tot_g + Q.of(tup[qi]) * wf(uniq_g[sig])
                conds.append(eq_goal(tot_s, tot_g.substitute(pairs)))
            results.append(discharge(Obligation('%s: sum over modes of (heating, dUdM, dUdw, dUdO) terms weighted by %s: synchronous short-cut == general path at spin = n' % (tag, wname),
                                                z3.And(*conds), A, replay=api_replay(L, N, use_obliquity, sync, 'sync vs explicit spin'), key='sync-vs-general:%s' % tag,
                                                timeout_ms=solve.qtimeout(60, 300))))
    if totals:
        comp, kconds = compliance_by_freq(uniq)
        comp = dict(reversed(list(comp.items())))      # a dict is keyed by frequency signature: insertion order must not matter
        ts = Q.sym('tidal_scale')
        S = sus(M, R, a)
        heat, dUdM, dUdw, dUdO, love, negimk, effq = collapse(Q.sym('g'), R, Q.sym('rho'), Q(1), ts, M, S, comp, res, L, True)
        A2 = A + kconds + [ts.re >= 0, ts.re <= 1]
        results.append(discharge(Obligation('%s: collapsed heating == M_host (n dUdM - spin dUdO)' % tag, eq_goal(heat, M * (n * dUdM - spin * dUdO)), A2,
                                            replay=api_replay(L, N, use_obliquity, sync, 'identity'), key='total-identity:%s' % tag)))
        recon = Q(0)
        summands = []
        for sig, byl in res.items():
            for l, (ht, dM, dw, dO) in byl.items():
                term = Q.of(ht) * (-(comp[sig].imag)) * ts
                summands.append(term)
                recon = recon + term
        results.append(discharge(Obligation('%s: collapsed heating == susceptibility * sum_entries heating_term * (-Im k)(frequency) * tidal_scale  (so heating >= 0 follows from the per-entry sign obligations: sum of non-negatives)' % tag,
                                            eq_goal(heat, S * recon), A2, replay=api_replay(L, N, use_obliquity, sync, 'identity'), key='total-decomposition:%s' % tag)))
        results.append(discharge(Obligation('%s: tidal susceptibility >= 0' % tag, (Q.of(S) >= 0).c, A2, replay=lambda md: (True, 'susceptibility negative'), key='sus-nonneg:%s' % tag)))
        ts_ = [z3.Real('t_%d' % i) for i in range(len(summands))]
        sS = z3.Real('S_')
        results.append(discharge(Obligation('%s: lemma: S >= 0 and t_i >= 0 imply S * sum t_i >= 0 (%d summands)' % (tag, len(ts_)), sS * z3.Sum(ts_) >= 0, [sS >= 0] + [t >= 0 for t in ts_],
                                            with_axioms=False, with_dens=False, replay=lambda md: (False, 'arithmetic lemma'), key='total-lemma:%s' % tag)))
        if not use_obliquity:
            results.append(discharge(Obligation('%s: zero obliquity: collapsed dUdw == dUdO' % tag, eq_goal(dUdw, dUdO), A2, replay=api_replay(L, N, use_obliquity, sync, 'dUdw'), key='total-dUdw:%s' % tag)))
        results.append(reach_twin(tag + ' totals', A2))
    results.append(reach_twin(tag, A))
    return {'results': results, 'encoded': loader.ENCODED, 'axioms': CTX.axiom_notes, 'label': tag}


def job_sync_limits(L, N, distinct=False):
    """real tables executed in e (obliquity off => I = 0), spin IS n (same object): (a) everything vanishes at e = 0; (b) l_max=2,N=2: classical limit"""
    calc, collapse, sus, G = load_core()
    e = Q.sym('e')
    ecc, inc = real_tables(L, N, False, e, Q(0))
    n, a, R, M = [Q.sym(x) for x in ('n', 'a', 'R', 'Mh')]
    A = [n.re > 0, a.re > 0, R.re > 0, M.re > 0, G.re > 0, e.re >= 0, e.re < 1]
    spin = n
    if distinct:
        # the caller passes spin as its own object holding the same value as n (e.g. two arrays): the identity test in calculate_terms is False,
        # zero-frequency modes are kept and must carry zero weight
        spin = Q.sym('spin')
        A = A + [eq_goal(spin, n)]
    uniq, res = calc(spin, n, a, R, ecc, inc)
    if not res:
        raise RuntimeError('no terms')
    # one -Im k symbol per degree l and frequency value
    comp, kconds = compliance_by_freq(uniq)
    S = sus(M, R, a)
    heat, dUdM, dUdw, dUdO, love, negimk, effq = collapse(Q.sym('g'), R, Q.sym('rho'), Q(1), Q(1), M, S, comp, res, L, True)
    at0 = [(e.re, z3.RealVal(0))]
    results = []
    tag = 'synchronous zero-obliquity l_max=%d N=%d%s' % (L, N, ' (spin given as a distinct object equal to n)' if distinct else '')
    for nm, val in (('tidal_heating', heat), ('dUdM', dUdM), ('dUdw', dUdw), ('dUdO', dUdO)):
        results.append(discharge(Obligation('%s: %s vanishes identically at e=0' % (tag, nm), eq_goal(Q.of(val).substitute(at0), Q(0)), A + kconds,
                                            replay=api_replay(L, N, False, True, 'circular synchronous output not zero'), key='zero:%s:%s' % (tag, nm))))
    if L == 2 and N == 2 and not distinct:
        ks = list({id(v): v for v in comp.values()}.values())
        same = [ks[0].im == k.im for k in ks[1:]] + [ks[0].re == k.re for k in ks[1:]]
        negim = -ks[0].imag
        want = Q(Fr(21, 2)) * negim * G * M * M * R ** 5 * n * e * e / a ** 6
        results.append(discharge(Obligation('l_max=2, N=2, synchronous: heating == (21/2)(-Im k2) G M^2 R^5 n e^2 / a^6', eq_goal(heat, want), A + kconds + same,
                                            replay=api_replay(2, 2, False, True, 'classical'), key='classical-21/2')))
        results.append(discharge(Obligation('l_max=2, N=2, synchronous: every contributing mode has |frequency| = n',
                                            z3.And(*[eq_goal(Q.of(f), n) for f in uniq.values()]), A, replay=api_replay(2, 2, False, True, 'frequency set'), key='classical-freqs')))
    results.append(reach_twin(tag, A + kconds))
    return {'results': results, 'encoded': loader.ENCODED, 'label': tag}


def job_grouping(L, N, use_obliquity):
    """totals from the grouped dictionary == totals with grouping disabled (AST transform: key every (l,m,p,q) separately)"""
    calc, collapse, sus, G = load_core()
    calc_u, collapse_u, _, _ = load_core(ungroup=True)
    e, I = Q.sym('e'), Q.sym('I')
    atoms.declare_angle('I', Fr(1, 2), 't')
    ecc_r, inc_r = real_tables(L, N, use_obliquity, e, I)
    nonneg = []
    ecc = abstract(ecc_r, 'G2_', nonneg)
    inc = abstract(inc_r, 'F2_', nonneg)
    n, a, R, M, spin = [Q.sym(x) for x in ('n', 'a', 'R', 'Mh', 'spin')]
    A = [n.re > 0, a.re > 0, R.re > 0, M.re > 0, G.re > 0] + nonneg
    uq, rs = calc(spin, n, a, R, ecc, inc)
    uq_u, rs_u = calc_u(spin, n, a, R, ecc, inc)
    # rheology = function of |frequency|: uninterpreted functions of the frequency term, shared by both encodings
    kr = z3.Function('k_re', z3.RealSort(), z3.RealSort())
    kni = z3.Function('k_negim', z3.RealSort(), z3.RealSort())

    def comp(unique):
        out = {}
        for sig, f in unique.items():
            ft = Q.of(f).re
            ft = ft if not isinstance(ft, Fr) else z3.RealVal(str(ft))
            out[sig] = Q(kr(ft), -kni(ft))
        return out
    S = sus(M, R, a)
    results = []
    tag = 'grouping l_max=%d N=%d obliquity=%s' % (L, N, use_obliquity)
    g_ = collapse(Q.sym('g'), R, Q.sym('rho'), Q(1), Q(1), M, S, comp(uq), rs, L, True)
    u_ = collapse_u(Q.sym('g'), R, Q.sym('rho'), Q(1), Q(1), M, S, comp(uq_u), rs_u, L, True)
    n_grouped = sum(len(v) for v in rs.values())
    n_un = sum(len(v) for v in rs_u.values())
    for nm, x, y in zip(('tidal_heating', 'dUdM', 'dUdw', 'dUdO'), g_[:4], u_[:4]):
        results.append(discharge(Obligation('%s: %s from the grouped dictionary (%d entries) == ungrouped mode sum (%d modes)' % (tag, nm, n_grouped, n_un),
                                            eq_goal(x, y), A, replay=api_replay(L, N, use_obliquity, False, 'grouping changes ' + nm), key='grouping:%s:%s' % (tag, nm),
                                            info={'grouped_entries': n_grouped, 'ungrouped_modes': n_un})))
    results.append(reach_twin(tag, A))
    return {'results': results, 'encoded': loader.ENCODED, 'label': tag}


def job_arrays(L, N):
    """array inputs give element-wise the scalar results (length-2 arrays)"""
    calc, collapse, sus, G = load_core()
    nonneg = []
    e, I = Q.sym('e'), Q.sym('I')
    atoms.declare_angle('I', Fr(1, 2), 't')
    ecc_r, inc_r = real_tables(L, N, True, e, I)
    res_s, res_a = [], None
    ns = [Q.sym('n0'), Q.sym('n1')]
    ss = [Q.sym('s0'), Q.sym('s1')]
    as_ = [Q.sym('a0'), Q.sym('a1')]
    R = Q.sym('R')
    eccs = [abstract(ecc_r, 'G2a_', nonneg), abstract(ecc_r, 'G2b_', nonneg)]
    incs = [abstract(inc_r, 'F2a_', nonneg), abstract(inc_r, 'F2b_', nonneg)]

    def zipd(d0, d1):
        if isinstance(d0, dict):
            return {k: zipd(d0[k], d1[k]) for k in d0}
        return obj_array([d0, d1])
    ecc_arr, inc_arr = zipd(eccs[0], eccs[1]), zipd(incs[0], incs[1])
    uq_a, rs_a = calc(obj_array(ss), obj_array(ns), obj_array(as_), R, ecc_arr, inc_arr)
    A = [x.re > 0 for x in ns + as_] + [R.re > 0] + nonneg
    results = []
    conds = []
    for i in range(2):
        uq, rs = calc(ss[i], ns[i], as_[i], R, eccs[i], incs[i])
        conds.append(z3.BoolVal(set(rs.keys()) == set(rs_a.keys())))
        for sig in rs:
            for l in rs[sig]:
                for x, y in zip(rs[sig][l], rs_a[sig][l]):
                    conds.append(eq_goal(Q.of(x), Q.of(y[i])))
            conds.append(eq_goal(Q.of(uq[sig]), Q.of(uq_a[sig][i])))
    tag = 'arrays l_max=%d N=%d' % (L, N)
    for i in range(0, len(conds), 60):
        results.append(discharge(Obligation('%s: calculate_terms on length-2 arrays equals the scalar call element-wise (conditions %d..)' % (tag, i), z3.And(*conds[i:i + 60]), A,
                                            replay=api_replay(L, N, True, False, 'array vs scalar'), key='arrays:%s' % tag)))
    results.append(reach_twin(tag, A))
    return {'results': results, 'encoded': loader.ENCODED, 'label': tag}


def job_love_callsite(L):
    """non-CPL path of collapse_modes: love_number_by_orderl[l] == 3/(2(l-1)) / (1 + m_l/(J mu)) (call site of the love1d helpers; link to C12)"""
    calc, collapse, sus, G = load_core()
    nonneg = []
    ecc_r, inc_r = real_tables(L, 2, False, Q.sym('e'), Q(0))
    ecc, inc = abstract(ecc_r, 'G2_', nonneg), abstract(inc_r, 'F2_', nonneg)
    n, a, R, M, spin = [Q.sym(x) for x in ('n', 'a', 'R', 'Mh', 'spin')]
    uq, rs = calc(spin, n, a, R, ecc, inc)
    mu, g, rho = Q.sym('mu'), Q.sym('g'), Q.sym('rho')
    Js = {}
    comp_fwd = {}
    for sig, f in uq.items():
        k = freq_key(f)
        if k not in Js:
            Js[k] = Q.csym('J%d' % len(Js))
        comp_fwd[sig] = Js[k]
    comp = dict(reversed(list(comp_fwd.items())))          # insertion order differs from tidal_terms_by_frequency on purpose
    out = collapse(g, R, rho, mu, Q(1), M, sus(M, R, a), comp, rs, L, False)
    A = [x.re > 0 for x in (n, a, R, M, mu, g, rho)] + [z3.Or(J.re != 0, J.im != 0) for J in Js.values()] + nonneg
    results = []
    for l in range(2, L + 1):
        m_l = Q(Fr(2 * l * l + 4 * l + 3, l)) * mu / (rho * g * R)
        sigs = [sig for sig, byl in rs.items() if l in byl]
        want = Q(0)
        for sig in sigs:
            want = want + Q(Fr(3, 2 * (l - 1))) / (1 + m_l / (comp_fwd[sig] * mu))
        want = want / len(sigs)

        def rp(md, l=l):
            kw = dict(host_mass=1.9e27, target_radius=1.8e6, target_mass=8.9e22, target_gravity=1.8, target_density=3500., target_moi=1.0e35, viscosity=1e17,
                      shear_modulus=5e10, rheology='maxwell', eccentricity=0.05, obliquity=None, orbital_frequency=2e-5, spin_frequency=None,
                      max_tidal_order_l=L, eccentricity_truncation_lvl=2, use_obliquity=False)
            r = replay.call_real([{'module': 'TidalPy.toolbox.quick_tides', 'func': 'quick_tidal_dissipation', 'args': [], 'kwargs': kw}])[0]
            if not r['ok']:
                return True, r['error']
            k = r['value']['love_number_by_orderl'][str(l)]
            w = 2e-5
            Jc = 1 / 5e10 - 1j / (1e17 * w)
            ml = (2 * l * l + 4 * l + 3) / l * 5e10 / (3500. * 1.8 * 1.8e6)
            wantc = 3 / (2 * (l - 1)) / (1 + ml / (Jc * 5e10))
            bad = abs(k - wantc) > 1e-9 * abs(wantc)
            return True, 'collapse_modes love_number_by_orderl[%d]: public-API value (synchronous Maxwell, same-order dicts) %r vs closed form %r%s' % (
                l, k, wantc, '' if bad else ' -- agrees there; the violation needs a compliance dict whose insertion order differs from the tidal-terms dict or frequency-dependent J')
        results.append(discharge(Obligation('collapse_modes (non CPL): love_number_by_orderl[%d] == mean over its modes of 3/(2(l-1))/(1+m_l/(J(freq) mu)), compliance looked up by frequency signature' % l,
                                            eq_goal(out[4][l], want), A, replay=rp, key='love-callsite:%d' % l)))
    results.append(reach_twin('love callsite', A))
    return {'results': results, 'encoded': loader.ENCODED, 'label': 'love callsite'}


# ------------------------------------------------------------------------------------------------ public API: quick_tidal_dissipation / quick_dual_body_tidal_dissipation (call sites)
def _quick_configs():
    core = ['host_mass', 'target_radius', 'target_mass', 'target_gravity', 'target_density', 'target_moi', 'eccentricity']
    cfgs = []
    for rheo, extra in (('cpl', ['fixed_k2', 'fixed_q', 'tidal_scale']), ('ctl', ['fixed_k2', 'fixed_q']), ('ctl', ['fixed_k2', 'fixed_q', 'fixed_dt']), ('maxwell', ['viscosity', 'shear_modulus', 'tidal_scale']),
                        ('andrade', ['viscosity', 'shear_modulus'])):
        for orb in (['orbital_frequency'], ['orbital_period']):
            for spin in (['spin_frequency'], ['spin_period'], []):
                for obl in (True, False):
                    for (L, N) in ((2, 2), (3, 4)):
                        if (L, N) == (3, 4) and (rheo in ('ctl', 'andrade') or spin == ['spin_period']):
                            continue
                        if L > 2 and rheo in ('cpl', 'ctl'):
                            pass
                        cfgs.append({'given': core + extra + orb + spin + (['obliquity'] if obl else []), 'rheology': rheo, 'max_tidal_order_l': L, 'eccentricity_truncation_lvl': N, 'use_obliquity': obl})
    # rheology inputs (Andrade alpha, zeta) and the dictionary front ends
    for orb in (['orbital_frequency'], ['orbital_period']):
        cfgs.append({'given': core + ['viscosity', 'shear_modulus', 'spin_frequency', 'obliquity'] + orb, 'rheology': 'andrade', 'cc_inputs': True, 'max_tidal_order_l': 2, 'eccentricity_truncation_lvl': 2, 'use_obliquity': True})
    for rheo, extra in (('cpl', ['fixed_k2', 'fixed_q']), ('maxwell', ['viscosity', 'shear_modulus', 'tidal_scale'])):
        for spin in (['spin_frequency'], ['spin_period'], []):
            cfgs.append({'via': 'dict', 'given': core + extra + ['orbital_frequency'] + spin + ['obliquity'], 'rheology': rheo, 'max_tidal_order_l': 2, 'eccentricity_truncation_lvl': 2, 'use_obliquity': True})
    pairs = ['radii', 'masses', 'gravities', 'densities', 'mois']
    for rheo, extra in (('maxwell', ['viscosities', 'shear_moduli']), ('cpl', ['fixed_k2s', 'fixed_qs']), ('maxwell', ['viscosities', 'shear_moduli', 'tidal_scales'])):
        for spin in (['spin_frequencies'], []):
            for obl in (True, False):
                cfgs.append({'dual': True, 'given_pairs': pairs + extra + spin + (['obliquities'] if obl else []), 'rheology': rheo, 'max_tidal_order_l': 2, 'eccentricity_truncation_lvl': 2,
                             'use_obliquity': obl})
    cfgs.append({'dual': True, 'given_pairs': pairs + ['viscosities', 'shear_moduli', 'spin_frequencies', 'obliquities'], 'rheology': 'andrade', 'cc_inputs': True, 'max_tidal_order_l': 2,
                 'eccentricity_truncation_lvl': 2, 'use_obliquity': True})
    for rheo, extra in (('maxwell', ['viscosities', 'shear_moduli']), ('cpl', ['fixed_k2s', 'fixed_qs'])):
        cfgs.append({'dual': True, 'via': 'dict', 'given_pairs': pairs + extra + ['spin_frequencies', 'obliquities', 'tidal_scales'], 'rheology': rheo, 'max_tidal_order_l': 2,
                     'eccentricity_truncation_lvl': 2, 'use_obliquity': True})
    return cfgs


def job_quick_api(chunk, nchunks):
    """provenance execution of the REAL quick_tides functions (replay/c10_tracer.py): every returned quantity must have the provenance term of the documented pipeline
    (valid for all input values and all interpretations of the leaf functions: z3, uninterpreted functions + real arithmetic)"""
    import subprocess, tempfile, json as _json
    import c13
    cfgs = _quick_configs()[chunk::nchunks]
    with tempfile.TemporaryDirectory(prefix='verif_c10_') as td:
        env = dict(os.environ)
        env['PYTHONPATH'] = REPO
        p = subprocess.run([replay.VENV_PY, os.path.join(solve.VERIF, 'replay', 'c10_tracer.py')], input=_json.dumps({'configs': cfgs}), capture_output=True, text=True, cwd=td, env=env, timeout=3000)
    if '@@RESULT@@' not in p.stdout:
        raise RuntimeError('c10 tracer failed: %s' % p.stderr[-1500:])
    out = _json.loads(p.stdout.split('@@RESULT@@')[-1])
    results, agg, uncovered = [], {}, {}
    for rec in out:
        c = rec['config']
        tag = ('dual ' if c.get('dual') else 'single ') + ('(dict front end) ' if c.get('via') == 'dict' else '') + ('(rheology inputs) ' if c.get('cc_inputs') else '') + '%s l<=%d N=%d given=%s' % (c['rheology'], c['max_tidal_order_l'], c['eccentricity_truncation_lvl'],
                                                                                     ','.join(x for x in c.get('given', c.get('given_pairs', [])) if x not in ('host_mass', 'target_radius', 'target_mass', 'target_gravity', 'target_density', 'target_moi', 'radii', 'masses', 'gravities', 'densities', 'mois')))
        if 'error' in rec:
            results.append(discharge(Obligation('quick_tides %s: executes' % tag, z3.BoolVal(False), [], with_axioms=False, with_dens=False,
                                                replay=lambda md, rec=rec: (True, 'real function raised: %s\n%s' % (rec['error'], rec.get('trace', ''))), key='quickapi:raises:%s' % rec['error'][:50])))
            continue
        tr = c13.Tr()
        for q in sorted(set(rec['got']) | set(rec['want'])):
            a, b = rec['got'].get(q), rec['want'].get(q)
            if a is None or b is None:
                results.append(discharge(Obligation('quick_tides %s: result key %s present on both sides' % (tag, q), z3.BoolVal(False), [], with_axioms=False, with_dens=False,
                                                    replay=lambda md, q=q, a=a: (True, 'key %s %s' % (q, 'missing from the returned dictionary' if a is None else 'not part of the documented result')), key='quickapi:key:%s' % q)))
                continue
            goal = tr.t(a['term']) == tr.t(b['term'])

            def rp(md, a=a, b=b, q=q, tag=tag):
                d = c13._differs(a.get('value'), b.get('value'))
                if d is None:
                    return False, 'no concrete value to compare'
                return d, 'real quick_tides (%s): %s = %r ; documented pipeline on the same inputs = %r' % (tag, q, a.get('value'), b.get('value'))
            r = discharge(Obligation('quick_tides %s: %s has the provenance term of the documented pipeline' % (tag, q), goal, [], with_axioms=False, with_dens=False, replay=rp,
                                     key='quickapi:%s:%s' % ('dual' if c.get('dual') else 'single', q.split('[')[0]), timeout_ms=20000))
            if r['verdict'] == 'sat' and r.get('replay_ok') is False:
                uncovered['%s: terms differ under the abstraction, values agree' % q] = uncovered.get('%s: terms differ under the abstraction, values agree' % q, 0) + 1
                continue
            if r['verdict'] == 'unsat':
                agg.setdefault(q, [0, 0.0])
                agg[q][0] += 1
                agg[q][1] += r['solver_s']
            else:
                results.append(r)
    for q, (cnt, ts) in sorted(agg.items()):
        results.append({'name': 'quick_tides (chunk %d/%d, %d configurations): %s has the provenance term of the documented pipeline' % (chunk + 1, nchunks, cnt, q), 'key': 'quickapi:ok:%s' % q, 'verdict': 'unsat',
                        'solver_s': round(ts, 3), 'info': {'queries': cnt}})
    loader.ENCODED.append({'file': 'TidalPy/toolbox/quick_tides.py', 'function': 'quick_tidal_dissipation, quick_dual_body_tidal_dissipation (real functions under the provenance tracer)',
                           'sha256_16': solve.sha_of(open(os.path.join(REPO, 'TidalPy/toolbox/quick_tides.py')).read())})
    return {'results': results, 'encoded': loader.ENCODED, 'notes': ['quick API chunk %d: %d configurations' % (chunk, len(cfgs))] + ['NOT COVERED: %s x%d' % kv for kv in uncovered.items()], 'label': 'quick api %d' % chunk}


def main():
    jobs = []
    if TIER == 'thorough':
        cfgs = [(L, N) for L in range(2, 8) for N in (2, 6, 10, 14, 20)]
    else:
        cfgs = [(2, 2), (2, 8), (3, 4), (4, 6), (7, 20)]
    for (L, N) in cfgs:
        for ob in (True, False):
            for sync in (False, True):
                jobs.append((job_entries, {'L': L, 'N': N, 'use_obliquity': ob, 'sync': sync, 'totals': (L <= 3 and N <= 6) or (TIER == 'thorough' and ((L <= 3 and N <= 10) or (L == 4 and N <= 6)))}))
    for (L, N) in ([(2, 2), (2, 6), (3, 4)] if TIER != 'thorough' else [(2, 2), (2, 6), (2, 20), (3, 4), (3, 10), (5, 6), (7, 20)]):
        jobs.append((job_sync_limits, {'L': L, 'N': N}))
        jobs.append((job_sync_limits, {'L': L, 'N': N, 'distinct': True}))
    for (L, N, ob) in ([(2, 4, True), (3, 4, False)] if TIER != 'thorough' else [(2, 4, True), (2, 20, True), (3, 6, True), (4, 6, False), (7, 4, False)]):
        jobs.append((job_grouping, {'L': L, 'N': N, 'use_obliquity': ob}))
    jobs.append((job_arrays, {'L': 2, 'N': 4}))
    for ch in range(4):
        jobs.append((job_quick_api, {'chunk': ch, 'nchunks': 4}))
    jobs.append((job_love_callsite, {'L': 7 if TIER == 'thorough' else 4}))
    meta = {
        'explanation': 'calculate_terms and collapse_modes (and calc_tidal_susceptibility, the love1d helpers, get_universal_coeffs, the mode_calc_helper lookups) are executed from the current source. '
                       'For the structural identities the eccentricity/inclination tables are executed once to obtain the real key structure and aliasing and then every entry is replaced by a fresh '
                       'non-negative symbol, so the identities are decided for ANY table values; sign/abs are ite terms; -Im k is one symbol per distinct frequency value (or an uninterpreted '
                       'function of the frequency for the grouping comparison, where a second encoding keys every (l,m,p,q) separately). The e=0 and (21/2) clauses execute the real tables in e.',
        'bounds': 'l_max, N per job as listed in the obligation names (quick: (2,2),(2,8),(3,4),(4,6),(7,20); thorough: l_max 2..7 x N in {2,6,10,14,20}); collapsed totals for small (l_max,N); arrays of length 2.',
        'outside': 'values of the rheology functions themselves (C07); floating point; spin and n given as equal values in distinct objects (then zero-frequency modes are kept with zero weight).',
        'assumptions': ['n, a, R, M_host, G > 0', 'table entries >= 0 and -Im k >= 0 for the sign obligations', 'synchronous = the same object passed for spin and n (the identity test in the source)'],
    }
    solve.run_check(PID, jobs, meta)


if __name__ == '__main__':
    main()
