"""C16 — world construction bookkeeping (geometry, slices, gravity, mass/volume sums), radius scaling, derivation never mutates inputs, naming loop terminates with a distinct name."""
import sys, os, ast, copy, itertools, json, subprocess, tempfile
sys.path.insert(0, os.path.dirname(os.path.dirname(os.path.abspath(__file__))))
import z3
import numpy as np
from fractions import Fraction as Fr
from symx.values import Q, B, CTX, eq_goal
from symx import loader, solve, replay, atoms
from symx.explore import Explorer
from symx.npshim import NP, obj_array, SArr, set_pi
from symx.solve import Obligation, discharge, reach_twin, TIER, REPO, VERIF

PID = 'C16'


class ParameterMissingError(Exception):
    pass


class MissingArgumentError(Exception):
    pass


class NPx(NP):
    @staticmethod
    def linspace(start, stop, num, endpoint=True):
        start, stop = Q.of(start), Q.of(stop)
        n = int(num)
        if n == 1:
            return obj_array([start])
        return obj_array([start + (stop - start) * Fr(i, n - 1) for i in range(n)])


def load_geometry():
    pi = set_pi()
    NPx.pi = pi
    G = Q.sym('G')

    class Log:
        def debug(self, *a):
            pass
        error = warning = info = debug
    ns = {'np': NPx, 'G': G, 'log': Log(), 'extensive_checks': False, 'MissingArgumentError': MissingArgumentError, 'float_eps': Fr('2.2e-16'),
          'ParameterMissingError': ParameterMissingError, 'Union': None}
    fg, _ = loader.load_py('TidalPy/structures/layers/helper.py', ['find_geometry_from_config'], ns)
    sg, _ = loader.load_py('TidalPy/structures/physical.py', ['PhysicalObjSpherical.set_geometry'], ns)
    return fg['find_geometry_from_config'], sg['PhysicalObjSpherical.set_geometry'], pi, G


class Obj:
    """duck-typed PhysicalObjSpherical: public names read the private slots the method writes"""
    moi = None

    def __init__(self, num_slices):
        object.__setattr__(self, 'num_slices', num_slices)

    def __getattr__(self, name):
        if name.startswith('_'):
            raise AttributeError(name)
        try:
            return object.__getattribute__(self, '_' + name)
        except AttributeError:
            raise AttributeError(name)


def job_set_geometry(num_slices):
    fgc, setgeo, pi, G = load_geometry()
    R, t, M, Mb = Q.sym('radius'), Q.sym('thickness'), Q.sym('mass'), Q.sym('mass_below')
    pos = [R.re > 0, t.re > 0, (t <= R).c, M.re > 0, Mb.re >= 0, G.re > 0]
    CTX.facts = pos
    o = Obj(num_slices)
    ex = Explorer(assumptions=pos)
    paths = ex.run(lambda: (setgeo(o, R, M, t, Mb, True, True), o)[1])
    results = []
    for p in paths:
        if p.exc is not None:
            raise RuntimeError('set_geometry raised %r' % p.exc)
        A = pos + p.pc
        tag = 'set_geometry (%d slices, path %s)' % (num_slices, ''.join('T' if d else 'F' for d in p.decisions))
        shell = Fr(4, 3) * pi * (R ** 3 - (R - t) ** 3)
        rad = [Q.of(x) for x in o._radii]
        vs = [Q.of(x) for x in o._volume_slices]
        mbs = [Q.of(x) for x in o._mass_below_slices]
        ms = [Q.of(x) for x in o._mass_slices]
        gs = [Q.of(x) for x in o._gravity_slices]
        goals = {
            'inner radius = radius - thickness; volume = shell volume; bulk density = mass/volume': z3.And(eq_goal(o._radius_inner, R - t), eq_goal(o._volume, shell), eq_goal(o._density_bulk * shell, M)),
            'gravity_outer = G (mass + mass_below) / radius^2': eq_goal(o._gravity_outer, G * (M + Mb) / (R * R)),
            'radial slices strictly increasing, inside (inner radius, radius], last slice at the outer radius':
                z3.And(*([(rad[0] > R - t).c, eq_goal(rad[-1], R)] + [(rad[i + 1] > rad[i]).c for i in range(len(rad) - 1)])),
            'slice volumes are positive and sum to the shell volume (telescoping)': z3.And(*([eq_goal(sum(vs, Q(0)), shell)] + [(v > 0).c for v in vs])),
            'slice masses sum to the layer mass; enclosed mass never decreases with radius and ends at mass_below + mass':
                z3.And(*([eq_goal(sum(ms, Q(0)), M), eq_goal(mbs[-1], Mb + M), (mbs[0] >= Mb).c] + [(mbs[i + 1] >= mbs[i]).c for i in range(len(mbs) - 1)])),
            'gravity at the top slice equals gravity_outer; slice gravity = G m_enclosed / r^2': z3.And(*([eq_goal(gs[-1], o._gravity_outer)] + [eq_goal(gs[i], G * mbs[i] / (rad[i] * rad[i])) for i in range(len(gs))])),
        }
        for nm, g in goals.items():
            def rp(md, nm=nm):
                return replay_geometry(md, num_slices, nm)
            results.append(discharge(Obligation('%s: %s' % (tag, nm), g, A, replay=rp, key='geometry:%s' % nm[:40])))
    results.append(reach_twin('set_geometry %d' % num_slices, pos))
    return {'results': results, 'encoded': loader.ENCODED, 'axioms': CTX.axiom_notes, 'label': 'set_geometry n=%d' % num_slices}


def replay_geometry(md, n, what):
    """real classes: build a one-layer world through the public API and compare the bookkeeping"""
    cfg = {'n': n, 'radius': float(md.get('radius', 2.0e6)), 'thickness_frac': 0.4}
    out = run_real_world(cfg)
    if out is None:
        return False, 'replay runner failed'
    return bool(out.get('geometry_bad')), 'real build_world (2 layers, %d slices): %s' % (n, json.dumps(out)[:400])


def run_real_world(cfg, timeout=600):
    with tempfile.TemporaryDirectory(prefix='verif_c16_') as td:
        env = dict(os.environ)
        env['PYTHONPATH'] = REPO
        try:
            p = subprocess.run([replay.VENV_PY, os.path.join(VERIF, 'replay', 'c16_replay.py')], input=json.dumps(cfg), capture_output=True, text=True, cwd=td, env=env, timeout=timeout)
        except subprocess.TimeoutExpired:
            return {'timeout': True}
    if '@@RESULT@@' not in p.stdout:
        return None
    return json.loads(p.stdout.split('@@RESULT@@')[-1])


def job_find_geometry():
    """find_geometry_from_config for every presence pattern of (radius, thickness, mass, density, mass_frac) x (bottom / middle / top layer): either ParameterMissingError or a
    geometry consistent with the layer below; exhaustive over the finite pattern space, the values symbolic"""
    fgc, setgeo, pi, G = load_geometry()
    Rw, Mw, Rb = Q.sym('world_radius'), Q.sym('world_mass'), Q.sym('radius_below')
    v = {k: Q.sym('cfg_' + k) for k in ('radius', 'thickness', 'mass', 'density', 'mass_frac')}
    pos = [x.re > 0 for x in list(v.values()) + [Rw, Mw, Rb]]
    results = []
    n_ok = n_raise = 0

    def rp_geo(present, layer_index, is_top, has_below, expect_raise):
        """replay on the real find_geometry_from_config with the model's numbers"""
        def rp(md):
            import math
            f = lambda k, d: float(md[k]) if md.get(k) is not None else d
            vals = {'radius': f('cfg_radius', 3.0), 'thickness': f('cfg_thickness', 1.0), 'mass': f('cfg_mass', 5.0), 'density': f('cfg_density', 2.0), 'mass_frac': f('cfg_mass_frac', 0.25)}
            Rw, Mw, Rb = f('world_radius', 4.0), f('world_mass', 40.0), f('radius_below', 2.0)
            cfgv = {k: vals[k] for k, pr in present.items() if pr}
            r = replay.call1('TidalPy.structures.layers.helper', 'find_geometry_from_config', cfgv, layer_index, is_top, Rw, Mw, Rb if has_below else None)
            if expect_raise is not None:
                raised = (not r['ok']) and 'ParameterMissingError' in (str(r.get('type')) + str(r.get('error')))
                return raised != expect_raise or (not r['ok'] and not raised), 'real find_geometry_from_config(%r, %d, %s, ...) %s' % (cfgv, layer_index, is_top, 'raised %s' % r.get('error') if not r['ok'] else 'returned %r' % (r['value'],))
            if not r['ok']:
                return True, 'real find_geometry_from_config(%r, %d, %s) raised %s' % (cfgv, layer_index, is_top, r.get('error'))
            radius, thickness, volume, mass, density = r['value']
            inner = radius - thickness
            close = lambda a, b: abs(a - b) <= 1e-9 * (abs(a) + abs(b)) + 1e-300
            bad = []
            if not close(volume, 4. / 3. * math.pi * (radius ** 3 - inner ** 3)):
                bad.append('volume')
            if layer_index == 0 and not close(inner + 1.0, 1.0):
                bad.append('inner radius of the bottom layer = %r' % inner)
            if layer_index != 0 and has_below and not close(inner, Rb):
                bad.append('inner radius %r != radius below %r' % (inner, Rb))
            if is_top and not present['radius'] and not present['thickness'] and not close(radius, Rw):
                bad.append('top radius %r != world radius %r' % (radius, Rw))
            want_mass = vals['mass'] if present['mass'] else (vals['density'] * volume if present['density'] else (Mw * vals['mass_frac'] if present['mass_frac'] else None))
            if want_mass is not None and not close(mass, want_mass):
                bad.append('mass %r != %r' % (mass, want_mass))
            return bool(bad), 'real find_geometry_from_config(%r, %d, %s, Rw=%r, Mw=%r, below=%r) = %r: %s' % (cfgv, layer_index, is_top, Rw, Mw, Rb if has_below else None, r['value'], bad)
        return rp
    for pattern in itertools.product((False, True), repeat=5):
        present = dict(zip(('radius', 'thickness', 'mass', 'density', 'mass_frac'), pattern))
        cfg = {k: v[k] for k, pr in present.items() if pr}
        for layer_index, is_top, below in ((0, False, None), (1, False, Rb), (2, True, Rb), (0, True, None)):
            try:
                radius, thickness, volume, mass, density = fgc(dict(cfg), layer_index, is_top, Rw, Mw, below)
            except ParameterMissingError:
                n_raise += 1
                geo_known = present['radius'] or present['thickness'] or (is_top and below is not None)
                mass_known = present['mass'] or present['density'] or present['mass_frac']
                ok = not (geo_known and mass_known)
                results.append(discharge(Obligation('find_geometry_from_config %s layer_index=%d top=%s: raises ParameterMissingError only when geometry or mass is under-determined' % (
                    sorted(cfg), layer_index, is_top), z3.BoolVal(ok), [], with_axioms=False, with_dens=False,
                    replay=rp_geo(dict(present), layer_index, is_top, below is not None, not (geo_known and mass_known)), key='find_geometry:raise')))
                continue
            n_ok += 1
            A = list(pos)
            # the supplied fields must be mutually consistent for the configuration to be valid
            if present['radius'] and present['thickness'] and below is not None:
                A.append(eq_goal(v['radius'] - v['thickness'], Rb))
            if present['radius'] and present['thickness'] and layer_index == 0:
                A.append(eq_goal(v['radius'], v['thickness']))
            inner = Q.of(radius) - Q.of(thickness)
            conds = [eq_goal(volume, Fr(4, 3) * pi * (Q.of(radius) ** 3 - inner ** 3))]
            if layer_index == 0:
                conds.append(eq_goal(inner, Q(0)))
            elif below is not None:
                conds.append(eq_goal(inner, Rb))
            if is_top and not present['radius'] and not present['thickness']:
                conds.append(eq_goal(radius, Rw))
            if present['mass']:
                conds.append(eq_goal(mass, v['mass']))
            elif present['density']:
                conds.append(eq_goal(mass, v['density'] * Q.of(volume)))
            elif present['mass_frac']:
                conds.append(eq_goal(mass, Mw * v['mass_frac']))
            results.append(discharge(Obligation('find_geometry_from_config %s layer_index=%d top=%s: inner radius = radius of the layer below (0 for the bottom layer), shell volume, mass from mass > density > mass_frac' % (
                sorted(cfg), layer_index, is_top), z3.And(*conds), A, replay=rp_geo(dict(present), layer_index, is_top, below is not None, None), key='find_geometry:value')))
    results.append(reach_twin('find_geometry', pos))
    return {'results': results, 'encoded': loader.ENCODED, 'axioms': CTX.axiom_notes, 'label': 'find_geometry (%d valid, %d raising patterns)' % (n_ok, n_raise)}


def job_layer_mass_below(nlayers):
    """LayerBase.set_geometry (structures/layers/basic.py): the mass handed to the spherical geometry as `mass_below` is the sum of ALL layers beneath (not only the neighbour), radius /
    mass / thickness are forwarded unchanged, the bottom layer's missing thickness is its radius, and the tidal volume fraction is volume / world volume"""
    class Log:
        def debug(self, *a):
            pass
        error = warning = info = debug
    rec = {}

    class Sup:
        def __init__(self, me):
            self.me = me

        def set_geometry(self, radius, mass, thickness, mass_below=None, update_state_geometry=True, build_slices=True):
            rec.update(radius=radius, mass=mass, thickness=thickness, mass_below=mass_below)
            self.me.volume = Q.sym('volume_of_layer')
    holder = {}
    ns = {'log': Log(), 'MissingArgumentError': MissingArgumentError, 'super': lambda: Sup(holder['me'])}
    fns, _ = loader.load_py('TidalPy/structures/layers/basic.py', ['LayerBase.set_geometry'], ns)
    f = fns['LayerBase.set_geometry']
    results = []
    masses = [Q.sym('layer_mass_%d' % i) for i in range(nlayers)]
    pos = [m.re > 0 for m in masses]
    for idx in range(nlayers):
        class L:
            pass
        layers = []
        for i in range(nlayers):
            o = L()
            o.mass = masses[i]
            o.layer_index = i
            layers.append(o)
        world = L()
        world.layers = layers
        world.volume = Q.sym('world_volume')
        me = layers[idx]
        me.world = world
        me.layer_below = layers[idx - 1] if idx > 0 else None
        me.use_tidal_vol_frac = True
        holder['me'] = me
        rec.clear()
        R, M, T = Q.sym('radius'), Q.sym('mass'), Q.sym('thickness')
        f(me, R, M, T)
        want = sum(masses[:idx], Q(0))
        conds = [eq_goal(Q.of(rec['mass_below']), want), eq_goal(Q.of(rec['radius']), R), eq_goal(Q.of(rec['mass']), M), eq_goal(Q.of(rec['thickness']), T),
                 eq_goal(Q.of(me.tidal_scale), me.volume / world.volume)]

        def rp(md, idx=idx):
            # public-API replay: a shipped multi-layer world: enclosed mass below each layer == sum of the masses of all layers beneath; surface gravity == G M / R^2
            out = run_real_world({'kind': 'mass_below', 'world': 'earth_simple'})
            if out is None or out.get('error'):
                return True, 'replay runner failed: %r' % (out,)
            return bool(out.get('bad')), 'real build_world(earth_simple): per layer (mass_below reported, sum of the masses of the layers beneath) = %r ; surface gravity_outer %r vs G M / R^2 %r' % (
                out.get('rows'), out.get('g_top'), out.get('g_want'))
        results.append(discharge(Obligation('LayerBase.set_geometry, layer %d of %d: mass_below = sum of the masses of ALL layers beneath; radius, mass, thickness forwarded; tidal_scale = volume / world volume' % (idx, nlayers),
                                            z3.And(*conds), pos, replay=rp, key='layer:mass_below')))
        if idx == 0:
            rec.clear()
            f(me, R, M)
            results.append(discharge(Obligation('LayerBase.set_geometry, bottom layer without thickness: thickness = radius', eq_goal(Q.of(rec['thickness']), R), pos,
                                                replay=lambda md: (True, 'bottom layer thickness default (current source)'), key='layer:bottom-thickness')))
    return {'results': results, 'encoded': loader.ENCODED, 'label': 'layer mass_below (%d layers)' % nlayers}


def job_stack(kind):
    """three layers stacked through find_geometry_from_config + set_geometry: contiguous, volumes sum to the world volume, masses sum to the world mass when it is derived from the layers"""
    fgc, setgeo, pi, G = load_geometry()
    Rw = Q.sym('world_radius')
    r = [Q.sym('r0'), Q.sym('r1')]
    rho = [Q.sym('rho%d' % i) for i in range(3)]
    pos = [r[0].re > 0, (r[1] > r[0]).c, (Rw > r[1]).c, G.re > 0] + [x.re > 0 for x in rho]
    CTX.facts = pos
    if kind == 'radius':
        cfgs = [{'radius': r[0], 'density': rho[0]}, {'radius': r[1], 'density': rho[1]}, {'radius': Rw, 'density': rho[2]}]
    elif kind == 'thickness':
        cfgs = [{'thickness': r[0], 'density': rho[0]}, {'thickness': r[1] - r[0], 'density': rho[1]}, {'density': rho[2]}]
    else:
        cfgs = [{'radius': r[0], 'density': rho[0]}, {'thickness': r[1] - r[0], 'density': rho[1]}, {'density': rho[2]}]
    layers = []
    below = None
    mass_below = Q(0)
    for i, c in enumerate(cfgs):
        radius, thickness, volume, mass, density = fgc(c, i, i == 2, Rw, None, below)
        o = Obj(2)
        setgeo(o, radius, mass, thickness, mass_below, True, True)
        layers.append(o)
        below = radius
        mass_below = mass_below + Q.of(mass)
    results = []
    world_vol = Fr(4, 3) * pi * Rw ** 3
    conds = {
        'contiguous: each inner radius equals the radius of the layer below, bottom starts at 0, top radius = world radius':
            z3.And(eq_goal(layers[0]._radius_inner, Q(0)), eq_goal(layers[1]._radius_inner, layers[0]._radius), eq_goal(layers[2]._radius_inner, layers[1]._radius), eq_goal(layers[2]._radius, Rw)),
        'layer volumes sum to the world volume': eq_goal(sum((Q.of(o._volume) for o in layers), Q(0)), world_vol),
        'concatenated slices strictly increasing across layer boundaries': z3.And(*[(Q.of(b) > Q.of(a)).c for a, b in zip(
            [x for o in layers for x in o._radii][:-1], [x for o in layers for x in o._radii][1:])]),
        'enclosed mass continues across boundaries and ends at the sum of the layer masses; surface gravity = G M / R^2':
            z3.And(eq_goal(layers[2]._mass_below_slices[-1], sum((Q.of(o._mass) for o in layers), Q(0))), eq_goal(layers[2]._gravity_outer, G * sum((Q.of(o._mass) for o in layers), Q(0)) / (Rw * Rw)),
                   (Q.of(layers[1]._mass_below_slices[0]) >= Q.of(layers[0]._mass_below_slices[-1])).c),
    }
    for nm, g in conds.items():
        results.append(discharge(Obligation('3-layer stack (layers given by %s): %s' % (kind, nm), g, pos, replay=lambda md: replay_geometry(md, 4, 'stack'), key='stack:%s' % nm[:30])))
    # world mass derived from layers: AST slice of LayeredWorld.reinit
    src = open(os.path.join(REPO, 'TidalPy/structures/world_types/layered.py')).read()
    tree = ast.parse(src)
    fn = [n for n in ast.walk(tree) if isinstance(n, ast.FunctionDef) and n.name == 'reinit'][0]
    stm = [n for n in ast.walk(fn) if isinstance(n, ast.If) and ast.unparse(n.test) == 'self.mass is None']
    if len(stm) != 1:
        raise RuntimeError('mass rule of LayeredWorld.reinit not found')
    loader.ENCODED.append({'file': 'TidalPy/structures/world_types/layered.py', 'function': 'LayeredWorld.reinit: world mass rule (AST slice)', 'sha256_16': solve.sha_of(ast.unparse(stm[0]))})
    for given in (None, Q.sym('config_mass')):
        wcfg = {'name': 'w', 'layers': {}} if given is None else {'name': 'w', 'layers': {}, 'mass': given}
        wsnap = copy.deepcopy(wcfg)
        wobj = type('W', (), {'mass': given, '_config': wcfg, 'config': wcfg})()
        env = {'self': wobj, 'running_layer_masses': mass_below}
        exec(compile(ast.Module(body=[stm[0]], type_ignores=[]), 'layered.py:mass', 'exec'), env)
        want = mass_below if given is None else given
        # ... and the rest of reinit (every top-level statement after the block that holds the mass rule: late set_geometry, tides set-up, config clean-up) runs on the same configuration
        # with the world mass already set, so that a later write of the derived mass into the configuration is seen as well
        top = [i for i, n in enumerate(fn.body) if any(x is stm[0] for x in ast.walk(n))][0]
        tail = fn.body[top + 1:]
        loader.ENCODED.append({'file': 'TidalPy/structures/world_types/layered.py', 'function': 'LayeredWorld.reinit: statements after the layer loop (AST slice, %d statements)' % len(tail),
                               'sha256_16': solve.sha_of('\n'.join(ast.unparse(x) for x in tail))})
        wobj2 = type('W2', (), {'mass': env['mass'], '_config': wcfg, 'config': wcfg, 'tides_on': False, 'set_geometry': lambda self, *a, **k: None})()
        env2 = {'self': wobj2, 'reinit_geometry': False, 'mass': env['mass'], 'radius': Q.sym('R_world'), 'update_state_geometry': True, 'setup_simple_tides': False, 'np': NP, 'log': type('L', (), {'__getattr__': lambda s, k: (lambda *a, **kw: None)})()}
        exec(compile(ast.Module(body=tail, type_ignores=[]), 'layered.py:reinit-tail', 'exec'), env2)

        def rp_cfg(md):
            out = run_real_world({'kind': 'derived_mass'})
            if not out:
                return True, 'the world-mass rule of LayeredWorld.reinit (current source) writes into the world configuration (real replay unavailable)'
            return True, 'real worlds: %s' % json.dumps(out)[:500]
        same_cfg = set(wcfg) == set(wsnap) and all(wcfg[k_] is wsnap[k_] or wcfg[k_] == wsnap[k_] for k_ in wsnap if k_ != 'mass') and (('mass' in wcfg) == ('mass' in wsnap))
        results.append(discharge(Obligation('LayeredWorld.reinit world-mass rule (%s): the world\'s configuration is left as the user wrote it (a mass derived from the layers is not stored as if it '
                                            'had been configured: derived worlds copy the configuration and would keep the stale value)' % ('mass not configured' if given is None else 'mass configured'),
                                            z3.BoolVal(bool(same_cfg)), pos, with_axioms=False, with_dens=False, replay=rp_cfg, key='stack:config-untouched')))
        results.append(discharge(Obligation('LayeredWorld.reinit: world mass = %s' % ('sum of layer masses when not configured' if given is None else 'configured mass when given'), eq_goal(env['mass'], want), pos,
                                            replay=lambda md: (True, 'world mass rule wrong'), key='stack:worldmass')))
    results.append(reach_twin('stack ' + kind, pos))
    return {'results': results, 'encoded': loader.ENCODED, 'axioms': CTX.axiom_notes, 'label': 'stack ' + kind}


def load_builder(build_world_stub):
    class Log:
        def debug(self, *a):
            pass
        info = warning = error = debug
    cc, _ = loader.load_py('TidalPy/structures/world_builder/config_handler.py', ['clean_world_config'], {'copy': copy})
    nm, _ = loader.load_py('TidalPy/utilities/dictionary_utils.py', ['nested_merge'], {'copy': copy})

    class NotYetImplementedError(Exception):
        pass
    ns = {'log': Log(), 'clean_world_config': cc['clean_world_config'], 'nested_merge': nm['nested_merge'], 'build_world': build_world_stub, 'MissingArgumentError': MissingArgumentError,
          'NotYetImplementedError': NotYetImplementedError}
    fns, ns = loader.load_py('TidalPy/structures/world_builder/world_builder.py', ['build_from_world', 'scale_from_world'], ns, transform=_fstring_transform)
    ns['_fstr'] = _fstr
    ns['_tick'] = _tick
    return fns, ns


# ---- symbolic strings for the naming block
class LoopBound(Exception):
    pass


_TICKS = {'n': 0}


def _tick():
    _TICKS['n'] += 1
    if _TICKS['n'] > 2:
        raise LoopBound('while-loop reached a second identical iteration: state repeats, the loop never terminates')


class SymStr:
    def __init__(self, z):
        self.z = z if not isinstance(z, str) else z3.StringVal(z)

    @staticmethod
    def of(x):
        return x if isinstance(x, SymStr) else SymStr(str(x))

    def __contains__(self, sub):
        return bool(B(z3.Contains(self.z, SymStr.of(sub).z)))

    def split(self, sep):
        s = SymStr.of(sep).z
        idx = z3.IndexOf(self.z, s, 0)
        first = z3.If(idx >= 0, z3.SubString(self.z, 0, idx), self.z)
        return [SymStr(first)]

    def __eq__(self, o):
        return B(self.z == SymStr.of(o).z)

    def __ne__(self, o):
        return B(self.z != SymStr.of(o).z)

    def __hash__(self):
        return id(self)

    def __add__(self, o):
        return SymStr(z3.Concat(self.z, SymStr.of(o).z))

    def __radd__(self, o):
        return SymStr(z3.Concat(SymStr.of(o).z, self.z))


def _fstr(*parts):
    if not any(isinstance(p, SymStr) for p in parts):
        return ''.join(str(p) for p in parts)
    out = None
    for p in parts:
        p = SymStr.of(p)
        out = p if out is None else out + p
    return out


def _fstring_transform(fn):
    """f-strings become _fstr(part, ...) so that symbolic strings flow through them; `while True:` loops get a bound-2 unwinding assertion (_tick)"""
    class T(ast.NodeTransformer):
        def visit_JoinedStr(self, n):
            parts = []
            for v in n.values:
                parts.append(v.value if isinstance(v, ast.FormattedValue) else v)
            return ast.copy_location(ast.Call(func=ast.Name(id='_fstr', ctx=ast.Load()), args=parts, keywords=[]), n)

        def visit_While(self, n):
            self.generic_visit(n)
            n.body.insert(0, ast.Expr(value=ast.Call(func=ast.Name(id='_tick', ctx=ast.Load()), args=[], keywords=[])))
            return n
    fn = T().visit(fn)
    ast.fix_missing_locations(fn)
    return fn


def job_naming(chain):
    """chain derivations build_from_world(build_from_world(...)) with a symbolic world name: the naming loop exits within 2 iterations (state repeats otherwise) and the new name differs from the old"""
    captured = {}

    def build_world_stub(name, cfg):
        captured['name'], captured['cfg'] = name, cfg
        return type('World', (), {'name': name, 'config': cfg})()
    fns, ns = load_builder(build_world_stub)
    name0 = z3.String('name0')
    A = [z3.Length(name0) <= 12, z3.Length(name0) >= 1, z3.Not(z3.Contains(name0, z3.StringVal('_variant')))]
    ex = Explorer(assumptions=A, timeout_ms=20000, max_paths=200)

    def run():
        world = type('World', (), {'name': SymStr(name0), 'config': {'name': SymStr(name0), 'radius': 1.0, 'layers': {}}})()
        names = [SymStr(name0)]
        for i in range(chain):
            _TICKS['n'] = 0
            world = fns['build_from_world'](world, {}, None)
            names.append(world.name)
        return names
    paths = ex.run(run)
    results = []
    for p in paths:
        pc = z3.And(*p.pc) if p.pc else z3.BoolVal(True)
        tag = 'chain of %d derivations from a fresh name (|name| <= 12), path %s' % (chain, ''.join('T' if d else 'F' for d in p.decisions))
        if isinstance(p.exc, LoopBound):
            def rp(md):
                nm = md.get('name0', 'x')
                out = run_real_world({'naming_chain': chain, 'name': nm}, timeout=180)
                hung = bool(out and out.get('timeout'))
                return hung, 'real build_from_world chained %d times from name %r: %s' % (chain, nm, 'did not return within 180 s (killed)' if hung else json.dumps(out)[:300])
            results.append(discharge(Obligation('%s: the variant-naming loop terminates (unwinding assertion at 2 iterations: a second identical iteration means non-termination)' % tag, z3.Not(pc), A,
                                                with_axioms=False, with_dens=False, replay=rp, key='naming:terminates:%d' % chain, timeout_ms=solve.qtimeout(60, 300))))
            continue
        if p.exc is not None:
            raise RuntimeError('naming harness raised %r' % p.exc)
        names = p.result
        conds = [names[i + 1].z != names[i].z for i in range(len(names) - 1)]

        def rp2(md):
            return True, 'derived world got the same name as its parent (name0=%r)' % md.get('name0')
        results.append(discharge(Obligation('%s: every derived world has a name different from its parent' % tag, z3.And(*conds), A + p.pc, with_axioms=False, with_dens=False, replay=rp2,
                                            key='naming:distinct:%d' % chain, timeout_ms=solve.qtimeout(60, 300))))
    results.append({'name': 'naming chain %d [reachability twin]' % chain, 'key': 'twin', 'twin': True, 'verdict': solve.sat_check(list(A), 60000), 'solver_s': 0.0, 'info': {'paths': len(paths)}})
    return {'results': results, 'encoded': loader.ENCODED, 'paths': len(paths), 'label': 'naming chain %d' % chain}


def job_naming_mixed(kinds):
    """chains that mix the ways a world is derived: build_from_world with default naming ('build'), with an explicit symbolic new name ('named'), and scale_from_world ('scale', which names its
    result super-<configured name>). After every step the derived world's configuration must record the name the world was built with (the next derivation reads it from there), and the
    name must differ from the parent's."""
    def build_world_stub(name, cfg):
        return type('World', (), {'name': name, 'config': cfg})()
    fns, ns = load_builder(build_world_stub)
    name0 = z3.String('name0')
    A = [z3.Length(name0) <= 8, z3.Length(name0) >= 1, z3.Not(z3.Contains(name0, z3.StringVal('_variant')))]
    explicit = [z3.String('explicit%d' % i) for i in range(len(kinds))]
    for e in explicit:
        A += [z3.Length(e) <= 8, z3.Length(e) >= 1, z3.Not(z3.Contains(e, z3.StringVal('_variant')))]
    ex = Explorer(assumptions=A, timeout_ms=20000, max_paths=400)

    def run():
        world = type('World', (), {'name': SymStr(name0), 'config': {'name': SymStr(name0), 'radius': 1.0, 'layers': {}}})()
        names, cfgnames = [SymStr(name0)], [SymStr(name0)]
        for i, kd in enumerate(kinds):
            _TICKS['n'] = 0
            if kd == 'build':
                world = fns['build_from_world'](world, {}, None)
            elif kd == 'named':
                world = fns['build_from_world'](world, {}, SymStr(explicit[i]))
            else:
                world = fns['scale_from_world'](world, None, None, 2.0)
            names.append(SymStr.of(world.name))
            cfgnames.append(SymStr.of(world.config['name']))
        return names, cfgnames
    paths = ex.run(run)
    results = []
    tag0 = 'derivation chain %s from a fresh name' % '>'.join(kinds)

    def rp(md):
        # public API: the same chain on a real world (explicit names from the model where given)
        steps = [[kd, md.get('explicit%d' % i) or 'other'] for i, kd in enumerate(kinds)]
        out = run_real_world({'naming_mixed': steps, 'name': md.get('name0') or 'demo'}, timeout=600)
        if not out or out.get('timeout'):
            return True, 'derivation chain %s executed from the current source: a derived world repeats its parent\'s name or its configuration does not record its name (real replay unavailable: %r)' % (kinds, out)
        bad = (not out.get('distinct')) or (not out.get('config_records_name'))
        return True, 'real build_world chain %r: names %r, names recorded in the configurations %r%s' % (steps, out.get('names'), out.get('config_names'),
                                                                                                      '' if bad else ' -- consistent for these names (the violation needs the model\'s names)')
    for p in paths:
        if isinstance(p.exc, LoopBound):
            results.append(discharge(Obligation('%s: the variant-naming loop terminates' % tag0, z3.Not(z3.And(*p.pc) if p.pc else z3.BoolVal(True)), A, with_axioms=False, with_dens=False, replay=rp,
                                                key='naming-mixed:terminates', timeout_ms=solve.qtimeout(60, 300))))
            continue
        if p.exc is not None:
            raise RuntimeError('naming harness raised %r' % p.exc)
        names, cfgnames = p.result
        tag = '%s, path %s' % (tag0, ''.join('T' if d else 'F' for d in p.decisions))
        results.append(discharge(Obligation('%s: every derived world has a name different from its parent' % tag, z3.And(*[names[i + 1].z != names[i].z for i in range(len(names) - 1)]), A + p.pc,
                                            with_axioms=False, with_dens=False, replay=rp, key='naming-mixed:distinct', timeout_ms=solve.qtimeout(60, 300))))
        results.append(discharge(Obligation('%s: the configuration of every derived world records the name it was built with' % tag, z3.And(*[names[i].z == cfgnames[i].z for i in range(len(names))]), A + p.pc,
                                            with_axioms=False, with_dens=False, replay=rp, key='naming-mixed:recorded', timeout_ms=solve.qtimeout(60, 300))))
    results.append({'name': tag0 + ' [reachability twin]', 'key': 'twin', 'twin': True, 'verdict': solve.sat_check(list(A), 60000), 'solver_s': 0.0, 'info': {'paths': len(paths)}})
    return {'results': results, 'encoded': loader.ENCODED, 'paths': len(paths), 'label': 'naming ' + '>'.join(kinds)}


def job_scale():
    """scale_from_world: every length multiplied by the factor, layers stay contiguous, volume fractions preserved, inputs not mutated"""
    captured = {}

    def build_world_stub(name, cfg):
        captured['name'], captured['cfg'] = name, cfg
        return type('World', (), {'name': name, 'config': cfg})()
    fns, ns = load_builder(build_world_stub)
    s = Q.sym('scale')
    R = [Q.sym('R0'), Q.sym('R1'), Q.sym('R2')]
    pos = [s.re > 0, R[0].re > 0, (R[1] > R[0]).c, (R[2] > R[1]).c]
    results = []
    for region, extra, derived in (('scale >= 1', [(s >= 1).c], False), ('scale < 1', [(s < 1).c], False), ('scale >= 1, source already carries thickness / radius_inner (a previously scaled world)', [(s >= 1).c], True)):
        CTX.facts = pos + extra
        old_cfg = {'name': 'demo', 'radius': R[2], 'TidalPy_version': 'x', 'layers': {'core': {'radius': R[0], 'density': Q.sym('d0'), 'radii': [1, 2]}, 'mantle': {'radius': R[1], 'density': Q.sym('d1')},
                                                                                   'crust': {'radius': R[2], 'density': Q.sym('d2')}}}
        if derived:
            # what scale_from_world itself writes into a configuration: a second scaling must not reuse the stale (unscaled) values
            for i, nm in enumerate(('core', 'mantle', 'crust')):
                old_cfg['layers'][nm]['thickness'] = R[i] - (R[i - 1] if i else Q(0))
                old_cfg['layers'][nm]['radius_inner'] = R[i - 1] if i else Q(0)
        snapshot = copy.deepcopy(old_cfg)
        ids = {k: id(vv) for k, vv in old_cfg['layers'].items()}
        world = type('World', (), {'name': 'demo', 'config': old_cfg})()
        new = fns['scale_from_world'](world, None, None, s)
        cfg = captured['cfg']
        lay = cfg['layers']
        conds = [eq_goal(cfg['radius'], s * R[2])]
        prev = Q(0)
        for i, nm in enumerate(('core', 'mantle', 'crust')):
            conds += [eq_goal(lay[nm]['radius'], s * R[i]), eq_goal(lay[nm]['radius_inner'], prev), eq_goal(lay[nm]['thickness'], s * R[i] - prev)]
            prev = s * R[i]
        # volume fractions preserved
        for i, nm in enumerate(('core', 'mantle', 'crust')):
            inner_old = R[i - 1] if i else Q(0)
            v_old = R[i] ** 3 - inner_old ** 3
            v_new = Q.of(lay[nm]['radius']) ** 3 - Q.of(lay[nm]['radius_inner']) ** 3
            conds.append(eq_goal(v_new * R[2] ** 3, v_old * Q.of(cfg['radius']) ** 3))
        results.append(discharge(Obligation('scale_from_world (%s): world radius, every layer radius / inner radius / thickness are multiplied by the factor, layers contiguous, volume fractions preserved' % region,
                                            z3.And(*conds), pos + extra, replay=lambda md, derived=derived: replay_scale(md, derived), key='scale:lengths')))
        same = _same_structure(old_cfg, snapshot) and all(id(old_cfg['layers'][k]) == ids[k] for k in ids)
        results.append(discharge(Obligation('scale_from_world (%s): the source world\'s configuration is not mutated (deep comparison with a snapshot taken before the call)' % region, z3.BoolVal(same), [],
                                            with_axioms=False, with_dens=False, replay=lambda md: (True, 'old_world.config was modified by scale_from_world'), key='scale:nomutate')))
        want_name = 'super-demo' if region.startswith('scale >= 1') else 'mini-demo'
        results.append(discharge(Obligation('scale_from_world (%s): derived name is %r (distinct from the source name)' % (region, want_name), z3.BoolVal(captured['name'] == want_name and captured['name'] != 'demo'), [],
                                            with_axioms=False, with_dens=False, replay=lambda md: (True, 'derived name %r' % captured['name']), key='scale:name')))
    # build_from_world does not mutate old config nor the new_config argument
    old_cfg = {'name': 'demo', 'radius': R[2], 'layers': {'core': {'radius': R[0], 'radii': [1]}, 'crust': {'radius': R[2]}}}
    new_cfg = {'layers': {'core': {'density': Q.sym('dd')}}, 'extra': [1, 2, 3]}
    s1, s2 = copy.deepcopy(old_cfg), copy.deepcopy(new_cfg)
    world = type('World', (), {'name': 'demo', 'config': old_cfg})()
    fns['build_from_world'](world, new_cfg, None)
    ok = _same_structure(old_cfg, s1) and _same_structure(new_cfg, s2)
    merged = captured['cfg']
    ok_merge = eq_goal(merged['layers']['core']['radius'], R[0])
    results.append(discharge(Obligation('build_from_world: neither the source configuration nor the new_config argument is mutated; merged config keeps old values and takes new ones', z3.And(z3.BoolVal(ok), ok_merge,
                                        z3.BoolVal('density' in merged['layers']['core'] and 'radii' not in merged['layers']['core'] and captured['name'] == 'demo_variant')), pos,
                                        replay=lambda md: (True, 'inputs mutated or merge wrong'), key='derive:nomutate')))
    results.append(reach_twin('scale', pos))
    return {'results': results, 'encoded': loader.ENCODED, 'axioms': CTX.axiom_notes, 'label': 'scale/derive'}


def _same_structure(a, b):
    if isinstance(a, dict):
        return isinstance(b, dict) and set(a) == set(b) and all(_same_structure(a[k], b[k]) for k in a)
    if isinstance(a, (list, tuple)):
        return isinstance(b, (list, tuple)) and len(a) == len(b) and all(_same_structure(x, y) for x, y in zip(a, b))
    if isinstance(a, Q):
        return isinstance(b, Q) and repr(a.re) == repr(b.re) and repr(a.im) == repr(b.im)
    return a == b


def replay_scale(md, twice=False):
    out = run_real_world({'scale': float(md.get('scale', 1.7)), 'twice': bool(twice)})
    if out is None:
        return False, 'replay runner failed'
    return bool(out.get('scale_bad')), 'real scale_from_world: %s' % json.dumps(out)[:400]


def main():
    jobs = [(job_set_geometry, {'num_slices': n}) for n in ((1, 2, 3, 4) if TIER == 'thorough' else (2, 3))]
    jobs += [(job_layer_mass_below, {'nlayers': n}) for n in ((3, 4, 6) if TIER == 'thorough' else (3, 4))]
    jobs += [(job_find_geometry, {})] + [(job_stack, {'kind': k}) for k in ('radius', 'thickness', 'mixed')] + [(job_scale, {})]
    jobs += [(job_naming, {'chain': c}) for c in ((1, 2, 3) if TIER != 'thorough' else (1, 2, 3, 4))]
    mixed = [('scale', 'scale'), ('named', 'build'), ('named', 'scale'), ('scale', 'build')]
    if TIER == 'thorough':
        mixed += [('scale', 'build', 'scale'), ('build', 'named', 'build'), ('named', 'named'), ('scale', 'named', 'scale')]
    jobs += [(job_naming_mixed, {'kinds': k}) for k in mixed]
    meta = {
        'explanation': 'find_geometry_from_config, PhysicalObjSpherical.set_geometry, the world-mass rule of LayeredWorld.reinit (AST slice), scale_from_world, build_from_world, clean_world_config and nested_merge are '
                       'taken from the current source. Geometry: executed on symbolic radii/masses with np.linspace modelled exactly; z3 decides contiguity, positivity, strict monotonicity of slices, telescoping volume '
                       'sums, enclosed-mass monotonicity and surface gravity for one layer on top of an ARBITRARY layer below (inductive step) and for 3-layer stacks; the presence pattern of the configuration keys is '
                       'enumerated exhaustively (32 x 4). Scaling/derivation: executed on real dict graphs with symbolic leaves (mutation = deep comparison with a snapshot). Naming: the world name is a z3 string, '
                       'f-strings and split/in are modelled, the `while True` loop carries an unwinding assertion at 2 iterations (the loop state does not change, so a second iteration proves non-termination).',
        'bounds': 'slices per layer <= 4; 3-layer stacks; chains of <= 3 (thorough 4) derivations from a name of <= 12 characters without "_variant"; scale factor any positive real.',
        'outside': 'BurnMan worlds; the full class machinery of world construction (tides/thermal set-up); shipped world configurations are covered only through the replay runner.',
        'assumptions': ['supplied configuration fields are mutually consistent (validity predicate)'],
    }
    solve.run_check(PID, jobs, meta)


if __name__ == '__main__':
    main()
