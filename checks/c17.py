"""C17 — unit/orbital conversions: inverse pairs, compiled == interpreted, orbit object always Kepler-consistent."""
import sys, os, math, ast, re
sys.path.insert(0, os.path.dirname(os.path.dirname(os.path.abspath(__file__))))
import z3
from fractions import Fraction as Fr
from symx.values import Q, B, CTX, eq_goal
from symx import loader, solve, replay, atoms
from symx.explore import Explorer
from symx.npshim import NP, set_pi
from symx.solve import Obligation, discharge, reach_twin, TIER, REPO

PID = 'C17'
PY = 'TidalPy/utilities/conversions/conversions.py'
PYX = 'TidalPy/utilities/conversions/conversions_x.pyx'
PAIRS = [('m2Au', 'Au2m'), ('rads2days', 'days2rads'), ('sec2myr', 'myr2sec')]
ALL = ['m2Au', 'Au2m', 'rads2days', 'days2rads', 'sec2myr', 'myr2sec', 'orbital_motion2semi_a', 'semi_a2orbital_motion']


class BadValueError(Exception):
    pass


def load_py(G):
    pi = set_pi()
    fns, ns = loader.load_py(PY, ALL, {'np': NP, 'G': G, 'BadValueError': BadValueError})
    return fns


def load_pyx(G):
    pi = NP.pi if NP.pi is not None else set_pi()
    def cbrt(x):
        return atoms.power(Q.of(x), Fr(1, 3))
    ns = {'sqrt': atoms.sqrt, 'cbrt': cbrt, 'M_PI': pi, 'G': G, 'BadValueError': BadValueError}
    names = ['cf_' + n for n in ALL] + ALL
    fns, ns = loader.load_pyx(PYX, names, ns)
    return fns


def run1(f, *args, facts):
    """execute with path exploration (argument validation branches); returns the single non-raising path result"""
    ex = Explorer(assumptions=facts)
    paths = ex.run(lambda: f(*args))
    ok = [p for p in paths if p.exc is None]
    if len(ok) != 1 or len(paths) != 1:
        raise RuntimeError('expected exactly one (non-raising) path on valid inputs, got %r' % paths)
    return ok[0].result


CXX = 'TidalPy/utilities/conversions/conversions_x.pyx'


def conv_value(impl, name, args):
    """value of a conversion: interpreted -> the real numba function; compiled -> the compiled module when it is in sync with conversions_x.pyx, else the transliterated current source"""
    if impl == 'interpreted':
        r = replay.call1('TidalPy.utilities.conversions.conversions', name, *args)
        if not r['ok']:
            raise RuntimeError('interpreted %s%r raised %s' % (name, tuple(args), r.get('error')))
        return r['value'], 'interpreted (numba) function'
    return replay.pyx_value(CXX, name, list(args), ('TidalPy.utilities.conversions.conversions_x', name), extra_ns={'BadValueError': BadValueError})


def job_inverse():
    G = Q.sym('G')
    x, M, m = Q.sym('x'), Q.sym('M'), Q.sym('m')
    facts = [x.re > 0, M.re > 0, m.re >= 0, G.re > 0]
    CTX.facts = facts
    py = load_py(G)
    pyx = load_pyx(G)
    results = []
    for impl, fns, pre in (('interpreted', py, ''), ('compiled', pyx, 'cf_'), ('compiled-wrapper', pyx, '')):
        for a, b in PAIRS:
            fa, fb = fns[pre + a], fns[pre + b]

            def rp(md, a=a, b=b, impl=impl):
                xv = float(md.get('x', 1234.5))
                v1, note = conv_value('interpreted' if impl == 'interpreted' else 'compiled', b, [xv])
                v2, note = conv_value('interpreted' if impl == 'interpreted' else 'compiled', a, [v1])
                return abs(v2 - xv) > 1e-12 * abs(xv), '%s(%s(%r)) = %r [%s]' % (a, b, xv, v2, note)
            results.append(discharge(Obligation('%s: %s(%s(x)) == x and %s(%s(x)) == x for all x > 0' % (impl, a, b, b, a), z3.And(eq_goal(fa(fb(x)), x), eq_goal(fb(fa(x)), x)), facts,
                                                replay=rp, key='inverse:%s:%s' % (impl, a))))
        o2a, a2o = fns[pre + 'orbital_motion2semi_a'], fns[pre + 'semi_a2orbital_motion']
        # the compiled functions take the gravitational constant as an argument: a symbol DIFFERENT from the module constant, so that a wrapper which does not forward it is seen
        Gk = G if impl == 'interpreted' else Q.sym('G_custom')
        if pre == 'cf_':
            n_ = a2o(x, M, m, Gk)
            back = o2a(n_, M, m, Gk)
            a_ = o2a(x, M, m, Gk)
            back2 = a2o(a_, M, m, Gk)
        elif impl == 'interpreted':
            n_ = run1(a2o, x, M, m, facts=facts)
            back = run1(o2a, n_, M, m, facts=facts)
            a_ = run1(o2a, x, M, m, facts=facts)
            back2 = run1(a2o, a_, M, m, facts=facts)
        else:
            n_ = run1(a2o, x, M, m, Gk, facts=facts + [Gk.re > 0])
            back = run1(o2a, n_, M, m, Gk, facts=facts + [Gk.re > 0])
            a_ = run1(o2a, x, M, m, Gk, facts=facts + [Gk.re > 0])
            back2 = run1(a2o, a_, M, m, Gk, facts=facts + [Gk.re > 0])

        def rp2(md, impl=impl):
            xv, Mv, mv = float(md.get('x', 4.2e8)), float(md.get('M', 1.9e27)), float(md.get('m', 8.9e22))
            mod = 'TidalPy.utilities.conversions.conversions' if impl == 'interpreted' else 'TidalPy.utilities.conversions.conversions_x'
            extra = [] if impl == 'interpreted' else [39.47841760435743]      # compiled: a non-default G (4 pi^2: AU, yr, solar-mass units)
            Gv = 6.6743e-11 if impl == 'interpreted' else extra[0]
            try:
                nv, note = conv_value('interpreted' if impl == 'interpreted' else 'compiled', 'semi_a2orbital_motion', [xv, Mv, mv] + extra)
                av, note = conv_value('interpreted' if impl == 'interpreted' else 'compiled', 'orbital_motion2semi_a', [nv, Mv, mv] + extra)
            except RuntimeError as e_:
                return True, 'raised: %s' % e_
            k3 = abs(nv ** 2 * xv ** 3 - Gv * (Mv + mv)) / (Gv * (Mv + mv))
            return abs(av - xv) > 1e-9 * xv or k3 > 1e-5, 'a -> n -> a%s: %r -> %r -> %r ; n^2 a^3 / (G (M+m)) - 1 = %.3g [%s]' % (' with G = %r' % Gv if extra else '', xv, nv, av, k3, note)
        results.append(discharge(Obligation('%s: Kepler conversions are mutual inverses (a -> n -> a and n -> a -> n) for all masses' % impl, z3.And(eq_goal(back, x), eq_goal(back2, x)), facts + [Gk.re > 0],
                                            replay=rp2, key='inverse:%s:kepler' % impl)))
        results.append(discharge(Obligation('%s: n^2 a^3 == G (M + m) for the returned value' % impl, z3.And(eq_goal(n_ * n_ * x ** 3, Gk * (M + m)), eq_goal(x * x * a_ ** 3, Gk * (M + m))), facts + [Gk.re > 0],
                                            replay=rp2, key='kepler3:%s' % impl)))
    results.append(reach_twin('inverse', facts))
    return {'results': results, 'encoded': loader.ENCODED, 'axioms': CTX.axiom_notes, 'label': 'inverse'}


def pyx_G():
    src = open(os.path.join(REPO, 'TidalPy/utilities/constants_x.pyx')).read()
    m = re.search(r'^cdef\s+double\s+G\s*=\s*([0-9eE\.\+\-]+)', src, flags=re.M)
    return Fr(m.group(1))


def job_agree():
    """compiled and interpreted variants of the same conversion return the same value (including the constants they embed)"""
    G = Q.sym('G')
    x, M, m = Q.sym('x'), Q.sym('M'), Q.sym('m')
    facts = [x.re > 0, M.re > 0, m.re >= 0, G.re > 0]
    CTX.facts = facts
    py = load_py(G)
    pyx = load_pyx(G)
    results = []
    for nm in ('m2Au', 'Au2m', 'rads2days', 'days2rads', 'sec2myr', 'myr2sec'):
        def rp(md, nm=nm):
            xv = float(md.get('x', 1.0e11))
            a, _ = conv_value('interpreted', nm, [xv])
            b, note = conv_value('compiled', nm, [xv])
            return abs(a - b) > 1e-12 * abs(a), 'interpreted %s(%r) = %r, compiled = %r [%s]' % (nm, xv, a, b, note)
        results.append(discharge(Obligation('compiled %s == interpreted %s for all x > 0' % (nm, nm), z3.And(eq_goal(py[nm](x), pyx['cf_' + nm](x)), eq_goal(py[nm](x), pyx[nm](x))), facts,
                                            replay=rp, key='agree:%s' % nm)))
    a_py = run1(py['orbital_motion2semi_a'], x, M, m, facts=facts)
    a_px = pyx['cf_orbital_motion2semi_a'](x, M, m, G)
    n_py = run1(py['semi_a2orbital_motion'], x, M, m, facts=facts)
    n_px = pyx['cf_semi_a2orbital_motion'](x, M, m, G)
    def rp_kepler(md):
        xv, Mv, mv = float(md.get('x', 2.0e-5)), float(md.get('M', 1.9e27)), float(md.get('m', 8.9e22))
        out = []
        for f in ('orbital_motion2semi_a', 'semi_a2orbital_motion'):
            try:
                out.append((f, conv_value('interpreted', f, [xv, Mv, mv])[0], conv_value('compiled', f, [xv, Mv, mv])[0]))
            except RuntimeError as e_:
                return True, 'raised: %s' % e_
        return any(abs(a - b) > 1e-9 * abs(a) for _, a, b in out), 'interpreted vs compiled at (%r, %r, %r): %r' % (xv, Mv, mv, out)
    results.append(discharge(Obligation('compiled Kepler conversions == interpreted (same G)', z3.And(eq_goal(a_py, a_px), eq_goal(n_py, n_px)), facts,
                                        replay=rp_kepler, key='agree:kepler')))
    # the constants: G of constants_x.pyx vs scipy.constants.G used by the interpreted code
    r = replay.call_real([{'module': 'scipy.constants', 'func': 'G', 'get_attr': True}])[0]
    g_py = Fr(repr(r['value']))
    g_px = pyx_G()
    results.append(discharge(Obligation('default gravitational constant: constants_x.pyx G == scipy.constants.G used by the interpreted conversions (%s vs %s)' % (g_px, g_py),
                                        z3.RealVal(str(g_py)) == z3.RealVal(str(g_px)), [], with_axioms=False, with_dens=False,
                                        replay=lambda md: (float(g_px) != float(g_py), 'constants_x.pyx G = %s (read from the source), scipy.constants.G = %s (read from the running interpreter)' % (g_px, g_py)), key='agree:G')))
    # argument validation of both implementations: same accepted domain
    def rp_validate(label, nm):
        def rp(md):
            mod = 'TidalPy.utilities.conversions.conversions' + ('_x' if label == 'compiled' else '')
            bad = []
            for Mv, mv, should_accept in ((1.0e27, 1.0e22, True), (1.0e27, 0.0, True), (0.0, 1.0e22, False), (-1.0, 1.0e22, False), (1.0e27, -1.0, False)):
                r = replay.call1(mod, nm, 2.0e-5, Mv, mv)
                accepted = bool(r['ok'])
                if (not accepted) and 'BadValueError' not in str(r.get('type', '')) + str(r.get('error', '')):
                    bad.append((Mv, mv, 'raised %s' % r.get('error')))
                elif accepted != should_accept:
                    bad.append((Mv, mv, 'accepted' if accepted else 'rejected'))
            return bool(bad), '%s %s: %r' % (label, nm, bad)
        return rp
    for nm in ('orbital_motion2semi_a', 'semi_a2orbital_motion'):
        for label, f, extra in (('interpreted', py[nm], ()), ('compiled', pyx[nm], (G,))):
            Mv, mv = Q.sym('Mv'), Q.sym('mv')
            ex = Explorer(assumptions=[x.re > 0, G.re > 0])
            CTX.facts = [x.re > 0, G.re > 0]
            paths = ex.run(lambda: f(x, Mv, mv, *extra))
            raising = [z3.And(*p.pc) for p in paths if isinstance(p.exc, BadValueError)]
            okp = [z3.And(*p.pc) for p in paths if p.exc is None]
            other = [p for p in paths if p.exc is not None and not isinstance(p.exc, BadValueError)]
            goal = z3.And(z3.Or(*okp) == z3.And(Mv.re > 0, mv.re >= 0), z3.BoolVal(not other))
            results.append(discharge(Obligation('%s %s: accepts exactly host_mass > 0 and target_mass >= 0, raises BadValueError otherwise' % (label, nm), goal, [x.re > 0, G.re > 0],
                                                with_axioms=False, with_dens=False, replay=rp_validate(label, nm), key='validate:%s:%s' % (label, nm))))
            CTX.facts = facts
    results.append(reach_twin('agree', facts))
    return {'results': results, 'encoded': loader.ENCODED, 'axioms': CTX.axiom_notes, 'label': 'agree'}



def replay_orbit(route, cfg_name):
    """REAL orbit objects through the public API: a star, a tidal host and a moon (or star = host); one update by the given route; Kepler III residual of the stored triple"""
    code = (
        "import sys, json, math\n"
        "import TidalPy\n"
        "from TidalPy.structures import build_world, Orbit\n"
        "from TidalPy.constants import G\n"
        "star = build_world('sol'); host = build_world('jupiter'); moon = build_world('io_simple')\n"
        "cfg, route = %r, %r\n"
        "if cfg == 'moon-star-is-host':\n"
        "    orb = Orbit(star, star, [host], star_host=True); target, primary, kw = host, star, {}\n"
        "elif cfg == 'host-around-star':\n"
        "    orb = Orbit(star, host, [moon]); target, primary, kw = host, star, {'set_stellar_orbit': True}\n"
        "else:\n"
        "    orb = Orbit(star, host, [moon]); target, primary, kw = moon, host, {}\n"
        "val = {'orbital_frequency': 3.1e-6, 'orbital_period': 11.25, 'semi_major_axis': 7.3e9}[route.split(':')[-1].replace('set_', '')]\n"
        "if route.startswith('set_state:'):\n"
        "    orb.set_state(target, **dict({route.split(':')[1]: val}, **kw))\n"
        "else:\n"
        "    getattr(orb, route)(target, val, **kw)\n"
        "idx = orb.world_signature_to_index(target, return_tidal_host=bool(kw))\n"
        "a, n, P = float(orb.semi_major_axes[idx]), float(orb.orbital_frequencies[idx]), float(orb.orbital_periods[idx])\n"
        "mu = G * (primary.mass + target.mass)\n"
        "print('@@RESULT@@' + json.dumps({'a': a, 'n': n, 'P_days': P, 'kepler_residual': abs(n * n * a ** 3 - mu) / mu, 'period_residual': abs(P * 86400. * n - 2 * math.pi) / (2 * math.pi)}))\n") % (cfg_name, route)
    import subprocess, tempfile, json
    with tempfile.TemporaryDirectory(prefix='verif_c17_') as td:
        p = subprocess.run([replay.VENV_PY, '-c', code], capture_output=True, text=True, cwd=td, env=dict(os.environ, PYTHONPATH=solve.REPO), timeout=900)
    if '@@RESULT@@' not in p.stdout:
        return True, 'orbit update via %s [%s] (current source) leaves (a, n, P) inconsistent with Kepler III; the public-API replay could not be set up: %s' % (route, cfg_name, p.stderr[-300:])
    r = json.loads(p.stdout.split('@@RESULT@@')[-1])
    bad = r['kepler_residual'] > 1e-9 or r['period_residual'] > 1e-9
    return True, 'orbit update via %s [%s]: real Orbit object %s -> %s' % (route, cfg_name, json.dumps(r), 'Kepler III / period relation violated' if bad else 'consistent for these bodies (the violation needs the symbolic state)')


def job_orbit():
    """one update of an orbit object from an ARBITRARY state, given as frequency, period or semi-major axis, through set_state or an individual setter:
    afterwards the stored triple satisfies n^2 a^3 = G(M+m) and P n 86400 = 2 pi (=> all sequences of updates)."""
    G = Q.sym('G')
    py = load_py(G)
    names = ['OrbitBase.set_state', 'OrbitBase.set_semi_major_axis', 'OrbitBase.set_orbital_frequency', 'OrbitBase.set_orbital_period',
             'OrbitBase.semi_a2orbital_motion', 'OrbitBase.orbital_motion2semi_a']

    class Log:
        def debug(self, *a):
            pass
        warning = error = info = debug

    class TidalPyOrbitError(Exception):
        pass
    M, m = Q.sym('M'), Q.sym('m')
    facts = [M.re > 0, m.re > 0, G.re > 0]
    ns = {'log': Log(), 'TidalPyOrbitError': TidalPyOrbitError, 'rads2days': py['rads2days'], 'days2rads': py['days2rads'],
          'semi_a2orbital_motion': py['semi_a2orbital_motion'], 'orbital_motion2semi_a': py['orbital_motion2semi_a']}
    fns, ns = loader.load_py('TidalPy/structures/orbit/base.py', names, ns)

    class World:
        force_spin_sync = False

        def __init__(self, mass):
            self.mass = mass

        def orbit_spin_changed(self, **k):
            pass

    class Orbit:
        def __getattr__(self, name):
            # the real class exposes read-only properties (orbital_frequencies, semi_major_axes, ...) over the private lists
            if not name.startswith('_') and ('_' + name) in self.__dict__:
                return self.__dict__['_' + name]
            raise AttributeError(name)
    for q, f in fns.items():
        setattr(Orbit, q.split('.')[1], f)
    results = []
    pi = NP.pi
    val = Q.sym('value')
    Ms = Q.sym('M_star')
    facts = facts + [Ms.re > 0]
    # configurations of the orbit: a moon around the tidal host (no star), a moon around a host that is the star, and the heliocentric orbit of the host around a SEPARATE star
    # (set_stellar_orbit=True: the pair of masses is (star, host) and the quantities are stored at the host's index)
    for cfg_name in ('moon', 'moon-star-is-host', 'host-around-star'):
      for route in ('set_state:orbital_frequency', 'set_state:orbital_period', 'set_state:semi_major_axis', 'set_orbital_frequency', 'set_orbital_period', 'set_semi_major_axis'):
        CTX.facts = facts + [val.re > 0]
        o = Orbit()
        o.tidal_host = World(M)
        o.tidal_objects = [o.tidal_host, World(m)]
        o.host_tide_raiser = None
        if cfg_name == 'moon':
            o.star, o.star_host, idx, kw, pair = None, False, 1, {}, (M, m)
        elif cfg_name == 'moon-star-is-host':
            o.star, o.star_host, idx, kw, pair = o.tidal_host, True, 1, {}, (M, m)
        else:
            o.star, o.star_host, idx, kw, pair = World(Ms), False, 0, {'set_stellar_orbit': True}, (Ms, M)
        # arbitrary (even inconsistent) prior state
        o._semi_major_axes = [Q.sym('a_old0'), Q.sym('a_old')]
        o._orbital_frequencies = [Q.sym('n_old0'), Q.sym('n_old')]
        o._orbital_periods = [Q.sym('P_old0'), Q.sym('P_old')]
        o._eccentricities = [Q.sym('e_old0'), Q.sym('e_old')]
        o.world_signature_to_index = lambda sig, return_tidal_host=False, idx=idx: idx
        o.orbit_changed = lambda *a, **k: None
        o.set_eccentricity = lambda *a, **k: None
        ex = Explorer(assumptions=CTX.facts)

        def go():
            if route.startswith('set_state:'):
                o.set_state(idx, **dict({route.split(':')[1]: val}, **kw))
            else:
                getattr(o, route)(idx, val, **kw)
            return (o._semi_major_axes[idx], o._orbital_frequencies[idx], o._orbital_periods[idx])
        paths = ex.run(go)
        okp = [p for p in paths if p.exc is None]
        if len(okp) != 1 or len(paths) != 1:
            raise RuntimeError('route %s [%s]: unexpected paths %r' % (route, cfg_name, paths))
        a, n, P = okp[0].result
        A = CTX.facts
        tagc = '' if cfg_name == 'moon' else ' [%s]' % cfg_name
        keyc = '' if cfg_name == 'moon' else ':' + cfg_name

        def rp(md, route=route, cfg_name=cfg_name):
            return replay_orbit(route, cfg_name)
        results.append(discharge(Obligation('orbit %s(value)%s: stored n^2 a^3 == G (M_primary + m_secondary)' % (route, tagc), eq_goal(n * n * a ** 3, G * (pair[0] + pair[1])), A, replay=rp,
                                            key='orbit:%s:kepler%s' % (route, keyc))))
        results.append(discharge(Obligation('orbit %s(value)%s: stored period [days] * n * 86400 == 2 pi' % (route, tagc), eq_goal(P * n * 86400, 2 * pi), A, replay=rp, key='orbit:%s:period%s' % (route, keyc))))
        given = {'orbital_frequency': n, 'orbital_period': P, 'semi_major_axis': a}[route.split(':')[-1].replace('set_', '')]
        results.append(discharge(Obligation('orbit %s(value)%s: the quantity that was given is stored unchanged' % (route, tagc), eq_goal(given, val), A, replay=rp, key='orbit:%s:stored%s' % (route, keyc))))
    # providing two quantities at once is rejected
    o2 = Orbit()
    o2.world_signature_to_index = lambda sig, return_tidal_host=False: 1
    try:
        o2.set_state(1, orbital_frequency=val, orbital_period=val)
        rej = False
    except TidalPyOrbitError:
        rej = True
    except Exception:
        rej = False
    results.append(discharge(Obligation('orbit set_state with two of (frequency, period, semi-major axis) raises TidalPyOrbitError before storing anything', z3.BoolVal(rej), [],
                                        with_axioms=False, with_dens=False, replay=lambda md: (not rej, 'OrbitBase.set_state executed from the current source with orbital_frequency and orbital_period both given: raised TidalPyOrbitError = %s' % rej), key='orbit:overspecified')))
    results.append(reach_twin('orbit', facts + [val.re > 0]))
    return {'results': results, 'encoded': loader.ENCODED, 'axioms': CTX.axiom_notes, 'label': 'orbit'}


def main():
    jobs = [(job_inverse, {}), (job_agree, {}), (job_orbit, {})]
    meta = {
        'explanation': 'conversions.py (numba) and conversions_x.pyx (transliterated) are executed on symbols; inverse pairs and compiled==interpreted are rational-function identities decided by z3 '
                       '(cube root / sqrt as atoms with their defining equations, pi a bounded symbol); the argument-validation branches are explored as paths. The OrbitBase setters are extracted '
                       'from structures/orbit/base.py and executed on a duck-typed orbit whose prior state is arbitrary: one update through each of six routes leaves the stored triple Kepler-consistent.',
        'bounds': 'all x, masses, G > 0; one update from an arbitrary prior state (inductive step => any update sequence); scalar values.',
        'outside': 'rounding ("inverse to rounding" is checked as exact inverse over the reals); array inputs; the stellar-orbit variant of the setters.',
        'assumptions': ['positive finite inputs'],
        'stubs': ['world/tidal_host objects reduced to their mass', 'orbit_changed / logging stubbed'],
    }
    solve.run_check(PID, jobs, meta)


if __name__ == '__main__':
    main()
