"""C08 — eccentricity tables equal the Taylor expansion of squared Hansen coefficients through e^N (closed forms to all orders);
omitted modes have no contribution; multi-degree lookup helpers return exactly these tables."""
import sys, os, ast, types, re
sys.path.insert(0, os.path.dirname(os.path.dirname(os.path.abspath(__file__))))
import z3
from fractions import Fraction as Fr
from symx.values import Q, CTX, eq_goal, close_goal, canon, NotPoly, is_c
from symx import loader, solve, replay
from symx.npshim import NP
from symx.solve import Obligation, discharge, reach_twin, TIER, REPO
from oracles import hansen as H

PID = 'C08'
REL = Fr(1, 10 ** 11)
ABS = Fr(1, 10 ** 13)


def trunc_levels(l):
    src = open(os.path.join(REPO, 'TidalPy/tides/eccentricity_funcs/orderl%d.py' % l)).read()
    return sorted(int(m) for m in re.findall(r'^def eccentricity_funcs_trunc(\d+)\(', src, flags=re.M))


def load_tables(l, levels=None):
    levels = levels or trunc_levels(l)
    names = ['eccentricity_funcs_trunc%d' % n for n in levels]
    fns, ns = loader.load_py('TidalPy/tides/eccentricity_funcs/orderl%d.py' % l, names, {'np': NP})
    return {n: fns['eccentricity_funcs_trunc%d' % n] for n in levels}


def poly_deg(q):
    """structural degree in e of a denominator-free value (None if not a polynomial in e only)"""
    if q.den or not q.is_real:
        return None
    try:
        p = canon(q.re)
    except NotPoly:
        return None
    deg = 0
    for mon in p:
        if any(v != 'e' for v in mon):
            return None
        deg = max(deg, len(mon))
    return deg


def _subst(term, e, val):
    if is_c(term):
        return term
    t = z3.simplify(z3.substitute(term, (e, z3.RealVal(str(val)))))
    assert z3.is_rational_value(t), t
    return Fr(t.numerator_as_long(), t.denominator_as_long())


def _replay_poly(l, N, p, q):
    def rp(md):
        orc = H.G2(l, p, q)
        es = [0.05 * j for j in range(1, 13)]
        r = replay.call1('TidalPy.tides.eccentricity_funcs.orderl%d' % l, 'eccentricity_funcs_trunc%d' % N, replay.arr(es))
        if not r['ok']:
            return True, 'real call raised %s' % r['error']
        try:
            vals = r['value'][str(p)][str(q)]
        except KeyError:
            return True, 'entry missing in real table'
        worst = None
        for ev, v in zip(es, vals):
            want = sum(float(orc[k]) * ev ** k for k in range(N + 1))
            scale = sum(abs(float(orc[k])) * ev ** k for k in range(N + 1))
            if abs(v - want) > 1e-13 * scale + 1e-15:
                worst = (ev, v, want)
        dev = {k: str(v) for k, v in md.items() if k.startswith('delta') and v != 0}
        return worst is not None, 'l=%d trunc%d (p,q)=(%d,%d): real table at e=%r gives %r, Hansen series through e^%d gives %r; coefficient deviations %s' % (
            (l, N, p, q) + (worst or (None, None, None))[:1] + (worst or (None, None, None))[1:2] + (N,) + (worst or (None, None, None))[2:3] + (str(dev)[:200],))
    return rp


def job_tables(l, levels):
    e = Q.sym('e')
    ez = e.re
    tabs = load_tables(l, levels)
    results = []
    dom = [ez >= 0, ez < 1]
    for N in levels:
        tab = tabs[N](e)
        present = set()
        for p, row in tab.items():
            for q, val in row.items():
                present.add((p, q))
                val = Q.of(val)
                orc = H.G2(l, p, q)
                deg = poly_deg(val)
                name = 'l=%d trunc=%d (p,q)=(%d,%d)' % (l, N, p, q)
                if deg is None:
                    # closed-form entry: must be the k=0 Hansen coefficient, exact to all orders
                    m = l - 2 * p
                    if l - 2 * p + q != 0:
                        results.append(discharge(Obligation(name + ': non-polynomial entry is a k=0 (closed-form) mode', z3.BoolVal(False), [], with_axioms=False,
                                                            with_dens=False, replay=lambda md: (True, 'rational entry for a mode without closed form'), key='tab:l%d:N%d:(%d,%d)' % (l, N, p, q))))
                        continue
                    P = Q(0)
                    for k, c in H.closed_form_P(l, m).items():
                        P = P + c * e ** k
                    one_m_e2 = 1 - e * e
                    orcq = P * P / one_m_e2 ** (2 * l - 1)
                    goal = close_goal(val, orcq, REL, orcq)

                    def rp(md, p=p, q=q, N=N, m=m):
                        ev = float(md.get('e', 0.3))
                        r = replay.call1('TidalPy.tides.eccentricity_funcs.orderl%d' % l, 'eccentricity_funcs_trunc%d' % N, replay.arr([ev]))
                        v = r['value'][str(p)][str(q)][0]
                        Pn = sum(float(c) * ev ** k for k, c in H.closed_form_P(l, m).items())
                        want = Pn * Pn / (1 - ev * ev) ** (2 * l - 1)
                        return abs(v - want) > 0.5e-11 * abs(want), 'closed form entry (%d,%d) at e=%r: real %r, exact %r' % (p, q, ev, v, want)
                    results.append(discharge(Obligation(name + ': closed form == P(e)^2/(1-e^2)^(2l-1) for all e in [0,1)', goal, dom, replay=rp,
                                                        key='tab:l%d:N%d:(%d,%d)' % (l, N, p, q), info={'kind': 'closed'})))
                    continue
                D = max(deg, N)
                if D > H.N:
                    raise RuntimeError('entry degree %d beyond oracle order' % D)
                nodes = [Fr(j, D) if D else Fr(0) for j in range(D + 1)]
                deltas = [z3.Real('delta%d' % k) for k in range(D + 1)]
                eqs = []
                for xj in nodes:
                    tj = _subst(val.re, ez, xj)
                    rhs = z3.RealVal(0)
                    for k in range(D + 1):
                        rhs = rhs + (z3.RealVal(str(orc[k])) + deltas[k]) * z3.RealVal(str(xj ** k))
                    eqs.append(rhs == z3.RealVal(str(tj)))
                conds = []
                for k in range(D + 1):
                    u = z3.RealVal(str(REL * abs(orc[k]) + ABS))
                    within = z3.And(deltas[k] <= u, deltas[k] >= -u)
                    if k > N:
                        # beyond the stated order: either absent (coefficient 0 => delta = -g_k) or the correct higher-order term
                        within = z3.Or(within, deltas[k] == z3.RealVal(str(-orc[k])))
                    conds.append(within)
                results.append(discharge(Obligation(name + ': every coefficient a_k (k<=%d) equals the Hansen series coefficient (rel 1e-11)' % N,
                                                    z3.And(*conds), eqs, with_axioms=False, with_dens=False, replay=_replay_poly(l, N, p, q),
                                                    key='tab:l%d:N%d:(%d,%d)' % (l, N, p, q), info={'kind': 'poly', 'degree': deg, 'nodes': D + 1})))
        # omitted modes: oracle has no term through order N.  finite-domain query over symbolic (p,q)
        pz, qz = z3.Ints('p q')
        qmax = N // 2 + 3
        pres = z3.Or(*[z3.And(pz == a, qz == b) for (a, b) in present])
        nonzero = []
        for p in range(l + 1):
            for q in range(-qmax, qmax + 1):
                g2 = H.G2(l, p, q)
                if any(g2[k] != 0 for k in range(N + 1)):
                    nonzero.append(z3.And(pz == p, qz == q))
        goal = z3.Implies(z3.Or(*nonzero), pres)

        def rp_om(md, N=N):
            return True, 'mode (p,q)=(%s,%s) contributes at order <= %d but is absent from eccentricity_funcs_trunc%d (l=%d)' % (md.get('p'), md.get('q'), N, N, l)
        results.append(discharge(Obligation('l=%d trunc=%d: every (p,q) with a non-zero series term through e^%d is present' % (l, N, N), goal,
                                            [pz >= 0, pz <= l, qz >= -qmax, qz <= qmax], with_axioms=False, with_dens=False, replay=rp_om, key='omit:l%d:N%d' % (l, N))))
        bad_p = [k for k in tab if not (0 <= k <= l)]
        results.append(discharge(Obligation('l=%d trunc=%d: p keys within 0..l' % (l, N), z3.BoolVal(not bad_p), [], with_axioms=False, with_dens=False,
                                            replay=lambda md: (True, 'p keys out of range'), key='pkeys:l%d:N%d' % (l, N))))
    results.append(reach_twin('C08 l=%d' % l, dom))
    return {'results': results, 'encoded': loader.ENCODED, 'axioms': CTX.axiom_notes, 'label': 'tables l=%d %s' % (l, levels)}


def job_lookup(Ls, levels_filter=None):
    """eccentricity_truncations[N][l], eccentricity_functions_lookup[N][L] and eccentricity_truncation_N_maxl_L return exactly the per-degree tables"""
    e = Q.sym('e')
    res = []
    tabs = {l: load_tables(l) for l in range(2, 8)}
    mods = {'orderl%d' % l: types.SimpleNamespace(**{'eccentricity_funcs_trunc%d' % n: f for n, f in tabs[l].items()}) for l in tabs}
    cache = {}

    def ref(l, N):
        if (l, N) not in cache:
            cache[(l, N)] = tabs[l][N](e)
        return cache[(l, N)]
    # module-level dictionary of eccentricity_funcs/__init__.py
    src = open(os.path.join(REPO, 'TidalPy/tides/eccentricity_funcs/__init__.py')).read()
    tree = ast.parse(src)
    ns = {}
    for n in tree.body:
        if isinstance(n, ast.ImportFrom) and n.module and n.module.startswith('orderl'):
            for a in n.names:
                ns[a.asname or a.name] = getattr(mods[n.module], a.name)
    for n in tree.body:
        if isinstance(n, ast.Assign) and getattr(n.targets[0], 'id', None) == 'eccentricity_truncations':
            d = eval(compile(ast.Expression(body=n.value), '__init__', 'eval'), ns)
            loader.ENCODED.append({'file': 'TidalPy/tides/eccentricity_funcs/__init__.py', 'function': 'eccentricity_truncations (module dict)', 'sha256_16': solve.sha_of(ast.get_source_segment(src, n))})
            for N, row in d.items():
                for l, f in row.items():
                    ok = f is tabs[l].get(N)
                    res.append(discharge(Obligation('eccentricity_truncations[%d][%d] is orderl%d.eccentricity_funcs_trunc%d' % (N, l, l, N), z3.BoolVal(ok), [],
                                                    with_axioms=False, with_dens=False, replay=replay.lookup_replay('TidalPy.tides.eccentricity_funcs', 'eccentricity_truncations', lambda md, N=N, l=l: [(N, l, 'orderl%d.eccentricity_funcs_trunc%d' % (l, N))], 'wrong function in dictionary'),
                                                    key=('dict:%d:%d' % (N, l)) if N in tabs[l] else 'dict:%d:degree-without-table' % N)))
            Nz, lz = z3.Ints('N l')
            have = z3.Or(*[z3.And(Nz == N, lz == l) for N, row in d.items() for l in row])
            allN = sorted(set(tabs[2]) & set(tabs[3]))
            res.append(discharge(Obligation('eccentricity_truncations covers every (N,l), N in %s, l in 2..7' % allN, have,
                                            [z3.Or(*[Nz == N for N in allN]), lz >= 2, lz <= 7], with_axioms=False, with_dens=False,
                                            replay=replay.lookup_replay('TidalPy.tides.eccentricity_funcs', 'eccentricity_truncations', lambda md: [(int(md.get('N', 2)), int(md.get('l', 2)), None)], 'missing entry'), key='dict:cover')))
    # module-level lookup dictionary of mode_calc_helper/__init__.py: [N][L] must be eccentricity_truncation_N_maxl_L
    class _Names:
        def __init__(self, mod):
            self.mod = mod
        def __getattr__(self, a):
            return (self.mod, a)
    isrc = open(os.path.join(REPO, 'TidalPy/tides/modes/mode_calc_helper/__init__.py')).read()
    for n in ast.parse(isrc).body:
        if isinstance(n, ast.Assign) and getattr(n.targets[0], 'id', None) == 'eccentricity_functions_lookup':
            nsn = {'eccen_calc_orderl%d' % L: _Names('eccen_calc_orderl%d' % L) for L in range(2, 8)}
            d = eval(compile(ast.Expression(body=n.value), 'helper_init', 'eval'), nsn)
            loader.ENCODED.append({'file': 'TidalPy/tides/modes/mode_calc_helper/__init__.py', 'function': 'eccentricity_functions_lookup (module dict)', 'sha256_16': solve.sha_of(ast.get_source_segment(isrc, n))})
            Nz, Lz = z3.Ints('N L')
            good = z3.Or(*[z3.And(Nz == N, Lz == L) for N, row in d.items() for L, v in row.items() if v == ('eccen_calc_orderl%d' % L, 'eccentricity_truncation_%d_maxl_%d' % (N, L))])
            entries = z3.Or(*[z3.And(Nz == N, Lz == L) for N, row in d.items() for L in row])
            res.append(discharge(Obligation('eccentricity_functions_lookup[N][L] is eccen_calc_orderlL.eccentricity_truncation_N_maxl_L for every entry', good, [entries],
                                            with_axioms=False, with_dens=False, replay=replay.lookup_replay('TidalPy.tides.modes.mode_calc_helper', 'eccentricity_functions_lookup', lambda md: [(int(md.get('N', 2)), int(md.get('L', 2)), 'eccen_calc_orderl%d.eccentricity_truncation_%d_maxl_%d' % (int(md.get('L', 2)), int(md.get('N', 2)), int(md.get('L', 2))))], 'wrong helper'), key='helperdict:value')))
            allN = [N for N in sorted(tabs[3])]
            res.append(discharge(Obligation('eccentricity_functions_lookup covers N in %s x L in 2..7' % allN, entries, [z3.Or(*[Nz == N for N in allN]), Lz >= 2, Lz <= 7],
                                            with_axioms=False, with_dens=False, replay=replay.lookup_replay('TidalPy.tides.modes.mode_calc_helper', 'eccentricity_functions_lookup', lambda md: [(int(md.get('N', 2)), int(md.get('L', 2)), None)], 'missing helper'), key='helperdict:cover')))
    for L in Ls:
        path = 'TidalPy/tides/modes/mode_calc_helper/eccen_calc_orderl%d.py' % L
        hsrc = open(os.path.join(REPO, path)).read()
        names = re.findall(r'^def (eccentricity_truncation_(\d+)_maxl_(\d+))\(', hsrc, flags=re.M)
        if levels_filter:
            names = [n for n in names if int(n[1]) in levels_filter]
        h, _ = loader.load_py(path, [n[0] for n in names], dict(mods, np=NP))
        for nm, N, Lm in names:
            N = int(N)
            out = h[nm](e)
            ok = sorted(out.keys()) == list(range(2, L + 1)) and int(Lm) == L
            res.append(discharge(Obligation('%s returns degrees 2..%d' % (nm, L), z3.BoolVal(ok), [], with_axioms=False, with_dens=False,
                                            replay=lambda md, nm=nm, out=out: (True, '%s returns keys %r' % (nm, sorted(out.keys()))), key='help:%s:keys' % nm)))
            for l in sorted(out):
                if l not in tabs or N not in tabs[l]:
                    continue
                r = ref(l, N)
                conds = [z3.BoolVal({(p, q) for p in r for q in r[p]} == {(p, q) for p in out[l] for q in out[l][p]})]
                for p in r:
                    for q in r[p]:
                        if p in out[l] and q in out[l][p]:
                            conds.append(eq_goal(Q.of(r[p][q]), Q.of(out[l][p][q])))
                res.append(discharge(Obligation('%s[%d] == orderl%d.eccentricity_funcs_trunc%d (all entries, all e)' % (nm, l, l, N), z3.And(*conds), [],
                                                replay=lambda md, nm=nm, l=l: (True, '%s[%d] differs from the degree table' % (nm, l)), key='help:%s:%d' % (nm, l))))
    return {'results': res, 'encoded': loader.ENCODED, 'label': 'lookup %s' % (Ls,)}


def main():
    H.selftest()
    jobs = []
    # every shipped table is cheap enough (about 100 s on 16 cores in total) to be checked on every change: quick == exhaustive over (l, N, p, q)
    for l in range(2, 8):
        for N in trunc_levels(l):
            jobs.append((job_tables, {'l': l, 'levels': [N]}))
    for L in range(2, 8):
        jobs.append((job_lookup, {'Ls': [L]}))
    meta = {
        'explanation': 'Every eccentricity_funcs_truncN of the selected degrees is executed from the current source with a symbolic e (exact decimal literals). '
                       'Polynomial entries: the coefficient-wise statement is decided by z3 through polynomial interpolation uniqueness: with D+1 rational nodes, the equations '
                       'table(e_j) = sum_k (g_k + delta_k) e_j^k force delta = (table coefficients - Hansen series coefficients g_k), and `some |delta_k| > tolerance` must be unsat. '
                       'g_k comes from an exact Fraction power series of X^{-(l+1),l-2p}_{l-2p+q}(e)^2 to order 24 (contour-integral formula, self-tested against Kaula G_201, G_200 and the k=0 closed form). '
                       'Closed-form (k=0) entries: rational-function query table == P(e)^2/(1-e^2)^(2l-1) for all e in [0,1). Omitted modes: finite-domain Int query that every (p,q) with a non-zero '
                       'series term through e^N is present. Lookup helpers/dictionaries: executed and compared entry by entry (identity of terms).',
        'bounds': 'both tiers: l in 2..7, every shipped N (2..20, 22 for l=2), p in 0..l, |q| <= N/2+3, every lookup helper; coefficient tolerance 1e-11 relative + 1e-13 absolute.',
        'outside': 'floating-point evaluation error of the polynomials at run time; series terms beyond order 24.',
        'assumptions': ['e in [0,1) for the closed-form entries'],
        'stubs': ['oracle: exact Fraction Hansen series (oracles/hansen.py)'],
    }
    solve.run_check(PID, jobs, meta)


if __name__ == '__main__':
    main()
