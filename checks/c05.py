"""C05 — local dissipation integrates to global dissipation: pointwise energy identity of the ODE system + sensitivity kernels, exact stencils,
boundary evaluation of the flux, positivity of the kernel, radial heating prefactor."""
import sys, os, math
sys.path.insert(0, os.path.dirname(os.path.dirname(os.path.abspath(__file__))))
import z3
import numpy as np
from fractions import Fraction as Fr
from symx.values import Q, B, CTX, eq_goal
from symx import loader, solve, replay, atoms
from symx.npshim import NP, obj_array, SArr, set_pi
from symx.solve import Obligation, discharge, reach_twin, TIER
import rs

PID = 'C05'
SENS = 'TidalPy/radial_solver/sensitivity.py'


def sym_state():
    y = [Q.csym('y%d' % i) for i in range(1, 7)]
    r, rho, g, w, G4pi, h = [Q.sym(n) for n in ('r', 'rho', 'g', 'w', 'G4pi', 'h')]
    mu = Q.csym('mu')
    Kc = Q.csym('K')
    pos = [r.re > 0, rho.re > 0, g.re > 0, w.re >= 0, G4pi.re > 0, mu.re > 0, h.re > 0, (h < r).c, Kc.re > 0]
    return y, r, rho, g, w, G4pi, h, mu, Kc, pos


def kernel_at(fn, y, dy1, r, h, mu, K, l, which='interior'):
    """run the real kernel on a 3-slice grid (r-h, r, r+h) where y1 is linear with slope dy1, so that every stencil returns exactly dy1"""
    rows = np.empty((6, 3), dtype=object).view(SArr)
    for i in range(6):
        for j, s in enumerate((-1, 0, 1)):
            rows[i, j] = y[i] + (dy1 * h * s if i == 0 else 0)
    radii = obj_array([r - h, r, r + h])
    out = fn(rows, radii, obj_array([mu] * 3), obj_array([K] * 3), l)
    return out


def flux_derivative(y, dy, r, G4pi, l):
    """d/dr { r^2 Im[ conj(y1) y2 + l(l+1) conj(y3) y4 + conj(y5) y6 / (4 pi G) ] }"""
    def term(i, j, coef):
        return 2 * r * coef * y[i].conjugate() * y[j] + r * r * coef * (dy[i].conjugate() * y[j] + y[i].conjugate() * dy[j])
    tot = term(0, 1, Q(1)) + term(2, 3, Q(l * (l + 1))) + term(4, 5, 1 / G4pi)
    return tot.imag


def num_point(md, names, defaults):
    return {k: (float(md[k]) if md.get(k) is not None else d) for k, d in zip(names, defaults)}


def replay_identity(cls, l, with_K):
    def rp(md):
        # float evaluation of the identity on the transliterated current ODE source and the REAL sensitivity functions
        y = [complex(float(md.get('y%d_r' % i, 0.3 * i)), float(md.get('y%d_i' % i, -0.2 * i))) for i in range(1, 7)]
        p = num_point(md, ['r', 'rho', 'g', 'w', 'G4pi', 'mu_r', 'mu_i', 'K_r', 'K_i'], [1.5, 2.0, 1.2, 0.3, 0.8, 3.0, 0.4, 7.0, 0.2])
        mu = complex(p['mu_r'], p['mu_i'])
        K = complex(p['K_r'], p['K_i'] if with_K else 0.0)
        r = p['r']
        dy = rs.ode_rhs(cls, y, r, p['rho'], p['g'], mu, K if with_K else K.real, p['w'], p['G4pi'], l, float_mode=True)
        hh = 1e-3 * r
        sol = [[(y[i] + (dy[0] * hh * s if i == 0 else 0)) for s in (-1, 0, 1)] for i in range(6)]
        arrs = {'a': [{'c': [v.real, v.imag]} for row in sol for v in row], 'dtype': 'complex128', 'shape': [6, 3]}
        mus = {'a': [{'c': [mu.real, mu.imag]}] * 3, 'dtype': 'complex128'}
        Ks = {'a': [{'c': [K.real, K.imag]}] * 3, 'dtype': 'complex128'}
        res = replay.call_real([{'module': 'TidalPy.radial_solver.sensitivity', 'func': f, 'args': [arrs, replay.arr([r - hh, r, r + hh]), mus, Ks], 'kwargs': {'order_l': l}}
                                for f in ('sensitivity_to_shear', 'sensitivity_to_bulk')])
        if not all(x['ok'] for x in res):
            return True, 'real kernel raised %r' % [x.get('error') for x in res]
        Hm, HK = res[0]['value'][1], res[1]['value'][1]
        llp1 = l * (l + 1)
        def term(i, j, coef):
            return 2 * r * coef * y[i].conjugate() * y[j] + r * r * coef * (dy[i].conjugate() * y[j] + y[i].conjugate() * dy[j])
        lhs = (term(0, 1, 1) + term(2, 3, llp1) + term(4, 5, 1 / p['G4pi'])).imag
        rhs = Hm * mu.imag + HK * K.imag
        return abs(lhs - rhs) > 1e-8 * (abs(lhs) + abs(rhs) + 1e-30), '%s l=%d: d/dr[r^2 Im(...)] = %r, H_mu Im mu + H_K Im K = %r' % (cls, l, lhs, rhs)
    return rp


def job_identity(cls, l):
    y, r, rho, g, w, G4pi, h, mu, Kc, pos = sym_state()
    fns, ns = loader.load_py(SENS, ['sensitivity_to_shear', 'sensitivity_to_bulk'], {'np': NP})
    results = []
    CTX.facts = pos          # resolves the `r == 0.` guards of the kernels (all radii > 0)
    # (a) the compiled solver's case: real bulk modulus
    Kr = Q(Kc.re)
    dy = rs.ode_rhs(cls, y, r, rho, g, mu, Kr, w, G4pi, l)
    Hm = Q.of(kernel_at(fns['sensitivity_to_shear'], y, dy[0], r, h, mu, Kr, l)[1])
    lhs = flux_derivative(y, dy, r, G4pi, l)
    results.append(discharge(Obligation('%s l=%d: d/dr{r^2 Im[conj(y1)y2 + l(l+1)conj(y3)y4 + conj(y5)y6/(4 pi G)]} == H_mu(r) Im(mu)   (real K; H_mu from sensitivity_to_shear)' % (cls, l),
                                        z3.And(eq_goal(lhs, Hm * mu.imag), z3.BoolVal(Hm.is_real)), pos, replay=replay_identity(cls, l, False), key='identity:%s' % cls)))
    # (b) complex bulk modulus in the kernels: H_mu Im mu + H_K Im K
    dyc = rs.ode_rhs(cls, y, r, rho, g, mu, Kc, w, G4pi, l)
    Hm2 = Q.of(kernel_at(fns['sensitivity_to_shear'], y, dyc[0], r, h, mu, Kc, l)[1])
    HK2 = Q.of(kernel_at(fns['sensitivity_to_bulk'], y, dyc[0], r, h, mu, Kc, l)[1])
    lhs2 = flux_derivative(y, dyc, r, G4pi, l)
    results.append(discharge(Obligation('%s l=%d: same identity with complex K: == H_mu Im(mu) + H_K Im(K)' % (cls, l), eq_goal(lhs2, Hm2 * mu.imag + HK2 * Kc.imag), pos,
                                        replay=replay_identity(cls, l, True), key='identityK:%s' % cls, timeout_ms=solve.qtimeout(60, 300))))
    # (c) kernel positivity (=> Im k <= 0 for Im mu >= 0): with dy1/dr from the ODE, H_mu is a sum of squares
    X = 2 * y[0] - l * (l + 1) * y[2]
    sq1 = (r * dy[0] - X * Fr(1, 2)).abs2()
    sq2 = r * r * y[3].abs2() / mu.abs2()
    sq3 = y[2].abs2()
    sos = Fr(4, 3) * sq1 + l * (l + 1) * sq2 + l * (l * l - 1) * (l + 2) * sq3
    results.append(discharge(Obligation('%s l=%d: H_mu == (4/3)|r dy1/dr - (2y1 - l(l+1)y3)/2|^2 + l(l+1) r^2|y4|^2/|mu|^2 + l(l^2-1)(l+2)|y3|^2  (sum of squares, dy1/dr from the ODE)' % (cls, l),
                                        eq_goal(Hm, sos), pos, replay=replay_identity(cls, l, False), key='positive:sos:%s' % cls)))
    a_, b_, c_ = z3.Reals('sqA sqB sqC')
    results.append(discharge(Obligation('%s l=%d: lemma: squares >= 0 imply (4/3)A + l(l+1)B + l(l^2-1)(l+2)C >= 0 (hence H_mu >= 0 and Im k <= 0 for Im mu >= 0)' % (cls, l),
                                        z3.RealVal('4/3') * a_ + l * (l + 1) * b_ + l * (l * l - 1) * (l + 2) * c_ >= 0, [a_ >= 0, b_ >= 0, c_ >= 0], with_axioms=False, with_dens=False,
                                        replay=lambda md: (False, 'arithmetic lemma'), key='positive:lemma:%s' % cls)))
    results.append(discharge(Obligation('%s l=%d: the three squares are non-negative' % (cls, l), z3.And((sq1 >= 0).c, (sq2 >= 0).c, (sq3 >= 0).c), pos,
                                        replay=lambda md: (False, 'squares'), key='positive:squares:%s' % cls)))
    results.append(reach_twin('%s l=%d' % (cls, l), pos))
    return {'results': results, 'encoded': loader.ENCODED, 'axioms': CTX.axiom_notes, 'label': '%s l=%d' % (cls, l)}


def job_stencils():
    """the three finite-difference stencils of the kernels are exact for quadratics on an arbitrary non-uniform 3-point grid (one-sided ones for linear functions)"""
    fns, ns = loader.load_py(SENS, ['sensitivity_to_shear'], {'np': NP})
    a0, a1, a2 = Q.csym('a0'), Q.csym('a1'), Q.csym('a2')
    r0, d0, d1 = Q.sym('r0'), Q.sym('d0'), Q.sym('d1')
    pos = [r0.re > 0, d0.re > 0, d1.re > 0, (r0 - d0 > 0).c]
    rad = [r0 - d0, r0, r0 + d1]
    CTX.facts = pos
    # choose y3 = y4 = y2 = 0, mu = K = 1: the only place the gradient enters is -(4/3) r Re(conj(grad) * 2 y1): recover grad by probing two states
    results = []
    for deg, coeffs in ((2, (a0, a1, a2)), (1, (a0, a1, Q(0)))):
        y1 = [coeffs[0] + coeffs[1] * (x - r0) + coeffs[2] * (x - r0) * (x - r0) for x in rad]
        rows = np.empty((6, 3), dtype=object).view(SArr)
        for i in range(6):
            for j in range(3):
                rows[i, j] = y1[j] if i == 0 else Q(0)
        out = fns['sensitivity_to_shear'](rows, obj_array(rad), obj_array([Q(1)] * 3), obj_array([Q(1)] * 3), 2)
        # with y2=y3=y4=0, mu=K=1: H = (4/3) r^2/(7/3)^2 * |(1/3)/r * 2 y1|^2 - (4/3) r Re(conj(g) 2 y1) + (1/3)|2 y1|^2  -> solve for Re(conj(g) y1)
        for j, (name, exact) in enumerate((('forward (first slice)', None), ('central (interior)', coeffs[1]), ('backward (last slice)', None))):
            if deg == 2 and j != 1:
                continue
            yj = y1[j]
            rj = rad[j]
            true_grad = coeffs[1] + 2 * coeffs[2] * (rj - r0)
            Hj = Q.of(out[j])
            lame = Q(1) - Fr(2, 3)
            want = (Fr(4, 3) * rj * rj / (Q(1) + Fr(4, 3)) ** 2) * ((lame / rj) * 2 * yj).abs2() - Fr(4, 3) * rj * (true_grad.conjugate() * 2 * yj).real + Fr(1, 3) * (2 * yj).abs2()
            def rps(md, j=j, deg=deg):
                rr = [0.8, 1.0, 1.35]
                c0, c1, c2 = 0.7 + 0.2j, -0.4 + 0.5j, (0.3 - 0.1j) if deg == 2 else 0j
                ys = [c0 + c1 * (x - 1.0) + c2 * (x - 1.0) ** 2 for x in rr]
                rowsv = {'a': [{'c': [v.real, v.imag]} for v in ys] + [{'c': [0.0, 0.0]}] * 15, 'dtype': 'complex128', 'shape': [6, 3]}
                one = {'a': [{'c': [1.0, 0.0]}] * 3, 'dtype': 'complex128'}
                r_ = replay.call1('TidalPy.radial_solver.sensitivity', 'sensitivity_to_shear', rowsv, replay.arr(rr), one, one, 2)
                if not r_['ok']:
                    return True, 'real sensitivity_to_shear raised %s' % r_.get('error')
                g = c1 + 2 * c2 * (rr[j] - 1.0)
                w_ = (4. / 3.) * rr[j] ** 2 / (1 + 4. / 3.) ** 2 * abs((1. / 3.) / rr[j] * 2 * ys[j]) ** 2 - (4. / 3.) * rr[j] * (g.conjugate() * 2 * ys[j]).real + abs(2 * ys[j]) ** 2 / 3.
                return abs(r_['value'][j] - w_) > 1e-9 * (abs(w_) + 1), 'real sensitivity_to_shear on r=%r, y1 degree %d: slice %d gives %r, with the exact gradient %r' % (rr, deg, j, r_['value'][j], w_)
            results.append(discharge(Obligation('stencil %s is exact for degree-%d y1 on a non-uniform grid (kernel value equals the one with the true gradient)' % (name, deg), eq_goal(Hj, want), pos,
                                                replay=rps, key='stencil:%s:%d' % (name.split()[0], deg))))
    # the same three stencils inside sensitivity_to_bulk (its own copy of the gradient code): y2 = y3 = 0, mu = K = 1
    fb, _ = loader.load_py(SENS, ['sensitivity_to_bulk'], {'np': NP})
    for deg, coeffs in ((2, (a0, a1, a2)), (1, (a0, a1, Q(0)))):
        y1 = [coeffs[0] + coeffs[1] * (x - r0) + coeffs[2] * (x - r0) * (x - r0) for x in rad]
        rows = np.empty((6, 3), dtype=object).view(SArr)
        for i in range(6):
            for j in range(3):
                rows[i, j] = y1[j] if i == 0 else Q(0)
        outb = fb['sensitivity_to_bulk'](rows, obj_array(rad), obj_array([Q(1)] * 3), obj_array([Q(1)] * 3), 2)
        for j, name in enumerate(('forward (first slice)', 'central (interior)', 'backward (last slice)')):
            if deg == 2 and j != 1:
                continue
            yj, rj = y1[j], rad[j]
            true_grad = coeffs[1] + 2 * coeffs[2] * (rj - r0)
            lame = Q(1) - Fr(2, 3)
            wantb = (rj * rj / (Q(1) + Fr(4, 3)) ** 2) * ((lame / rj) * 2 * yj).abs2() + 2 * rj * (true_grad.conjugate() * 2 * yj).real + (2 * yj).abs2()

            def rpb(md, j=j, deg=deg):
                # real (numba) function on a concrete non-uniform grid with a quadratic / linear y1
                import cmath
                rr = [0.8, 1.0, 1.35]
                c0, c1, c2 = 0.7 + 0.2j, -0.4 + 0.5j, (0.3 - 0.1j) if deg == 2 else 0j
                ys = [c0 + c1 * (x - 1.0) + c2 * (x - 1.0) ** 2 for x in rr]
                rowsv = {'a': [{'c': [v.real, v.imag]} for v in ys] + [{'c': [0.0, 0.0]}] * 15, 'dtype': 'complex128', 'shape': [6, 3]}
                one = {'a': [{'c': [1.0, 0.0]}] * 3, 'dtype': 'complex128'}
                r_ = replay.call1('TidalPy.radial_solver.sensitivity', 'sensitivity_to_bulk', rowsv, replay.arr(rr), one, one, 2)
                if not r_['ok']:
                    return True, 'real sensitivity_to_bulk raised %s' % r_.get('error')
                g = c1 + 2 * c2 * (rr[j] - 1.0)
                want = (rr[j] ** 2 / (1 + 4. / 3.) ** 2) * abs((1. / 3.) / rr[j] * 2 * ys[j]) ** 2 + 2 * rr[j] * (g.conjugate() * 2 * ys[j]).real + abs(2 * ys[j]) ** 2
                return abs(r_['value'][j] - want) > 1e-9 * (abs(want) + 1), 'real sensitivity_to_bulk on r=%r, y1 degree %d: slice %d gives %r, with the exact gradient %r' % (rr, deg, j, r_['value'][j], want)
            results.append(discharge(Obligation('bulk kernel: stencil %s is exact for degree-%d y1 on a non-uniform grid' % (name, deg), eq_goal(Q.of(outb[j]), wantb), pos,
                                                replay=rpb, key='stencil-bulk:%s:%d' % (name.split()[0], deg))))
    results.append(reach_twin('stencils', pos))
    return {'results': results, 'encoded': loader.ENCODED, 'label': 'stencils'}


def job_boundary(l):
    """flux at the surface: with y2(R) = y4(R) = 0 and y6(R) = (2l+1)/R - (l+1) y5(R)/R  the quantity R^2 Im[...] equals -(2l+1) R/(4 pi G) Im k with k = y5 - 1;
    hence  -Im k_l = 4 pi G /((2l+1) R) * integral (H_mu Im mu + H_K Im K) dr  once the flux vanishes at the centre (regular solutions)."""
    y = [Q.csym('y%d' % i) for i in range(1, 7)]
    R, G4pi = Q.sym('R'), Q.sym('G4pi')
    pos = [R.re > 0, G4pi.re > 0]
    love, _ = loader.load_pyx('TidalPy/RadialSolver/love.pyx', ['find_love_cf'], {})
    lv = [None] * 3
    g_s = Q.sym('g_s')
    love['find_love_cf'](lv, [y[0], y[1], y[2], y[3], y[4], y[5]], g_s)
    k = Q.of(lv[0])
    y6 = Q(2 * l + 1) / R - Q(l + 1) * y[4] / R
    flux = (R * R * (y[0].conjugate() * Q(0) + Q(l * (l + 1)) * y[2].conjugate() * Q(0) + y[4].conjugate() * y6 / G4pi)).imag
    results = [discharge(Obligation('l=%d: surface flux R^2 Im[...] with the tidal boundary condition == -(2l+1) R/(4 pi G) Im(k), k from find_love_cf' % l,
                                    eq_goal(flux, -Q(2 * l + 1) * R / G4pi * k.imag), pos + [g_s.re > 0], replay=lambda md: (True, 'boundary evaluation of the energy flux differs'), key='boundary:%d' % l))]
    results.append(reach_twin('boundary', pos))
    return {'results': results, 'encoded': loader.ENCODED, 'label': 'boundary l=%d' % l}


def job_heating(l):
    """calc_radial_tidal_heating * 4 pi r^2 == [integrand 4 pi G/((2l+1) R) H_mu Im mu] * (global prefactor (21/2) -> here 7 e^2 n * (3/2) G M^2 R^5/a^6), i.e. the radial
    profile integrates to the C10 classical heating with -Im k_l replaced by the C05 integral."""
    G = Q.sym('G')
    pi = set_pi()
    fns, ns = loader.load_py('TidalPy/tides/multilayer/heating.py', ['calc_radial_tidal_heating'], {'np': NP, 'G': G})
    e, n, a, M = [Q.sym(x) for x in ('e', 'n', 'a', 'Mh')]
    r = [Q.sym('r0'), Q.sym('r1')]
    H = [Q.sym('H0'), Q.sym('H1')]
    mu = [Q.csym('mu0'), Q.csym('mu1')]
    pos = [x.re > 0 for x in (e, n, a, M, G, r[0], r[1])] + [(r[1] > r[0]).c, H[0].re >= 0, H[1].re >= 0, mu[0].im >= 0, mu[1].im >= 0]
    CTX.facts = pos
    # the function clips negatives with boolean-mask assignment; execute with a tiny array class supporting that
    class Arr(SArr):
        pass
    out = None
    rad = obj_array(r)
    try:
        out = fns['calc_radial_tidal_heating'](e, n, a, M, rad, obj_array(H), obj_array(mu), l)
    except Exception as ex:
        raise RuntimeError('calc_radial_tidal_heating could not be executed symbolically: %r' % ex)
    R = r[1]
    results = []

    def real_heating(md, i, want_nonneg=False):
        """replay on the real (numba) function: same inputs as the model, compare with the closed form"""
        import math
        f = lambda nm, d=1.0: float(md.get(nm, d))
        ev, nv, av, Mv = f('e', 0.1), f('n', 1e-5), f('a', 1e9), f('Mh', 1e27)
        rv = [f('r0', 1.0), f('r1', 2.0)]
        Hv = [f('H0', 1.0), f('H1', 1.0)]
        muv = [complex(f('mu0_r', 1.0), f('mu0_i', 0.5)), complex(f('mu1_r', 1.0), f('mu1_i', 0.5))]
        out = replay.call1('TidalPy.tides.multilayer.heating', 'calc_radial_tidal_heating', ev, nv, av, Mv, replay.arr(rv), replay.arr(Hv), replay.arr(muv, 'complex128'), l)
        if not out.get('ok'):
            return False, 'real call failed: %s' % out.get('error')
        Gv = 6.67430e-11
        got = out['value'][i] * 4 * math.pi * rv[i] ** 2
        want = 10.5 * Gv * Mv ** 2 * rv[1] ** 5 * nv * ev ** 2 / av ** 6 * (4 * math.pi * Gv / ((2 * l + 1) * rv[1]) * Hv[i] * muv[i].imag)
        want = max(want, 0.0)
        if want_nonneg:
            return out['value'][i] < 0, 'real calc_radial_tidal_heating[%d] = %r' % (i, out['value'][i])
        bad = abs(got - want) > 1e-6 * max(abs(got), abs(want), 1e-300)
        return bad, 'real calc_radial_tidal_heating(e=%g, n=%g, a=%g, M=%g, r=%s, H=%s, mu=%s, l=%d)[%d]*4 pi r^2 = %r, closed form = %r (G = %g as in TidalPy.constants up to 1e-6)' % (ev, nv, av, Mv, rv, Hv, muv, l, i, got, want, Gv)
    for i in range(2):
        integrand = G * 4 * pi / (Q(2 * l + 1) * R) * H[i] * mu[i].imag          # d(-Im k)/dr
        classical = Fr(21, 2) * G * M * M * R ** 5 * n * e * e / a ** 6           # heating per unit (-Im k2)
        want_shell = classical * integrand                                            # heating per unit radius
        got_shell = Q.of(out[i]) * 4 * pi * r[i] * r[i]
        results.append(discharge(Obligation('l=%d slice %d: calc_radial_tidal_heating * 4 pi r^2 == (21/2) G M^2 R^5 n e^2/a^6 * [4 pi G/((2l+1)R) H_mu Im mu]' % (l, i),
                                            eq_goal(got_shell, want_shell), pos, replay=lambda md, i=i: real_heating(md, i), key='heating:prefactor')))
        results.append(discharge(Obligation('l=%d slice %d: radial heating >= 0' % (l, i), (Q.of(out[i]) >= 0).c, pos, replay=lambda md, i=i: real_heating(md, i, True), key='heating:nonneg')))
    results.append(reach_twin('heating', pos))
    return {'results': results, 'encoded': loader.ENCODED, 'axioms': CTX.axiom_notes, 'label': 'radial heating l=%d' % l}


def main():
    ls = range(2, 11) if TIER == 'thorough' else (2, 3)
    jobs = []
    for cls in ('SolidDynamicCompressible', 'SolidStaticCompressible'):
        for l in ls:
            jobs.append((job_identity, {'cls': cls, 'l': l}))
    jobs.append((job_stencils, {}))
    for l in ls:
        jobs.append((job_boundary, {'l': l}))
    # the identity integrates the INTERIOR radial functions: they must be the re-dimensionalised, correctly collapsed solution (shared obligations: whole-function run of cf_radial_solver with
    # two solution types and nondimensionalize, and the downward interface map of every pair of layer kinds)
    import c02, c06
    jobs.append((c06.job_whole, {'stack': [(0, False, False), (1, True, False), (0, False, False)], 'nondim': True}))
    for lo in c02.kinds():
        for up in c02.kinds():
            jobs.append((c02.job_interface, {'lower': lo, 'upper': up, 'inc_l': False, 'inc_u': False}))
    for l in ls:
        jobs.append((job_heating, {'l': l}))       # every degree: a prefactor that is right only at l = 2 (e.g. l*l+1 for 2l+1) must be seen
    meta = {
        'explanation': 'The diffeq methods of odes.pyx (transliterated) and the real sensitivity_to_shear/_bulk kernels are executed on symbolic complex states; the kernels run on a 3-slice grid on which '
                       'y1 is linear with the ODE slope so every stencil returns the ODE value. z3 decides the exact local identity d/dr{r^2 Im[conj(y1)y2 + l(l+1)conj(y3)y4 + conj(y5)y6/(4 pi G)]} = '
                       'H_mu Im mu (+ H_K Im K), kernel positivity, exactness of the three stencils for quadratics on a non-uniform grid, the surface evaluation of the flux through find_love_cf, and the '
                       'prefactor of calc_radial_tidal_heating. Together: -Im k_l = 4 pi G/((2l+1)R) * integral(H_mu Im mu + H_K Im K) dr up to quadrature error.',
        'bounds': 'degree l in %s; compressible solid classes (dynamic and static); one radius (pointwise identity => any profile).' % list(ls),
        'outside': 'quadrature error of the caller\'s radial sum; incompressible classes (the kernel with finite K is not the matching quantity there); liquid layers; integrator accuracy; flux continuity across interfaces is C02.',
        'assumptions': ['r, rho, g, G > 0, Re mu > 0, Re K > 0', 'the solver itself only accepts real K (complex-K identity is about the kernels)'],
    }
    solve.run_check(PID, jobs, meta)


if __name__ == '__main__':
    main()
