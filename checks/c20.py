"""C20 — compiled math helpers: principal-value identities (real arithmetic), C99 Annex G special values of csqrt (QF_FP Float64),
integer powers by repeated squaring, double-factorial table, interpreted counterpart."""
import sys, os, math, cmath, re
sys.path.insert(0, os.path.dirname(os.path.dirname(os.path.abspath(__file__))))
import z3
from fractions import Fraction as Fr
from symx.values import Q, B, CTX, eq_goal
from symx import loader, solve, replay, atoms, fp
from symx.explore import Explorer
from symx.npshim import NP
from symx.solve import Obligation, discharge, reach_twin, TIER, REPO

PID = 'C20'
CX = 'TidalPy/utilities/math/complex.pyx'
SX = 'TidalPy/utilities/math/special_x.pyx'
DBL_MAX = Fr(2) ** 1023 * (2 - Fr(1, 2 ** 52))


def cx_constants():
    """module-level constants of complex.pyx read from the CURRENT source and evaluated exactly (DBL_MAX, DBL_MIN, DBL_MANT_DIG come from <float.h>)"""
    c = loader.pyx_module_constants(CX, {'DBL_MAX': DBL_MAX, 'DBL_MIN': Fr(1, 2 ** 1022), 'DBL_MANT_DIG': 53})
    for k in ('SQRT2', 'LOGE2', 'THRESH', 'DBL_MAX_4', 'DBL_MANT_DIG_INT'):
        if k not in c:
            raise RuntimeError('module constant %s of complex.pyx not found (harness out of date)' % k)
    return c


def job_constants():
    """the module constants the kernels rely on: sqrt 2 and log 2 to 30 digits, the overflow threshold DBL_MAX/(1+sqrt 2), DBL_MAX/4, the scaled-exp constants of npy_math"""
    c = cx_constants()
    LN2 = Fr('0.693147180559945309417232121458176568')
    goals = [('SQRT2^2 == 2 to 1e-30', abs(c['SQRT2'] * c['SQRT2'] - 2) < Fr(1, 10 ** 30)), ('LOGE2 == ln 2 to 1e-30', abs(c['LOGE2'] - LN2) < Fr(1, 10 ** 30)),
             ('THRESH * (1 + SQRT2) == DBL_MAX', c['THRESH'] * (1 + c['SQRT2']) == DBL_MAX), ('DBL_MAX_4 == DBL_MAX / 4', c['DBL_MAX_4'] * 4 == DBL_MAX),
             ('SCALED_CEXP_K_D == 1799 and SCALED_K_LOGE2_D == 1799 LOGE2', c.get('SCALED_CEXP_K_D') == 1799 and c.get('SCALED_K_LOGE2_D') == 1799 * c['LOGE2']),
             ('SCALED_CEXP_LOWER / UPPER as in npy_math (710.47586007394386, 1454.9159319953251)', c.get('SCALED_CEXP_LOWER') == Fr('710.47586007394386') and c.get('SCALED_CEXP_UPPER') == Fr('1454.9159319953251'))]
    results = []
    for nm, ok in goals:
        results.append(discharge(Obligation('complex.pyx module constant: %s' % nm, z3.BoolVal(bool(ok)), [], with_axioms=False, with_dens=False,
                                            replay=lambda md, nm=nm: (True, 'module-level constant of the current complex.pyx: %s does not hold (values: %r)' % (nm, {k: float(v) for k, v in c.items() if isinstance(v, Fr)})),
                                            key='const:%s' % nm.split(' ')[0])))
    return {'results': results, 'encoded': loader.ENCODED + [{'file': CX, 'function': 'module-level constants', 'sha256_16': solve.sha_of(repr(sorted((k, str(v)) for k, v in c.items())))}], 'label': 'constants'}


# ------------------------------------------------------------------------------------------------ (a) real-arithmetic identities
def job_real():
    x, y = Q.sym('x'), Q.sym('y')
    c = cx_constants()

    class Z:
        """complex value as seen by the kernel (.real/.imag) built from two reals"""
        def __init__(self, re, im):
            self.real, self.imag = re, im
    ns = dict(c)
    ns.update({'isinf': lambda v: B(False), 'isnan': lambda v: B(False), 'isfinite': lambda v: B(True), 'INFINITY': Q.sym('INF'), 'NAN': Q.sym('NAN'),
               'fabs': atoms.absval, 'sqrt': atoms.sqrt, 'signbit': lambda v: Q.of(v) < 0,
               'copysign': NP.copysign})      # b == 0 counts as +0 (over the reals there is one zero; the -0 clauses are the Annex G job's))
    fns, ns = loader.load_pyx(CX, ['cf_hypot', 'cf_csqrt', 'cf_cabs'], ns)
    ns['cf_build_dblcmplx'] = lambda a, b: Z(Q.of(a), Q.of(b))
    results = []
    fin = [(x <= c['THRESH'] / 2).c, (x >= -c['THRESH'] / 2).c, (y <= c['THRESH'] / 2).c, (y >= -c['THRESH'] / 2).c]
    # hypot
    ex = Explorer(assumptions=fin)
    for p in ex.run(lambda: fns['cf_hypot'](x, y)):
        h = Q.of(p.result)
        results.append(discharge(Obligation('cf_hypot path %s: h >= 0 and h^2 == x^2 + y^2' % ''.join('T' if d else 'F' for d in p.decisions), z3.And((h >= 0).c, eq_goal(h * h, x * x + y * y)), fin + p.pc,
                                            replay=lambda md: replay_fn('hypot', md), key='hypot')))
    # csqrt: principal square root
    ex = Explorer(assumptions=fin, max_paths=64)
    paths = ex.run(lambda: fns['cf_csqrt'](Z(x, y)))
    for p in paths:
        if p.exc is not None:
            raise RuntimeError('csqrt raised %r' % p.exc)
        r = p.result
        re, im = Q.of(r.real), Q.of(r.imag)
        goal = z3.And(eq_goal(re * re - im * im, x), eq_goal(2 * re * im, y), (re >= 0).c, z3.Implies(z3.And(eq_goal(y, Q(0)), (x < 0).c), (im >= 0).c))
        results.append(discharge(Obligation('cf_csqrt path %s: w^2 == z, Re w >= 0 (Im w >= 0 on the cut)' % ''.join('T' if d else 'F' for d in p.decisions), goal, fin + p.pc,
                                            replay=lambda md: replay_fn('csqrt', md), key='csqrt:principal', timeout_ms=solve.qtimeout(60, 300))))
    results.append(reach_twin('real identities', fin))
    # the same two kernels on the rest of the range (the property includes values near overflow): the overflow-avoiding branches (csqrt: z/4 then rescale; hypot: its own scaling) must
    # still return the principal root / the modulus. Over the reals the actual magnitude of the threshold is immaterial, so THRESH is a positive SYMBOL here (no 300-digit rationals in the
    # queries) and x, y are unbounded: every path of the source, for every threshold value, is covered.
    Tsym = Q.sym('THRESH_sym')
    saved = {k_: ns.get(k_) for k_ in ('THRESH',)}
    ns['THRESH'] = Tsym
    big = [Tsym.re > 0]

    def rp_big(which):
        def rp(md):
            ok, detail = False, ''
            # the canonical near-overflow points decide the replay (the solver's point is relative to a symbolic threshold)
            for xv, yv in ((1e308, 1e308), (-1e308, 1e308), (1.5e308, -1e300), (1e300, 1.2e308), (0.3, -0.7), (-2.0, 0.0)):
                ok, detail = replay_fn(which, {'x': xv, 'y': yv})
                if ok:
                    break
            return ok, detail
        return rp
    ex = Explorer(assumptions=big)
    for p in ex.run(lambda: fns['cf_hypot'](x, y)):
        h = Q.of(p.result)
        results.append(discharge(Obligation('cf_hypot, unbounded arguments and symbolic overflow threshold, path %s: h >= 0 and h^2 == x^2 + y^2' % ''.join('T' if d else 'F' for d in p.decisions),
                                            z3.And((h >= 0).c, eq_goal(h * h, x * x + y * y)), big + p.pc, replay=rp_big('hypot'), key='hypot:big')))
    ex = Explorer(assumptions=big, max_paths=64)
    paths_big = ex.run(lambda: fns['cf_csqrt'](Z(x, y)))
    for p in paths_big:
        if p.exc is not None:
            raise RuntimeError('csqrt raised %r' % p.exc)
        r = p.result
        re, im = Q.of(r.real), Q.of(r.imag)
        goal = z3.And(eq_goal(re * re - im * im, x), eq_goal(2 * re * im, y), (re >= 0).c, z3.Implies(z3.And(eq_goal(y, Q(0)), (x < 0).c), (im >= 0).c))
        results.append(discharge(Obligation('cf_csqrt, unbounded arguments and symbolic overflow threshold (scaled and unscaled branches), path %s: w^2 == z, Re w >= 0 (Im w >= 0 on the cut)' %
                                            ''.join('T' if d else 'F' for d in p.decisions), goal, big + p.pc, replay=rp_big('csqrt'), key='csqrt:big', timeout_ms=solve.qtimeout(60, 300))))
    ns.update(saved)
    results.append(reach_twin('real identities near overflow', big))
    return {'results': results, 'encoded': loader.ENCODED, 'axioms': CTX.axiom_notes, 'paths': len(paths) + len(paths_big), 'label': 'real identities'}


def replay_fn(which, md):
    xv, yv = float(md.get('x', 0.3)), float(md.get('y', -0.7))
    # compiled module when it is in sync with complex.pyx, otherwise the transliterated current source (float mode)
    if which == 'hypot':
        val, note = replay.pyx_value(CX, 'cf_hypot', [xv, yv], ('TidalPy.utilities.math.complex', 'hypot'))
        want = math.hypot(xv, yv)
        return abs(val - want) > 4e-16 * want, 'hypot(%r,%r) = %r, want %r [%s]' % (xv, yv, val, want, note)
    val, note = replay.pyx_value(CX, 'cf_csqrt', [complex(xv, yv)], ('TidalPy.utilities.math.complex', 'csqrt'))
    want = cmath.sqrt(complex(xv, yv))
    return abs(val - want) > 1e-15 * abs(want), 'csqrt(%r) = %r, principal value %r [%s]' % (complex(xv, yv), val, want, note)


# ------------------------------------------------------------------------------------------------ exponential, logarithm, general power: structure over uninterpreted libm
def job_structure():
    """cf_cabs, cf_carg, cf_cexp, cf_clog and the general branch of cf_cpow are the standard compositions of libm calls: exp, cos, sin, log, log1p, atan2 are uninterpreted (one symbol per
    syntactically distinct argument), frexp/ldexp are modelled exactly (v = mant * 2^e), sqrt is the usual atom. Finite, non-NaN arguments (real-arithmetic mode)."""
    c = cx_constants()
    x, y = Q.sym('x'), Q.sym('y')
    calls = []
    memo = {}

    def un(name):
        def f(*a):
            key = (name,) + tuple(repr(Q.of(v).re) + '|' + repr(sorted((k, m) for k, (t, m) in Q.of(v).den.items())) for v in a)
            if key not in memo:
                memo[key] = Q.sym('%s_%d' % (name, len(memo)))
                calls.append((name, [Q.of(v) for v in a], memo[key]))
            return memo[key]
        return f

    class P2:
        """integer exponent e of a power of two, carried as the positive number 2^e"""
        def __init__(self, p):
            self.p = Q.of(p)

        def __add__(self, o):
            return P2(self.p * (o.p if isinstance(o, P2) else Q(Fr(2) ** int(Q.of(o).const()))))
        __radd__ = __add__

    def frexp(v, ref):
        v = Q.of(v)
        key = ('frexp', repr(v.re))
        if key not in memo:
            memo[key] = (Q.sym('mant_%d' % len(memo)), Q.sym('pow2_%d' % len(memo)))
            CTX.axiom(eq_goal(v, memo[key][0] * memo[key][1]), 'frexp: v = mant * 2^e')
            CTX.axiom(memo[key][1].re > 0, '2^e > 0')
        ref.v = P2(memo[key][1])
        return memo[key][0]

    def ldexp(a, e):
        return Q.of(a) * (e.p if isinstance(e, P2) else Q(Fr(2) ** int(Q.of(e).const())))

    class Z:
        def __init__(self, re, im):
            self.real, self.imag = Q.of(re), Q.of(im)
    ns = dict(c)
    ns.update({'isinf': lambda v: B(False), 'isnan': lambda v: B(False), 'isfinite': lambda v: B(True), 'INFINITY': Q.sym('INF'), 'NAN': Q.sym('NAN'), 'fabs': atoms.absval, 'sqrt': atoms.sqrt,
               'signbit': lambda v: Q.of(v) < 0, 'copysign': NP.copysign, 'exp': un('exp'), 'cos': un('cos'), 'sin': un('sin'), 'log': un('log'),
               'log1p': un('log1p'), 'atan2': un('atan2'), 'frexp': frexp, 'ldexp': ldexp, 'ceil': lambda v: Q.of(v), 'cf_hypot': un('hypot')})
    fns, ns = loader.load_pyx(CX, ['cf_cabs', 'cf_carg', 'cf_scaled_cexp', 'cf_cexp', 'cf_clog', 'cf_cpow'], ns)
    ns['cf_build_dblcmplx'] = lambda a, b: Z(a, b)
    results = []
    fin = [(x <= c['THRESH'] / 2).c, (x >= -c['THRESH'] / 2).c, (y <= c['THRESH'] / 2).c, (y >= -c['THRESH'] / 2).c]

    def float_replay(qual, args_of, want_of, compiled):
        def rp(md):
            xv, yv = float(md.get('x', 0.3)), float(md.get('y', -0.7))
            if not (abs(xv) < 700 and abs(yv) < 700) or (xv == 0 and yv == 0):
                xv, yv = 0.3, -0.7
            val, note = replay.pyx_value(CX, qual, args_of(xv, yv), compiled)
            want = want_of(xv, yv)
            bad = abs(complex(val) - complex(want)) > 1e-12 * (abs(complex(want)) + 1e-300)
            return bad, '%s%r = %r, principal value %r [%s]' % (qual, tuple(args_of(xv, yv)), val, want, note)
        return rp
    # cabs / carg
    CTX.facts = fin
    h = Q.of(fns['cf_cabs'](Z(x, y)))
    results.append(discharge(Obligation('cf_cabs: |z| >= 0 and |z|^2 == x^2 + y^2', z3.And((h >= 0).c, eq_goal(h * h, x * x + y * y)), fin,
                                        replay=float_replay('cf_cabs', lambda a, b: [complex(a, b)], lambda a, b: abs(complex(a, b)), ('TidalPy.utilities.math.complex', 'cabs')), key='cabs')))
    calls.clear(); memo.clear()
    ang = fns['cf_carg'](Z(x, y))
    okc = len(calls) == 1 and calls[0][0] == 'atan2' and ang is calls[0][2]
    results.append(discharge(Obligation('cf_carg(z) is atan2(Im z, Re z)', z3.And(z3.BoolVal(okc), eq_goal(calls[0][1][0], y), eq_goal(calls[0][1][1], x)) if okc else z3.BoolVal(False), fin,
                                        replay=float_replay('cf_carg', lambda a, b: [complex(a, b)], lambda a, b: cmath.phase(complex(a, b)), ('TidalPy.utilities.math.complex', 'carg')), key='carg')))
    def rp_cexp(md):
        # both the ordinary and the scaled branch (Re z in [710.48, 1454.9]: exp(x) overflows but exp(x) cos y need not) against a 50-digit reference
        import mpmath as mp
        mp.mp.dps = 50
        outs = []
        for xv, yv in ((0.3, -0.7), (710.6, 1.5707963), (720.0, 1.5707963267)):
            val, note = replay.pyx_value(CX, 'cf_cexp', [complex(xv, yv)], ('TidalPy.utilities.math.complex', 'cexp'))
            want = mp.exp(mp.mpf(xv)) * mp.mpc(mp.cos(mp.mpf(yv)), mp.sin(mp.mpf(yv)))
            wr, wi = float(want.real), float(want.imag)
            ok = all((abs(g - w) <= 1e-11 * abs(w)) or (g == w) for g, w in ((complex(val).real, wr), (complex(val).imag, wi)))
            outs.append((xv, yv, val, complex(wr, wi) if abs(wr) < 1e308 and abs(wi) < 1e308 else (wr, wi), ok))
            if not ok:
                return True, 'cf_cexp(%r+%rj) = %r, reference %r [%s]' % (xv, yv, val, outs[-1][3], note)
        return False, 'cf_cexp agrees with the reference at %r' % [o[:2] for o in outs]
    # cexp: every finite path returns exp(x) (cos y + i sin y); the scaled path through frexp/ldexp needs exp(x - K ln2) 2^K = exp(x)
    K = c['SCALED_CEXP_K_D']
    ex = Explorer(assumptions=fin, max_paths=64)

    def run_exp():
        calls.clear(); memo.clear()
        r = fns['cf_cexp'](Z(x, y))
        return r, list(calls)
    for p in ex.run(run_exp):
        if p.exc is not None:
            raise RuntimeError('cexp raised %r' % p.exc)
        r, cl = p.result
        E = [cc for cc in cl if cc[0] == 'exp']
        C = [cc for cc in cl if cc[0] == 'cos']
        S = [cc for cc in cl if cc[0] == 'sin']
        tagp = ''.join('T' if d else 'F' for d in p.decisions)
        if not (len(E) == 1 and len(C) == 1 and len(S) == 1):
            goal = z3.BoolVal(False)
            A = fin + p.pc
        else:
            ex_x = Q.sym('exp_of_x')          # the mathematical exp(x)
            A = fin + p.pc + [ex_x.re > 0]
            shift = E[0][1][0] - x
            same = lambda q, v: z3.is_true(z3.simplify(eq_goal(q, Q(v))))
            # exp functional equation instantiated for the actual argument: exp(x + s) = exp(x) exp(s), with exp(-K LOGE2) = 2^-K (LOGE2 = ln 2, constants obligation)
            plain_, scaled_ = same(shift, Fr(0)), same(shift, -K * c['LOGE2'])
            if plain_:
                A.append(eq_goal(E[0][2], ex_x))
            elif scaled_:
                A.append(eq_goal(E[0][2] * Fr(2) ** int(K), ex_x))
            goal = z3.And(eq_goal(C[0][1][0], y), eq_goal(S[0][1][0], y), eq_goal(Q.of(r.real), ex_x * C[0][2]), eq_goal(Q.of(r.imag), ex_x * S[0][2]), z3.BoolVal(bool(plain_ or scaled_)))
        results.append(discharge(Obligation('cf_cexp path %s: exp(x) (cos y + i sin y) (scaled path: exp(x - K ln2) 2^K with frexp/ldexp exact)' % tagp, goal, A,
                                            replay=rp_cexp, key='cexp')))
    # clog: imaginary part atan2(y, x) on every path; real part log of the modulus (with the documented rescalings)
    ex = Explorer(assumptions=fin + [z3.Or(x.re != 0, y.re != 0)], max_paths=64)

    def run_log():
        calls.clear(); memo.clear()
        r = fns['cf_clog'](Z(x, y))
        return r, list(calls)
    ax, ay = atoms.absval(x), atoms.absval(y)
    for p in ex.run(run_log):
        if p.exc is not None:
            raise RuntimeError('clog raised %r' % p.exc)
        r, cl = p.result
        tagp = ''.join('T' if d else 'F' for d in p.decisions)
        A = fin + p.pc + [z3.Or(x.re != 0, y.re != 0)]
        at = [cc for cc in cl if cc[0] == 'atan2']
        hy = [cc for cc in cl if cc[0] == 'hypot']
        lg = [cc for cc in cl if cc[0] in ('log', 'log1p')]
        conds = [z3.BoolVal(len(at) == 1 and len(lg) <= 1)]
        if len(at) == 1:
            conds += [eq_goal(at[0][1][0], y), eq_goal(at[0][1][1], x), eq_goal(Q.of(r.imag), at[0][2])]
        if len(lg) == 1 and lg[0][0] == 'log' and len(hy) == 1:
            # log(hypot(s|x|, s|y|)) + shift: s in {1, 1/2, 2^53}, shift in {0, +LOGE2, -53 LOGE2}  <=>  log(hypot(|x|,|y|))
            sx = hy[0][1][0]
            conds.append(eq_goal(lg[0][1][0], hy[0][2]))
            variants = []
            for sc, sh in ((Fr(1), Fr(0)), (Fr(1, 2), c['LOGE2']), (Fr(2) ** 53, -53 * c['LOGE2'])):
                variants.append(z3.And(eq_goal(hy[0][1][0], sc * ax), eq_goal(hy[0][1][1], sc * ay), eq_goal(Q.of(r.real), lg[0][2] + sh)))
            conds.append(z3.Or(*variants))
        elif len(lg) == 1 and lg[0][0] == 'log1p' and len(hy) == 1:
            # log1p(h^2 - 1) / 2 with h^2 = x^2 + y^2
            conds += [eq_goal(hy[0][1][0], ax), eq_goal(hy[0][1][1], ay), eq_goal(lg[0][1][0], x * x + y * y - 1), eq_goal(Q.of(r.real), lg[0][2] / 2)]
        else:
            conds.append(z3.BoolVal(False))
        results.append(discharge(Obligation('cf_clog path %s: Im = atan2(y, x); Re = log hypot(|x|,|y|) (rescaled by 1/2 or 2^53 with the matching LOGE2 shift, or log1p(|z|^2 - 1)/2 near |z| = 1)' % tagp,
                                            z3.And(*conds), A,
                                            replay=float_replay('cf_clog', lambda a, b: [complex(a, b)], lambda a, b: cmath.log(complex(a, b)), ('TidalPy.utilities.math.complex', 'clog')), key='clog')))
    # cpow, general branch: cexp(b * clog(a)) as complex multiplication
    lr, li, out = Q.sym('clog_re'), Q.sym('clog_im'), Q.sym('cexp_out')
    got = []
    ns['cf_clog'] = lambda v: Z(lr, li)
    ns['cf_cexp'] = lambda v: (got.append(v), Z(out, Q(0)))[1]
    br, bi = Q.sym('b_re'), Q.sym('b_im')
    Ab = fin + [bi.re != 0, z3.Or(x.re != 0, y.re != 0)]
    CTX.facts = Ab
    ex = Explorer(assumptions=Ab, max_paths=64)
    for p in ex.run(lambda: (got.clear(), fns['cf_cpow'](Z(x, y), Z(br, bi)), list(got))[1:]):
        if p.exc is not None:
            raise RuntimeError('cpow raised %r' % p.exc)
        r, g = p.result
        okg = len(g) == 1
        goal = z3.And(z3.BoolVal(okg), eq_goal(g[0].real, lr * br - li * bi), eq_goal(g[0].imag, lr * bi + li * br)) if okg else z3.BoolVal(False)
        results.append(discharge(Obligation('cf_cpow general branch (Im b != 0) path %s: cexp((Re b + i Im b)(log_re + i log_im)) with (log_re, log_im) = clog(a)' % ''.join('T' if d else 'F' for d in p.decisions),
                                            goal, Ab + p.pc,
                                            replay=lambda md: (lambda val_note: (abs(complex(val_note[0]) - complex(0.9, 0.5) ** complex(1.3, 0.4)) > 1e-12, 'cf_cpow(0.9+0.5j, 1.3+0.4j) = %r, principal value %r [%s]' % (
                                                val_note[0], complex(0.9, 0.5) ** complex(1.3, 0.4), val_note[1])))(replay.pyx_value(CX, 'cf_cpow', [complex(0.9, 0.5), complex(1.3, 0.4)], ('TidalPy.utilities.math.complex', 'cpow'))),
                                            key='cpow:general')))
    results.append(reach_twin('structure', fin))
    return {'results': results, 'encoded': loader.ENCODED, 'axioms': CTX.axiom_notes, 'label': 'exp/log/pow structure'}


# ------------------------------------------------------------------------------------------------ integer powers (formal indeterminate)
def job_ipow(ns_lo, ns_hi):
    """cf_cipow / cf_cpow integer fast path: binary exponentiation executed for every concrete n; the base is ONE real indeterminate
    (the kernel applies only field operations to it, so an identity of rational functions over R holds over C)."""
    a = Q.sym('a')

    class Z:
        def __init__(self, v):
            self.v = v
            self.real, self.imag = v, Q(0)
    ns = dict(cx_constants())
    # |n| >= 100 goes through exp(n log a): clog is an uninterpreted pair (log_re, log_im), cexp records its argument; the obligation is structural (argument = n * log a)
    log_re, log_im, exp_out = Q.sym('clog_re'), Q.sym('clog_im'), Q.sym('cexp_out')
    exp_args = []

    class _Pair:
        def __init__(self, re, im):
            self.real, self.imag = Q.of(re), Q.of(im)

    def _build(re, im):
        imq = Q.of(im)
        return Q.of(re) if (imq.is_const and imq.const() == 0) else _Pair(re, im)

    def _cexp(v):
        exp_args.append(v)
        return exp_out
    ns.update({'isfinite': lambda v: True, 'ceil': lambda v: Q.of(v), 'NAN': Q.sym('NAN'), 'cf_clog': lambda v: _Pair(log_re, log_im), 'cf_cexp': _cexp,
               'cf_build_dblcmplx': _build})
    fns, ns = loader.load_pyx(CX, ['cf_cipow', 'cf_cpow'], ns)
    A = [a.re != 0]
    results = []
    conds_i, conds_p = [], []
    nlist = [n for n in range(ns_lo, ns_hi + 1)]
    for n in nlist:
        # plain python ints for n; `a` real indeterminate; zero tests a_real == 0 resolved by the fact a != 0
        CTX.facts = A
        # every branch on the base is explored (a test such as `a_real == 1.` forks instead of silently taking the false side)
        def all_paths(call):
            ex_ = Explorer(assumptions=A, max_paths=16)
            return [p_ for p_ in ex_.run(call)]
        want = atoms.power(a, n) if abs(n) < 100 else None
        parts = []
        for p_ in all_paths(lambda: (exp_args.clear(), fns['cf_cipow'](a, n), list(exp_args))[1:]):
            if p_.exc is not None:
                parts.append(z3.BoolVal(False))
                continue
            r, eargs = p_.result
            pc_ = z3.And(*p_.pc) if p_.pc else z3.BoolVal(True)
            if abs(n) >= 100:
                okk = len(eargs) == 1 and isinstance(eargs[0], _Pair) and r is exp_out
                parts.append(z3.Implies(pc_, z3.And(z3.BoolVal(okk), eq_goal(eargs[0].real, log_re * n), eq_goal(eargs[0].imag, log_im * n)) if okk else z3.BoolVal(False)))
            else:
                parts.append(z3.Implies(pc_, eq_goal(Q.of(r), want)))
        conds_i.append((n, z3.And(*parts)))
        if -100 < n < 100:
            parts = []
            for p_ in all_paths(lambda: fns['cf_cpow'](a, Q(n))):
                pc_ = z3.And(*p_.pc) if p_.pc else z3.BoolVal(True)
                parts.append(z3.BoolVal(False) if p_.exc is not None else z3.Implies(pc_, eq_goal(Q.of(p_.result), want)))
            conds_p.append((n, z3.And(*parts)))

    def rp(md, which):
        bad = None
        for n in sorted(set(nlist[:: max(1, len(nlist) // 7)] + [k for k in (-3, -2, -1, 1, 2, 3, 5, 7, 16) if k in nlist])):
            z = complex(0.9, 0.5)
            if which == 'cipow':
                val, note = replay.pyx_value(CX, 'cf_cipow', [z, n], ('TidalPy.utilities.math.complex', 'cipow'))
            else:
                val, note = replay.pyx_value(CX, 'cf_cpow', [z, complex(n, 0)], ('TidalPy.utilities.math.complex', 'cpow'))
            want = z ** n
            if abs(val - want) > 1e-12 * abs(want):
                bad = (n, val, want, note)
        return bad is not None, '%s(0.9+0.5j, n): %r' % (which, bad)
    for i in range(0, len(conds_i), 40):
        chunk = conds_i[i:i + 40]
        results.append(discharge(Obligation('cf_cipow(a, n) == a^n for n in %d..%d (binary exponentiation, each n executed; |n| >= 100: the result is cexp(n * clog(a)))' % (chunk[0][0], chunk[-1][0]), z3.And(*[c for _, c in chunk]), A,
                                            replay=lambda md: rp(md, 'cipow'), key='cipow')))
    for i in range(0, len(conds_p), 40):
        chunk = conds_p[i:i + 40]
        results.append(discharge(Obligation('cf_cpow(a, n+0i) integer fast path == a^n for n in %d..%d' % (chunk[0][0], chunk[-1][0]), z3.And(*[c for _, c in chunk]), A,
                                            replay=lambda md: rp(md, 'cpow'), key='cpow:int')))
    results.append(reach_twin('ipow', A))
    return {'results': results, 'encoded': loader.ENCODED, 'label': 'ipow %d..%d' % (ns_lo, ns_hi)}


class _ZQ:
    """complex value in formal-indeterminate mode: wraps one Q; supports the field operations the kernels use"""
    def __init__(self, q):
        self.q = Q.of(q)
        self.real, self.imag = self.q, Q(0)

    def _o(self, o):
        return o.q if isinstance(o, _ZQ) else Q.of(o)

    def __mul__(self, o):
        return _ZQ(self.q * self._o(o))
    __rmul__ = __mul__

    def __imul__(self, o):
        return _ZQ(self.q * self._o(o))

    def __truediv__(self, o):
        return _ZQ(self.q / self._o(o))

    def __rtruediv__(self, o):
        return _ZQ(self._o(o) / self.q)

    def __add__(self, o):
        return _ZQ(self.q + self._o(o))
    __radd__ = __add__


# ------------------------------------------------------------------------------------------------ (b) Annex G for csqrt, Float64
def job_annexg(clause):
    S = fp.F64
    c = cx_constants()
    X, Y = fp.FPV.sym('zr', S), fp.FPV.sym('zi', S)
    inf = fp.FPV(z3.fpPlusInfinity(S.sort), S)
    nan = fp.FPV(z3.fpNaN(S.sort), S)

    class Z:
        def __init__(self, re, im):
            self.real, self.imag = re, im

    def lift(v):
        return v if isinstance(v, fp.FPV) else X.of(v)
    ns = {k: (v if not isinstance(v, Fr) else v) for k, v in c.items()}
    ns.update({'isinf': lambda v: fp.FB(lift(v).isinf(), S), 'isnan': lambda v: fp.FB(lift(v).isnan(), S), 'INFINITY': inf, 'NAN': nan,
               'isfinite': lambda v: fp.FB(z3.Not(z3.Or(lift(v).isinf(), lift(v).isnan())), S),
               'fabs': lambda v: abs(lift(v)), 'sqrt': lambda v: lift(v).sqrt(), 'signbit': lambda v: fp.FB(z3.fpIsNegative(lift(v).t), S),
               'copysign': lambda a, b: fp.fp_ite(fp.FB(z3.fpIsNegative(lift(b).t), S), -abs(lift(a)), abs(lift(a))),
               'cf_build_dblcmplx': lambda a, b: Z(lift(a), lift(b))})
    fns, ns = loader.load_pyx(CX, ['cf_hypot', 'cf_csqrt'], ns)
    pz = lambda v: z3.And(z3.fpIsZero(v.t), z3.fpIsPositive(v.t))
    nz = lambda v: z3.And(z3.fpIsZero(v.t), z3.fpIsNegative(v.t))
    pinf = lambda v: z3.And(z3.fpIsInf(v.t), z3.fpIsPositive(v.t))
    ninf = lambda v: z3.And(z3.fpIsInf(v.t), z3.fpIsNegative(v.t))
    fin = lambda v: z3.And(z3.Not(z3.fpIsInf(v.t)), z3.Not(z3.fpIsNaN(v.t)))
    pos = lambda v: z3.fpIsPositive(v.t)
    neg = lambda v: z3.fpIsNegative(v.t)
    isn = lambda v: z3.fpIsNaN(v.t)
    # clause: (assumption on (X,Y), expectation on (re, im)), C99 G.6.4.2 + conjugate symmetry
    CL = {
        'zero+0':   (z3.And(z3.fpIsZero(X.t), pz(Y)), lambda r, i: z3.And(pz(r), pz(i)), (0.0, 0.0)),
        'zero-0':   (z3.And(z3.fpIsZero(X.t), nz(Y)), lambda r, i: z3.And(pz(r), nz(i)), (0.0, -0.0)),
        'x+iinf':   (pinf(Y), lambda r, i: z3.And(pinf(r), pinf(i)), (float('nan'), float('inf'))),
        'x-iinf':   (ninf(Y), lambda r, i: z3.And(pinf(r), ninf(i)), (-3.0, float('-inf'))),
        'fin+inan': (z3.And(fin(X), isn(Y)), lambda r, i: z3.And(isn(r), isn(i)), (2.0, float('nan'))),
        '-inf+iy':  (z3.And(ninf(X), fin(Y), pos(Y)), lambda r, i: z3.And(pz(r), pinf(i)), (float('-inf'), 2.0)),
        '-inf-iy':  (z3.And(ninf(X), fin(Y), neg(Y)), lambda r, i: z3.And(pz(r), ninf(i)), (float('-inf'), -2.0)),
        '+inf+iy':  (z3.And(pinf(X), fin(Y), pos(Y)), lambda r, i: z3.And(pinf(r), pz(i)), (float('inf'), 2.0)),
        '+inf-iy':  (z3.And(pinf(X), fin(Y), neg(Y)), lambda r, i: z3.And(pinf(r), nz(i)), (float('inf'), -2.0)),
        '-inf+inan': (z3.And(ninf(X), isn(Y)), lambda r, i: z3.And(isn(r), z3.fpIsInf(i.t)), (float('-inf'), float('nan'))),
        '+inf+inan': (z3.And(pinf(X), isn(Y)), lambda r, i: z3.And(pinf(r), isn(i)), (float('inf'), float('nan'))),
        'nan+iy':   (z3.And(isn(X), z3.Not(z3.fpIsInf(Y.t))), lambda r, i: z3.And(isn(r), isn(i)), (float('nan'), 1.0)),
        'pos+0':    (z3.And(fin(X), pos(X), z3.Not(z3.fpIsZero(X.t)), pz(Y)), lambda r, i: z3.And(pos(r), pz(i)), (4.0, 0.0)),
        'pos-0':    (z3.And(fin(X), pos(X), z3.Not(z3.fpIsZero(X.t)), nz(Y)), lambda r, i: z3.And(pos(r), nz(i)), (4.0, -0.0)),
    }
    pre, expect, sample = CL[clause]
    ex = Explorer(assumptions=[pre], timeout_ms=20000, max_paths=64)
    paths = ex.run(lambda: fns['cf_csqrt'](Z(X, Y)))
    results = []
    if not paths:
        raise RuntimeError('no feasible path for clause ' + clause)

    def rp(md):
        zr, zi = sample
        r = replay.call_real([{'module': 'TidalPy.utilities.math.complex', 'func': 'csqrt', 'args': [{'c': [zr, zi]}]}])[0]
        want = cmath.sqrt(complex(zr, zi))
        got = r.get('value')
        def same(a, b):
            return (a != a and b != b) or (a == b and math.copysign(1, a) == math.copysign(1, b))
        bad = (not r['ok']) or not (same(got.real, want.real) and (same(got.imag, want.imag) or (clause == '-inf+inan' and abs(got.imag) == float('inf'))))
        return bad, 'csqrt(%r%+rj) = %r, C99 Annex G (cmath) gives %r' % (zr, zi, got, want)
    for p in paths:
        if p.exc is not None:
            raise RuntimeError('raised %r' % p.exc)
        r = p.result
        results.append(discharge(Obligation('csqrt Annex G clause %s (path %s)' % (clause, ''.join('T' if d else 'F' for d in p.decisions)), expect(r.real, r.imag), [pre] + p.pc,
                                            with_axioms=False, with_dens=False, replay=rp, key='annexg:csqrt:%s' % clause, timeout_ms=solve.qtimeout(60, 300), info={'sort': 'Float64'})))
    results.append({'name': 'Annex G %s [reachability twin]' % clause, 'key': 'twin', 'twin': True, 'verdict': solve.sat_check([pre], 60000), 'solver_s': 0.0, 'info': {}})
    return {'results': results, 'encoded': loader.ENCODED, 'paths': len(paths), 'label': 'annexg ' + clause, 'axioms': ['QF_FP Float64 round-nearest-even execution of cf_csqrt / cf_hypot']}


# ------------------------------------------------------------------------------------------------ (d) double factorial
def job_dfact():
    src = open(os.path.join(REPO, SX)).read()
    tab = {}
    for m in re.finditer(r'^pre_calculated_doubles_ptr\[\s*(\d+)\]\s*=\s*([0-9\.eE\+\-]+)', src, flags=re.M):
        tab[int(m.group(1))] = m.group(2)
    loader.ENCODED.append({'file': SX, 'function': 'pre_calculated_doubles table (module level)', 'sha256_16': solve.sha_of(''.join('%d=%s;' % kv for kv in sorted(tab.items())))})
    fns, ns = loader.load_pyx(SX, ['cf_double_factorial', 'double_factorial'], {'NAN': Q.sym('NAN'), 'tgamma': None})

    def dfact(n):
        r = 1
        while n > 1:
            r *= n
            n -= 2
        return r
    T = z3.Function('table', z3.IntSort(), z3.RealSort())
    Wt = z3.Function('want', z3.IntSort(), z3.RealSort())
    ax = []
    for n, txt in tab.items():
        ax.append(T(n) == z3.RealVal(str(Fr(float(txt)))))       # value the C compiler stores: nearest double of the literal
        exact = dfact(n)
        ax.append(Wt(n) == z3.RealVal(str(Fr(float(exact)))))    # n!! exactly when < 2^53, else the nearest double
    n = z3.Int('n')
    results = []
    defined = z3.Or(*[n == k for k in tab])
    results.append(discharge(Obligation('double-factorial table defines every n in 0..50', defined, [n >= 0, n <= 50], with_axioms=False, with_dens=False,
                                        replay=lambda md: (int(md.get('n', 0)) not in tab, 'special_x.pyx (current source) has no literal for pre_calculated_doubles_ptr[%s]' % md.get('n')), key='dfact:defined')))

    def rp(md):
        k = int(md['n'])
        r = replay.call_real([{'module': 'TidalPy.utilities.math.special_x', 'func': 'double_factorial', 'args': [k]}])[0]
        got = r.get('value')
        want = float(dfact(k))
        src_val = float(tab[k])
        return src_val != want, 'double_factorial(%d): source literal %r (compiled module returns %r), exact n!! = %d' % (k, src_val, got, dfact(k))
    # one query per entry so that each wrong literal is identified (and can be listed individually)
    for k in sorted(tab):
        results.append(discharge(Obligation('double-factorial table[%d] == %d!! (exact when < 2^53, else nearest double)' % (k, k), T(k) == Wt(k), ax, with_axioms=False, with_dens=False,
                                            replay=lambda md, k=k: rp({'n': k}), key='dfact:%d' % k)))
    # the function reads the table at index n for n < 51 (extent-checked pointer)
    from symx.pyx2py import CArr, Ptr
    arr = CArr((51,), 'pre_calculated_doubles')
    for k in range(51):
        arr.data[k] = Q(z3.Real('t%d' % k))
    ns['pre_calculated_doubles_ptr'] = Ptr(arr, 0)
    ok = all(fns['cf_double_factorial'](k) is arr.data[k] for k in range(51))

    def rp_index(md):
        span = loader.SPANS.get(('TidalPy/utilities/math/special_x.pyx', 'cf_double_factorial'))
        insync = bool(span) and replay.compiled_in_sync('TidalPy/utilities/math/special_x.pyx', span)[0]
        if not insync:
            return True, 'compiled special_x is STALE with respect to the .pyx: witnessed on the transliterated current source only (cf_double_factorial(k) does not return table[k] for some k in 0..50)'
        r = replay.call_real([{'module': 'TidalPy.utilities.math.special_x', 'func': 'double_factorial', 'args': [k]} for k in range(51)])
        bad = [(k, x.get('value'), float(tab[k])) for k, x in enumerate(r) if not x['ok'] or x['value'] != float(tab[k])]
        return bool(bad), 'compiled double_factorial(k) vs source literal table[k]: %r' % bad[:4]

    def rp_rec(md):
        ks = (51, 52, 60, 99, 170)
        r = replay.call_real([{'module': 'TidalPy.utilities.math.special_x', 'func': 'double_factorial', 'args': [k]} for k in ks])
        bad = [(k, x.get('value'), float(dfact(k))) for k, x in zip(ks, r) if not x['ok'] or abs(x['value'] - float(dfact(k))) > 1e-12 * float(dfact(k))]
        span = loader.SPANS.get(('TidalPy/utilities/math/special_x.pyx', 'cf_double_factorial'))
        insync = bool(span) and replay.compiled_in_sync('TidalPy/utilities/math/special_x.pyx', span)[0]
        if not insync:
            return True, 'compiled special_x is STALE: recursion branch witnessed on the transliterated current source only'
        return bool(bad), 'compiled double_factorial(n) vs n!! (relative 1e-12): %r' % bad
    results.append(discharge(Obligation('cf_double_factorial(n) returns table[n] for every n in 0..50 (extent-checked)', z3.BoolVal(ok), [], with_axioms=False, with_dens=False,
                                        replay=rp_index, key='dfact:index')))
    # recursion branch: Gamma(n+1)/(n-1)!! == n!!  with Gamma(n+1) = n! exact
    ns['tgamma'] = lambda v: Q(Fr(math.factorial(int(Q.of(v).const()) - 1)))
    for k in range(51):
        arr.data[k] = Q(Fr(dfact(k)))
    conds = []
    for k in (51, 52, 60, 99, 170):
        conds.append(eq_goal(fns['cf_double_factorial'](k), Q(Fr(dfact(k)))))
    results.append(discharge(Obligation('cf_double_factorial recursion branch (n in {51,52,60,99,170}): Gamma(n+1)/(n-1)!! == n!! with exact Gamma', z3.And(*conds), [], with_axioms=False, with_dens=False,
                                        replay=rp_rec, key='dfact:recursion')))
    return {'results': results, 'encoded': loader.ENCODED, 'label': 'double factorial'}


# ------------------------------------------------------------------------------------------------ interpreted sqrt_neg
def job_sqrt_neg():
    x, y = Q.sym('x'), Q.sym('y')
    fns, ns = loader.load_py('TidalPy/utilities/math/special.py', ['_sqrt_neg_python'], {'np': NP})
    results = []
    for region, A in (('Im z > 0', [y.re > 0]), ('Im z < 0', [y.re < 0]), ('Im z = 0, Re z < 0', [y.re == 0, x.re < 0]), ('Im z = 0, Re z > 0', [y.re == 0, x.re > 0])):
        CTX.facts = A
        w = Q.of(fns['_sqrt_neg_python'](x + Q(0, 1) * y, False))
        w_default = Q.of(fns['_sqrt_neg_python'](x + Q(0, 1) * y))         # the call every user of sqrt_neg(z) makes: the defaults of the signature are part of the function
        goal = z3.And(eq_goal(w * w, x + Q(0, 1) * y), (w.real >= 0).c, eq_goal(w_default, w))
        if 'Re z < 0' in region:
            goal = z3.And(goal, (w.imag >= 0).c)

        def rp(md):
            z = complex(float(md.get('x', -2.0)), float(md.get('y', 0.0)))
            r = replay.call_real([{'module': 'TidalPy.utilities.math.special', 'func': 'sqrt_neg', 'args': [z]}, {'module': 'TidalPy.utilities.math.complex', 'func': 'csqrt', 'args': [z]}])
            a, b = r[0].get('value'), r[1].get('value')
            return (a is None) or abs(a - cmath.sqrt(z)) > 1e-14 * abs(cmath.sqrt(z)), 'sqrt_neg(%r)=%r csqrt=%r cmath=%r' % (z, a, b, cmath.sqrt(z))
        results.append(discharge(Obligation('interpreted _sqrt_neg_python (complex branch, called with is_real=False and with its default arguments) is the principal square root, region %s' % region, goal, A, replay=rp, key='sqrt_neg:%s' % region)))
    CTX.facts = [x.re != 0]

    def rp_real(md):
        xv = float(md.get('x', -2.0))
        r = replay.call1('TidalPy.utilities.math.special', 'sqrt_neg', xv, True)
        if not r['ok']:
            return True, 'sqrt_neg(%r, True) raised %s' % (xv, r.get('error'))
        a = complex(r['value']) if not isinstance(r['value'], complex) else r['value']
        return abs(a - cmath.sqrt(complex(xv))) > 1e-14 * abs(cmath.sqrt(complex(xv))), 'sqrt_neg(%r, is_real=True) = %r, principal square root = %r' % (xv, a, cmath.sqrt(complex(xv)))
    wr = Q.of(fns['_sqrt_neg_python'](x, True))
    results.append(discharge(Obligation('interpreted _sqrt_neg_python (is_real branch): w^2 == x, principal branch', z3.And(eq_goal(wr * wr, x), (wr.real >= 0).c, (wr.imag >= 0).c), [x.re != 0],
                                        replay=rp_real, key='sqrt_neg:real')))
    return {'results': results, 'encoded': loader.ENCODED, 'axioms': CTX.axiom_notes, 'label': 'sqrt_neg'}


CLAUSES = ['zero+0', 'zero-0', 'x+iinf', 'x-iinf', 'fin+inan', '-inf+iy', '-inf-iy', '+inf+iy', '+inf-iy', '-inf+inan', '+inf+inan', 'nan+iy', 'pos+0', 'pos-0']


def main():
    jobs = [(job_real, {}), (job_dfact, {}), (job_sqrt_neg, {}), (job_constants, {}), (job_structure, {})]
    jobs += [(job_annexg, {'clause': c}) for c in CLAUSES]
    if TIER == 'thorough':
        jobs += [(job_ipow, {'ns_lo': a, 'ns_hi': b}) for a, b in ((-200, -101), (-100, -1), (0, 100), (101, 200))]
    else:
        jobs += [(job_ipow, {'ns_lo': -40, 'ns_hi': 40}), (job_ipow, {'ns_lo': 99, 'ns_hi': 101}), (job_ipow, {'ns_lo': -101, 'ns_hi': -99}), (job_ipow, {'ns_lo': 150, 'ns_hi': 150})]
    meta = {
        'explanation': 'complex.pyx and special_x.pyx are transliterated from the current source. (a) cf_hypot/cf_csqrt executed over the reals with path exploration: w^2=z, Re w>=0 decided per path; '
                       '(b) the same cf_csqrt source executed with IEEE Float64 values in QF_FP, one query per C99 G.6.4.2 clause (and conjugate-symmetric twins); (c) cf_cipow / the cf_cpow integer fast path '
                       'executed for each concrete exponent on one real indeterminate (field operations only) and compared with a^n; (d) the 51 literals of the double-factorial table against n!! '
                       '(exact below 2^53, nearest double above), index/extent and the Gamma recursion with exact Gamma; (e) the interpreted sqrt_neg against the principal square root.',
        'bounds': 'csqrt and hypot in (a): |x|,|y| <= THRESH/2 with the source constant, and unbounded x, y with the overflow threshold as a positive symbol (covers the scaled branch); <= THRESH/2 for exp/log/pow structure; exponents -40..40 quick, -200..200 thorough (|n| >= 100 goes through clog/cexp in the source and is reported as a harness error if reached); Float64 for (b).',
        'outside': '"within a few ulp" accuracy of finite results; cexp/clog values (libm exp, log, sin, cos, atan2); overflow scaling branch of csqrt; cpow with non-integer exponents.',
        'assumptions': ['libm sqrt is exact real sqrt in (a)'],
        'stubs': ['isinf/isnan False in real-arithmetic mode', 'tgamma(n+1) = n! exactly in the recursion obligation'],
    }
    solve.run_check(PID, jobs, meta)


if __name__ == '__main__':
    main()
