"""C13 — history independence of the OOP world/orbit state: concolic provenance execution of the real classes + EUF/arithmetic validity of T_hist == T_fresh."""
import sys, os, json, itertools, subprocess, tempfile, hashlib
sys.path.insert(0, os.path.dirname(os.path.dirname(os.path.abspath(__file__))))
import z3
from fractions import Fraction as Fr
from symx import solve, replay, loader
from symx.solve import Obligation, discharge, TIER, REPO, VERIF

PID = 'C13'
WORLD_KEYS = ['eccentricity', 'orbital_period', 'semi_major_axis', 'orbital_frequency', 'spin_period', 'spin_frequency']
ORBIT_KEYS = ['eccentricity', 'orbital_period', 'semi_major_axis', 'orbital_frequency']
BATCHED = [('eccentricity', 'orbital_period'), ('eccentricity', 'spin_period'), ('orbital_frequency', 'spin_frequency')]


def alphabet():
    ops = [{'via': 'world', 'kw': {k: 0}} for k in WORLD_KEYS] + [{'via': 'orbit', 'kw': {k: 0}} for k in ORBIT_KEYS]
    ops += [{'via': 'world', 'kw': {a: 0, b: 0}} for a, b in BATCHED] + [{'via': 'orbit', 'kw': {'eccentricity': 0, 'orbital_period': 0}}]
    return ops


def op_name(op):
    return '%s.set_state(%s)' % (op['via'], ', '.join(sorted(op['kw'])))


def run_tracer(world, histories, obliquity=False, timeout=3000):
    with tempfile.TemporaryDirectory(prefix='verif_c13_') as td:
        env = dict(os.environ)
        env['PYTHONPATH'] = REPO
        p = subprocess.run([replay.VENV_PY, os.path.join(VERIF, 'replay', 'c13_tracer.py')], input=json.dumps({'world': world, 'histories': histories, 'obliquity': obliquity}),
                           capture_output=True, text=True, cwd=td, env=env, timeout=timeout)
    if '@@RESULT@@' not in p.stdout:
        raise RuntimeError('tracer failed: %s\n%s' % (p.stdout[-500:], p.stderr[-1500:]))
    return json.loads(p.stdout.split('@@RESULT@@')[-1])


class Tr:
    """provenance term -> z3 (uninterpreted leaf functions over Real, interpreted arithmetic)"""

    def __init__(self):
        self.funcs, self.consts, self.memo = {}, {}, {}

    def fn(self, name, n):
        k = (name, n)
        if k not in self.funcs:
            self.funcs[k] = z3.Function('%s/%d' % (name, n), *([z3.RealSort()] * (n + 1)))
        return self.funcs[k]

    def const(self, name):
        if name not in self.consts:
            self.consts[name] = z3.Real(name)
        return self.consts[name]

    def t(self, term):
        key = json.dumps(term)
        if key in self.memo:
            return self.memo[key]
        kind = term[0]
        if kind == 'in':
            r = self.const('in:' + term[1])
        elif kind == 'c':
            try:
                r = z3.RealVal(str(Fr(float(term[1]))))
            except (ValueError, OverflowError):
                r = self.const('const:' + term[1])
        elif kind == 'app':
            args = [self.t(a) for a in term[2]] + [self.t(v) for _, v in term[3]]
            name = term[1] + ('|' + ','.join(k for k, _ in term[3]) if term[3] else '')
            r = self.fn(name, len(args))(*args) if args else self.const('app:' + name)
        elif kind == 'proj':
            r = self.fn('proj%d' % term[1], 1)(self.t(term[2]))
        elif kind == 'op':
            if term[1] == 'neg':
                r = -self.t(term[2])
            else:
                a, b = self.t(term[2]), self.t(term[3])
                r = {'+': a + b, '-': a - b, '*': a * b}.get(term[1])
                if r is None:
                    r = self.fn('div', 2)(a, b)
        elif kind == 'dict':
            vals = [self.t(v) for _, v in term[1]]
            r = self.fn('dict{%s}' % ','.join(k for k, _ in term[1]), len(vals))(*vals) if vals else self.const('emptydict')
        elif kind == 'tup':
            vals = [self.t(v) for v in term[1]]
            r = self.fn('tup', len(vals))(*vals) if vals else self.const('emptytup')
        elif kind == 'fn':
            r = self.const('fn:' + term[1])
        elif kind == 'opaque':
            r = self.const('opaque:%s:%s' % (term[1], term[2]))
        else:
            raise ValueError(term)
        self.memo[key] = r
        return r


def inputs_in(term, acc=None):
    acc = set() if acc is None else acc
    if isinstance(term, list):
        if len(term) == 2 and term[0] == 'in':
            acc.add(term[1])
        else:
            for x in term:
                inputs_in(x, acc)
    return acc


def renumber(hist):
    out = []
    for k, op in enumerate(hist, start=1):
        out.append({'via': op['via'], 'kw': {nm: k for nm in op['kw']}})
    return out


def job_histories(world, k, chunk, nchunks):
    ops = alphabet()
    hs = []
    for n in range(0, k + 1):
        for combo in itertools.product(ops, repeat=n):
            hs.append(renumber(combo))
    hs = hs[chunk::nchunks]
    out = run_tracer(world, hs)
    results = []
    agg = {}
    n_hist = n_q = n_same = 0
    uncovered = []
    for rec in out:
        hname = ' ; '.join(op_name(o) for o in rec['history']) or '(no update after the initial state)'
        if 'error' in rec:
            results.append(discharge(Obligation('%s world, history [%s]: executes' % (world, hname), z3.BoolVal(False), [], with_axioms=False, with_dens=False,
                                                replay=lambda md, rec=rec: (True, 'real classes raised: %s' % rec['error']), key='raises:%s' % hname)))
            continue
        n_hist += 1
        tr = Tr()
        for q, a in rec['hist'].items():
            b = rec['fresh'][q]
            if 'error' in a or 'error' in b:
                uncovered.append('%s [%s]: %s' % (q, hname, a.get('error') or b.get('error')))
                continue
            n_q += 1
            ta, tb = tr.t(a['term']), tr.t(b['term'])
            goal = ta == tb
            va, vb = a.get('value'), b.get('value')
            stale = sorted(inputs_in(a['term']) - inputs_in(b['term']))

            def rp(md, va=va, vb=vb, q=q, hname=hname, stale=stale):
                if va is None or vb is None:
                    return False, 'no concrete value to compare'
                differs = abs(va - vb) > 1e-9 * (abs(va) + abs(vb)) + 1e-300
                return differs, '%s after [%s] = %r, fresh world in the same final state = %r (real classes, concrete run); stale inputs in the history term: %s' % (q, hname, va, vb, stale)
            ob = Obligation('%s world, history [%s]: %s has the same provenance term as a fresh world in the final state (valid for all interpretations of the leaf functions)' % (world, hname, q),
                            goal, [], with_axioms=False, with_dens=False, replay=rp, key='stale:%s:%s' % (world, q), timeout_ms=20000)
            r = discharge(ob)
            if r['verdict'] == 'sat' and r.get('replay_ok') is False:
                # terms differ but the concrete values agree: abstraction artefact (uninterpreted leaf functions); not a violation, reported as not covered
                uncovered.append('%s [%s]: terms differ, values agree (%r)' % (q, hname, va))
                r['verdict'] = 'unsat'
                r['info'] = dict(r.get('info') or {}, note='sat under EUF abstraction but concrete values agree: counted as not covered')
                r['name'] += ' [NOT COVERED: abstraction]'
            if r['verdict'] == 'unsat':
                n_same += 1
                k_ = (q,)
                agg.setdefault(k_, [0, 0.0])
                agg[k_][0] += 1
                agg[k_][1] += r['solver_s']
            else:
                results.append(r)
    # aggregate the discharged obligations per quantity (thousands of identical-shape queries)
    for (q,), (cnt, ts) in sorted(agg.items()):
        results.append({'name': '%s world, %d histories of length <= %d (chunk %d/%d): %s equals the fresh-world term' % (world, cnt, k, chunk + 1, nchunks, q), 'key': 'ok:%s:%s' % (world, q),
                        'verdict': 'unsat', 'solver_s': round(ts, 3), 'info': {'queries': cnt}})
    return {'results': results, 'encoded': [{'file': 'TidalPy/tides/methods/base.py, global_approx.py, structures/world_types/*.py, structures/orbit/*.py', 'function': 'real classes driven concretely under the provenance tracer (replay/c13_tracer.py)',
                                             'sha256_16': _sha_of_sources()}],
            'notes': ['%d histories, %d quantity comparisons, %d not covered' % (n_hist, n_q, len(uncovered))] + uncovered[:10], 'label': '%s k<=%d chunk %d' % (world, k, chunk)}


def _sha_of_sources():
    h = hashlib.sha256()
    for rel in ('TidalPy/tides/methods/base.py', 'TidalPy/tides/methods/global_approx.py', 'TidalPy/structures/world_types/basic.py', 'TidalPy/structures/world_types/tidal.py',
                'TidalPy/structures/orbit/base.py', 'TidalPy/structures/orbit/physics.py'):
        h.update(open(os.path.join(REPO, rel), 'rb').read())
    return h.hexdigest()[:16]


def main():
    jobs = []
    if TIER == 'thorough':
        plan = [('cpl', 3, 12), ('ctl', 2, 4)]
    else:
        plan = [('cpl', 2, 6), ('ctl', 1, 1)]
    for world, k, n in plan:
        for c in range(n):
            jobs.append((job_histories, {'world': world, 'k': k, 'chunk': c, 'nchunks': n}))
    meta = {
        'explanation': 'The real BaseWorld/TidalWorld/OrbitBase/PhysicsOrbit/TidesBase/GlobalApproxTides classes are driven in /venv/bin/python under a provenance tracer: leaf numeric functions '
                       '(eccentricity/inclination functions, calculate_terms, collapse_modes, susceptibility, CPL/CTL helpers, conversions, derivative functions) are wrapped at their import sites and return '
                       'values that carry the uninterpreted term f(args); setter inputs are tagged symbols; a float subclass carries terms through inline arithmetic. Operation sequences (symbolic choice of the '
                       'operation at each step = enumeration of the bounded history space) are executed; for every exposed quantity z3 decides the validity of T_history = T_fresh over uninterpreted functions '
                       '+ real arithmetic, i.e. for ALL input values and all interpretations of the leaves. A sat answer is confirmed by the concrete values of the same real run before it is reported.',
        'bounds': 'histories of length <= %s over %d operations (single and batched set_state through the world and through the orbit); global-approximation CPL and CTL worlds; scalars.' % ({'quick': 'k=2 (CPL), 1 (CTL)', 'thorough': 'k=3 (CPL), 2 (CTL)'}[TIER if TIER == 'thorough' else 'quick'], len(alphabet())),
        'outside': 'layered (multi-layer rheology) worlds; arrays; time / temperature updates; quantities whose provenance is lost are listed as not covered, not as passed.',
        'assumptions': ['leaf functions are deterministic functions of their arguments'],
        'stubs': ['leaf numeric functions abstracted to uninterpreted functions (their values are real)'],
    }
    solve.run_check(PID, jobs, meta)


if __name__ == '__main__':
    main()
