"""C13 — history independence of the OOP world/orbit state: concolic provenance execution of the real classes + EUF/arithmetic validity of T_hist == T_fresh."""
import sys, os, json, itertools, subprocess, tempfile, hashlib
sys.path.insert(0, os.path.dirname(os.path.dirname(os.path.abspath(__file__))))
import z3
from fractions import Fraction as Fr
from symx import solve, replay, loader
from symx.solve import Obligation, discharge, TIER, REPO, VERIF

PID = 'C13'
WORLD_KEYS = ['eccentricity', 'orbital_period', 'semi_major_axis', 'orbital_frequency', 'spin_period', 'spin_frequency']
ORBIT_KEYS = ['eccentricity', 'orbital_period', 'semi_major_axis', 'orbital_frequency']
BATCHED = [('eccentricity', 'orbital_period'), ('eccentricity', 'spin_period'), ('orbital_frequency', 'spin_frequency')]


def alphabet(kind='cpl', core=False):
    """core=True: the set_state / time / fixed-q operations only (used for the longest histories); otherwise also every individual setter route"""
    sync = kind.endswith('_sync')
    wk = [k for k in WORLD_KEYS if not (sync and k.startswith('spin'))]
    ops = [{'via': 'world', 'kw': {k: 0}} for k in wk] + [{'via': 'orbit', 'kw': {k: 0}} for k in ORBIT_KEYS]
    ops += [{'via': 'world', 'kw': {a: 0, b: 0}} for a, b in BATCHED if not (sync and (a.startswith('spin') or b.startswith('spin')))]
    ops += [{'via': 'orbit', 'kw': {'eccentricity': 0, 'orbital_period': 0}}]
    ops += [{'via': 'setter', 'kw': {'eccentricity': 0}}, {'via': 'setter', 'kw': {'orbital_period': 0}}, {'via': 'orbit_time', 'kw': {'time': 0}}]
    if not sync:
        ops += [{'via': 'setter', 'kw': {'spin_period': 0}}]
    if not core:
        ops += [{'via': 'setter', 'kw': {k: 0}} for k in ('semi_major_axis', 'orbital_frequency')] + [{'via': 'orbit_setter', 'kw': {k: 0}} for k in ORBIT_KEYS]
        if not sync:
            ops += [{'via': 'setter', 'kw': {'spin_frequency': 0}}, {'via': 'world_method', 'kw': {'spin_frequency': 0}}, {'via': 'world_method', 'kw': {'spin_period': 0}}]
        if kind in ('cpl_obl', 'ctl_obl', 'layered', 'layered_sync', 'dual_layered'):
            ops += [{'via': 'world_method', 'kw': {'obliquity': 0}}]
    if kind.startswith('dual'):
        ops += [{'via': 'host', 'kw': {'host_spin_period': 0}}]
        if kind == 'dual_cpl':
            ops += [{'via': 'host', 'kw': {'host_fixed_q': 0}}]
        if kind == 'dual_layered':
            ops += [{'via': 'host', 'kw': {'host_obliquity': 0}}, {'via': 'host', 'kw': {'host_temperature': 0}}, {'via': 'host', 'kw': {'host_spin_period': 0, 'host_obliquity': 0}}]
    if kind in ('cpl_obl', 'ctl_obl', 'layered', 'layered_sync', 'dual_layered'):
        ops += [{'via': 'world', 'kw': {'obliquity': 0}}, {'via': 'world', 'kw': {'obliquity': 0, 'eccentricity': 0}}, {'via': 'setter', 'kw': {'obliquity': 0}}]
    if kind.startswith('layered') or kind == 'dual_layered':
        ops += [{'via': 'layer', 'kw': {'temperature': 0}}, {'via': 'layer_setter', 'kw': {'temperature': 0}}]
    elif kind.startswith('cpl') or kind == 'dual_cpl':
        ops += [{'via': 'tides', 'kw': {'fixed_q': 0}}]
    elif kind.startswith('ctl'):
        ops += [{'via': 'tides', 'kw': {'fixed_dt': 0}}]
    return ops


def op_name(op):
    via = {'world': 'world.set_state', 'orbit': 'orbit.set_state', 'setter': 'world.<attr> =', 'layer': 'mantle.set_state', 'layer_setter': 'mantle.temperature =', 'tides': 'world.set_fixed', 'orbit_time': 'orbit.time =', 'host': 'host.set_state / host setters', 'orbit_setter': 'orbit.set_<x>(world, ..) for', 'world_method': 'world.set_<x>(..) for'}[op['via']]
    return '%s(%s)' % (via, ', '.join(sorted(op['kw'])))


def run_tracer(world, histories, arrays=False, timeout=3000):
    with tempfile.TemporaryDirectory(prefix='verif_c13_') as td:
        env = dict(os.environ)
        env['PYTHONPATH'] = REPO
        p = subprocess.run([replay.VENV_PY, os.path.join(VERIF, 'replay', 'c13_tracer.py')], input=json.dumps({'world': world, 'histories': histories, 'arrays': arrays}),
                           capture_output=True, text=True, cwd=td, env=env, timeout=timeout)
    if '@@RESULT@@' not in p.stdout:
        raise RuntimeError('tracer failed: %s\n%s' % (p.stdout[-500:], p.stderr[-1500:]))
    return json.loads(p.stdout.split('@@RESULT@@')[-1])


class Tr:
    """provenance term -> z3 (uninterpreted leaf functions over Real, interpreted arithmetic)"""

    def __init__(self):
        self.funcs, self.consts, self.memo = {}, {}, {}

    def fn(self, name, n):
        k = (name, n)
        if k not in self.funcs:
            self.funcs[k] = z3.Function('%s/%d' % (name, n), *([z3.RealSort()] * (n + 1)))
        return self.funcs[k]

    def const(self, name):
        if name not in self.consts:
            self.consts[name] = z3.Real(name)
        return self.consts[name]

    def t(self, term):
        key = json.dumps(term)
        if key in self.memo:
            return self.memo[key]
        kind = term[0]
        if kind == 'in':
            r = self.const('in:' + term[1])
        elif kind == 'c':
            try:
                r = z3.RealVal(str(Fr(float(term[1]))))
            except (ValueError, OverflowError):
                r = self.const('const:' + term[1])
        elif kind == 'app':
            args = [self.t(a) for a in term[2]] + [self.t(v) for _, v in term[3]]
            name = term[1] + ('|' + ','.join(k for k, _ in term[3]) if term[3] else '')
            r = self.fn(name, len(args))(*args) if args else self.const('app:' + name)
        elif kind == 'proj':
            r = self.fn('proj%d' % term[1], 1)(self.t(term[2]))
        elif kind == 'op':
            if term[1] == 'neg':
                r = -self.t(term[2])
            else:
                a, b = self.t(term[2]), self.t(term[3])
                r = {'+': a + b, '-': a - b, '*': a * b}.get(term[1])
                if r is None:
                    r = self.fn('div', 2)(a, b)
        elif kind == 'dict':
            vals = [self.t(v) for _, v in term[1]]
            r = self.fn('dict{%s}' % ','.join(k for k, _ in term[1]), len(vals))(*vals) if vals else self.const('emptydict')
        elif kind == 'tup':
            vals = [self.t(v) for v in term[1]]
            r = self.fn('tup', len(vals))(*vals) if vals else self.const('emptytup')
        elif kind == 'fn':
            r = self.const('fn:' + term[1])
        elif kind == 'opaque':
            r = self.const('opaque:%s:%s' % (term[1], term[2]))
        else:
            raise ValueError(term)
        self.memo[key] = r
        return r


def inputs_in(term, acc=None):
    acc = set() if acc is None else acc
    if isinstance(term, list):
        if len(term) == 2 and term[0] == 'in':
            acc.add(term[1])
        else:
            for x in term:
                inputs_in(x, acc)
    return acc


def renumber(hist):
    out = []
    for k, op in enumerate(hist, start=1):
        out.append({'via': op['via'], 'kw': {nm: k for nm in op['kw']}})
    return out


def _differs(va, vb):
    if va is None or vb is None:
        return None
    xa = va if isinstance(va, list) else [va]
    xb = vb if isinstance(vb, list) else [vb]
    if len(xa) != len(xb):
        return True
    return any(abs(p - q) > 1e-9 * (abs(p) + abs(q)) + 1e-300 or (p != p) != (q != q) for p, q in zip(xa, xb))


def _strip(names):
    return sorted({n.split('#')[0] for n in names})


def job_histories(world, k, chunk, nchunks, arrays=False, core=False):
    ops = alphabet(world, core)
    hs = []
    for n in range(0, k + 1):
        for combo in itertools.product(ops, repeat=n):
            hs.append(renumber(combo))
    hs = hs[chunk::nchunks]
    out = run_tracer(world, hs, arrays=arrays)
    tagw = world + ('/arrays' if arrays else '')
    results = []
    agg = {}
    n_hist = n_q = 0
    uncovered = {}
    for rec in out:
        hname = ' ; '.join(op_name(o) for o in rec['history']) or '(no update after the initial state)'
        if 'error' in rec:
            results.append(discharge(Obligation('%s world, history [%s]: executes' % (tagw, hname), z3.BoolVal(False), [], with_axioms=False, with_dens=False,
                                                replay=lambda md, rec=rec: (True, 'real classes raised: %s\n%s' % (rec['error'], rec.get('trace', ''))), key='raises:%s:%s' % (tagw, rec['error'][:60]))))
            continue
        n_hist += 1
        tr = Tr()
        pairs = [('history', q, rec['hist'][q], rec['fresh'][q]) for q in rec['hist']]
        pairs += [('functional', q, rec['functional'][q], rec['fresh'][q]) for q in rec['functional'] if q in rec['fresh']]
        if '_error' in rec['functional']:
            uncovered['functional pipeline failed: %s' % rec['functional']['_error'].get('error', '')[:120]] = 1
        for which, q, a, b in pairs:
            if 'error' in a or 'error' in b:
                if ('error' in a) != ('error' in b):
                    results.append(discharge(Obligation('%s world, history [%s]: %s is available in both worlds' % (tagw, hname, q), z3.BoolVal(False), [], with_axioms=False, with_dens=False,
                                                        replay=lambda md, a=a, b=b: (True, 'after history: %s ; fresh world: %s' % (a.get('error', 'a value'), b.get('error', 'a value'))), key='avail:%s:%s' % (tagw, q))))
                else:
                    uncovered['%s: getter raises in both worlds (%s)' % (q, a.get('error'))] = 1
                continue
            n_q += 1
            ta, tb = tr.t(a['term']), tr.t(b['term'])
            goal = ta == tb
            va, vb = a.get('value'), b.get('value')
            stale = _strip(inputs_in(a['term']) - inputs_in(b['term'])) if which == 'history' else []
            missing = _strip(inputs_in(b['term']) - inputs_in(a['term']))

            def rp(md, va=va, vb=vb, q=q, hname=hname, stale=stale, missing=missing, which=which):
                d = _differs(va, vb)
                if d is None:
                    return False, 'no concrete value to compare'
                lhs = ('%s after [%s]' % (q, hname)) if which == 'history' else ('functional pipeline value of %s at the final state of [%s]' % (q, hname))
                return d, '%s = %r, fresh world in the same final state = %r (real classes, concrete run); inputs only in the left term: %s; only in the fresh term: %s' % (lhs, va, vb, stale, missing)
            if which == 'history':
                nm = '%s world, history [%s]: %s has the same provenance term as a fresh world in the final state (valid for all interpretations of the leaf functions)' % (tagw, hname, q)
                key = 'stale:%s:%s:%s' % (tagw, q, ','.join(stale) or ','.join(missing) or 'other')
            else:
                nm = '%s world, final state of [%s]: the functional pipeline term of %s equals the fresh world term' % (tagw, hname, q)
                key = 'functional:%s:%s' % (tagw, q)
            r = discharge(Obligation(nm, goal, [], with_axioms=False, with_dens=False, replay=rp, key=key, timeout_ms=20000))
            if r['verdict'] == 'sat' and r.get('replay_ok') is False:
                # terms differ but the concrete values agree: abstraction artefact (lost provenance / uninterpreted leaves); not a violation, reported as not covered
                uncovered['%s (%s): terms differ under the abstraction, concrete values agree' % (q, which)] = uncovered.get('%s (%s): terms differ under the abstraction, concrete values agree' % (q, which), 0) + 1
                continue
            if r['verdict'] == 'unsat':
                k_ = (which, q)
                agg.setdefault(k_, [0, 0.0])
                agg[k_][0] += 1
                agg[k_][1] += r['solver_s']
            else:
                results.append(r)
    for (which, q), (cnt, ts) in sorted(agg.items()):
        results.append({'name': '%s world, %d histories of length <= %d (chunk %d/%d): %s term of %s equals the fresh-world term' % (tagw, cnt, k, chunk + 1, nchunks, which, q), 'key': 'ok:%s:%s:%s' % (tagw, which, q),
                        'verdict': 'unsat', 'solver_s': round(ts, 3), 'info': {'queries': cnt}})
    return {'results': results, 'encoded': [{'file': 'TidalPy/tides/methods/{base,global_approx,layered}.py, structures/world_types/*.py, structures/orbit/*.py, structures/layers/physics.py, rheology/rheology.py',
                                             'function': 'real classes driven concretely under the provenance tracer (replay/c13_tracer.py)', 'sha256_16': _sha_of_sources()}],
            'notes': ['%s k<=%d chunk %d: %d histories, %d term comparisons' % (tagw, k, chunk, n_hist, n_q)] + ['NOT COVERED (%s, chunk %d): %s x%d' % (tagw, chunk, u, c) for u, c in list(uncovered.items())[:12]],
            'label': '%s k<=%d chunk %d' % (tagw, k, chunk)}


def _sha_of_sources():
    h = hashlib.sha256()
    for rel in ('TidalPy/tides/methods/base.py', 'TidalPy/tides/methods/global_approx.py', 'TidalPy/structures/world_types/basic.py', 'TidalPy/structures/world_types/tidal.py',
                'TidalPy/structures/orbit/base.py', 'TidalPy/structures/orbit/physics.py'):
        h.update(open(os.path.join(REPO, rel), 'rb').read())
    return h.hexdigest()[:16]


def main():
    jobs = []
    if TIER == 'thorough':
        plan = [('cpl', 3, 16, False, True), ('cpl', 2, 8, False), ('ctl', 2, 4, False), ('cpl_obl', 2, 4, False), ('ctl_obl', 1, 1, False), ('cpl_sync', 2, 4, False), ('layered', 2, 8, False), ('dual_cpl', 2, 6, False), ('dual_layered', 2, 10, False), ('layered_sync', 2, 6, False), ('ctl_sync', 2, 3, False),
                ('cpl', 2, 4, True), ('layered', 1, 1, True), ('dual_cpl', 1, 1, True), ('ctl_sync', 2, 3, True), ('cpl_sync', 1, 1, True), ('layered_sync', 1, 1, True)]
    else:
        plan = [('cpl', 2, 6, False), ('ctl', 1, 1, False), ('cpl_obl', 1, 1, False), ('cpl_sync', 1, 1, False), ('layered', 1, 2, False), ('dual_cpl', 1, 1, False), ('dual_layered', 1, 2, False), ('layered_sync', 1, 1, False), ('ctl_sync', 1, 1, False), ('cpl', 1, 1, True), ('ctl_sync', 1, 1, True), ('cpl_sync', 1, 1, True)]
    plan = [tuple(p) + (False,) * (5 - len(p)) for p in plan]
    for world, k, n, arrays, core in plan:
        for c in range(n):
            jobs.append((job_histories, {'world': world, 'k': k, 'chunk': c, 'nchunks': n, 'arrays': arrays, 'core': core}))
    bounds_txt = '; '.join('%s%s: histories of length <= %d over %d operations%s' % (w, ' (array-valued inputs)' if ar else '', k, len(alphabet(w, core)), ' (set_state-level operations only)' if core else '') for w, k, n, ar, core in plan)
    meta = {
        'explanation': 'The real BaseWorld/TidalWorld/OrbitBase/PhysicsOrbit/TidesBase/GlobalApproxTides classes are driven in /venv/bin/python under a provenance tracer: leaf numeric functions '
                       '(eccentricity/inclination functions, calculate_terms, collapse_modes, susceptibility, CPL/CTL helpers, conversions, derivative functions) are wrapped at their import sites and return '
                       'values that carry the uninterpreted term f(args); setter inputs are tagged symbols; a float subclass carries terms through inline arithmetic. Operation sequences (symbolic choice of the '
                       'operation at each step = enumeration of the bounded history space) are executed; for every exposed quantity z3 decides the validity of T_history = T_fresh over uninterpreted functions '
                       '+ real arithmetic, i.e. for ALL input values and all interpretations of the leaves. A sat answer is confirmed by the concrete values of the same real run before it is reported.',
        'bounds': bounds_txt + '. Operations: single and batched set_state through the world and through the orbit, every attribute setter and set_<x> method of world and orbit, time, obliquity, layer temperature, fixed-Q / fixed-dt. '
                  'Worlds: global-approximation CPL / CTL (with and without obliquity tides, forced spin-synchronous), a two-layer Io with layered tides, and dual-body systems (tidally active host and body, CPL and layered).',
        'outside': 'longer histories; other world configurations, eccentricity truncations and tidal orders (the update cascade does not branch on them); branches of the cascade that depend on input VALUES are followed for the one '
                   'concrete value per symbol used by the tracer; quantities whose provenance is lost are listed in the notes as NOT COVERED, not as passed.',
        'assumptions': ['leaf functions are deterministic functions of their arguments'],
        'stubs': ['leaf numeric functions abstracted to uninterpreted functions (their values are real)'],
    }
    solve.run_check(PID, jobs, meta)


if __name__ == '__main__':
    main()
