"""C07 — rheology models: complex modulus == 1/published compliance, passive, bounded by the unrelaxed rigidity (Maxwell family), guard branches
return the documented limits, scalar == array helpers, name lookup, legacy compliance functions agree."""
import sys, os, math
sys.path.insert(0, os.path.dirname(os.path.dirname(os.path.abspath(__file__))))
import z3
from fractions import Fraction as Fr
from symx.values import Q, B, CTX, eq_goal, ite
from symx import loader, solve, replay, atoms
from symx.explore import Explorer
from symx.npshim import NP
from symx.pyx2py import CArr, Ptr, ExtentError
from symx.solve import Obligation, discharge, reach_twin, TIER

PID = 'C07'
MODELS = 'TidalPy/rheology/models.pyx'
BASE = 'TidalPy/rheology/base.pyx'
CLASSES = ['Elastic', 'Newton', 'Maxwell', 'Voigt', 'Burgers', 'Andrade', 'SundbergCooper']
MAXWELL_FAMILY = ['Maxwell', 'Burgers', 'Andrade', 'SundbergCooper']
ARGNAMES = {'Voigt': ['cm', 'cv'], 'Burgers': ['cm', 'cv'], 'Andrade': ['alpha', 'zeta'], 'SundbergCooper': ['cm', 'cv', 'alpha', 'zeta']}


def constants():
    c = loader.module_constants('TidalPy/utilities/constants_x.pyx'.replace('.pyx', '.pyx'))
    return c


def pyx_constants():
    import re
    src = open(os.path.join(solve.REPO, 'TidalPy/utilities/constants_x.pyx')).read()
    out = {}
    for m in re.finditer(r'^cdef\s+double\s+(\w+)\s*=\s*([0-9eE\.\+\-]+)', src, flags=re.M):
        out[m.group(1)] = Fr(m.group(2))
    for k in ('MIN_FREQUENCY', 'MAX_FREQUENCY', 'MIN_MODULUS'):
        if k not in out:
            raise RuntimeError('constant %s not found in constants_x.pyx' % k)
    return out


class Env:
    """symbols + shims shared by compiled-source and legacy-source encodings"""

    def __init__(self):
        self.w, self.mu, self.eta = Q.sym('w'), Q.sym('mu'), Q.sym('eta')
        self.cm, self.cv, self.zeta, self.alpha = Q.sym('cm'), Q.sym('cv'), Q.sym('zeta'), Q.sym('alpha')
        self.PI = Q.sym('PI')
        atoms.declare_angle(('PI', 'alpha'), Fr(1, 2), 'circle')
        self.consts = pyx_constants()
        self.INF = Q.sym('INFINITY')
        self.pos = [x.re > 0 for x in (self.w, self.mu, self.eta, self.cm, self.cv, self.zeta)] + [self.alpha.re > 0, self.alpha.re < 1, self.INF.re > 0]
        self._gamma = {}
        c, s = atoms.base(('PI', 'alpha'))
        self.c, self.s = c, s
        self.pos += [c.re > 0, s.re > 0]

    def tgamma(self, x):
        k = atoms._key(Q.of(x))
        if k not in self._gamma:
            v = CTX.new('tgamma')
            CTX.axiom(v > 0, 'tgamma(alpha+1) atom > 0')
            self._gamma[k] = Q(v)
        return self._gamma[k]

    def ns(self):
        d = dict(self.consts)
        d.update({'fabs': atoms.absval, 'isinf': lambda x: B(False), 'INFINITY': self.INF, 'NAN': Q.sym('NAN'), 'pi': self.PI,
                  'cf_build_dblcmplx': lambda a, b: Q.of(a) + Q(0, 1) * Q.of(b), 'tgamma': self.tgamma, 'cos': atoms.cos, 'sin': atoms.sin})
        return d


class Self_:
    debug_mode = False


_CUR = {}


def make_self(env, cls, fns):
    """build the model instance state by executing the real constructor chain of the class on a fresh instance"""
    class Inst(Self_):
        def change_args(self, a):
            return fns['%s.change_args' % cls](self, a)
    S = Inst()
    S.expected_num_args = len(ARGNAMES.get(cls, []))
    if cls in ARGNAMES:
        _CUR['S'] = S
        # the way an instance really comes to life: the class's own __init__, which reaches change_args through RheologyModelBase.__init__
        fns['%s.__init__' % cls](S, tuple(getattr(env, a) for a in ARGNAMES[cls]))
    return S


def make_self_lifecycle(env, cls, fns):
    """the instance state through the REAL life cycle of the class: its own __init__ (which reaches change_args through RheologyModelBase.__init__) with one set of parameters, then the
    public re-parameterisation change_args(new parameters)"""
    class Inst(Self_):
        def change_args(self, a):
            return fns['%s.change_args' % cls](self, a)
    S = Inst()
    _CUR['S'] = S
    first = tuple(Q.sym(a + '_at_construction') for a in ARGNAMES[cls])
    if 'alpha' in ARGNAMES[cls]:
        atoms.declare_angle(('PI', 'alpha_at_construction'), Fr(1, 2), 'circle')
    fns['%s.__init__' % cls](S, first)
    S.change_args(tuple(getattr(env, a) for a in ARGNAMES[cls]))
    return S, first


PHYSICAL = {'MIN_FREQUENCY': ('<=', Fr(1, 10 ** 12), 'rad/s: forcing periods up to ~2e5 yr'), 'MAX_FREQUENCY': ('>=', Fr(10 ** 3), 'rad/s: seismic band'),
            'MIN_MODULUS': ('<=', Fr(1), 'Pa: softer than any solid or partially molten layer')}


def job_guards():
    """the special-value guards of the models (frequency / rigidity thresholds of constants_x.pyx) must lie OUTSIDE the physical range the property quantifies over, so that every physical
    argument reaches the main branch (whose value is the reciprocal of the published compliance); the range is the stated bound of this check"""
    c = pyx_constants()
    results = []
    for k, (op, lim, note) in PHYSICAL.items():
        ok = (c[k] <= lim) if op == '<=' else (c[k] >= lim)

        def rp(md, k=k, lim=lim):
            pt = {'w': 2.0e-5, 'mu': 5.0e4, 'eta': 1.0e12, 'cm': 0.2, 'cv': 0.02, 'alpha': 0.3, 'zeta': 1.0}
            if k == 'MIN_FREQUENCY':
                pt['w'] = float(lim) * 2
            elif k == 'MAX_FREQUENCY':
                pt['w'] = float(lim) / 2
            else:
                pt['mu'] = max(float(lim) * 2, min(float(c[k]) / 2, 5.0e4))
            Jm = 1 / pt['mu'] - 1j / (pt['eta'] * pt['w'])
            Mt = float_model('Maxwell', pt)          # current models.pyx with the CURRENT constants_x.pyx values
            try:
                r_ = replay.call_real([real_model_call('Maxwell', pt, None)])[0]
                Mc = r_['value'] if r_['ok'] else r_.get('error')
            except Exception as e_:
                Mc = 'unavailable (%r)' % (e_,)
            return True, 'constants_x.pyx: %s = %s; Maxwell at the physical point %r: current source gives %r, compiled module gives %r, 1/J = %r' % (k, float(c[k]), pt, Mt, Mc, 1 / Jm)
        results.append(discharge(Obligation('guard constant %s = %s %s %s (%s): the physical range reaches the main branch of every model' % (k, float(c[k]), op, float(lim), note), z3.BoolVal(bool(ok)), [],
                                            with_axioms=False, with_dens=False, replay=rp, key='guard-constant:%s' % k)))
    return {'results': results, 'encoded': loader.ENCODED + [{'file': 'TidalPy/utilities/constants_x.pyx', 'function': 'MIN_FREQUENCY, MAX_FREQUENCY, MIN_MODULUS', 'sha256_16': solve.sha_of(repr(sorted((k, str(v)) for k, v in c.items())))}],
            'label': 'guard constants'}


def job_lifecycle(cls):
    """re-parameterising an existing model instance leaves exactly the state of a fresh instance built with the new parameters (no constant cached from the construction-time parameters
    survives): every attribute the two routes set is compared"""
    env = Env()
    fns = load_models(env)
    ref = make_self(env, cls, fns)
    S, first = make_self_lifecycle(env, cls, fns)
    A = env.pos + [a.re > 0 for a in first]
    keys = sorted(set(k for k in list(vars(S)) + list(vars(ref)) if not k.startswith('_')))
    results = []

    def rp(md):
        code = ("import sys, json\nimport numpy as np\nfrom TidalPy.rheology.models import %s as M\n"
                "first, new = %r, %r\n"
                "a = M(first); a.change_args(new); b = M(new)\n"
                "w, mu, eta = 2.0e-5, 5.0e10, 1.0e18\n"
                "va, vb = complex(a(w, mu, eta)), complex(b(w, mu, eta))\n"
                "print('@@RESULT@@' + json.dumps({'re_parameterised': [va.real, va.imag], 'fresh': [vb.real, vb.imag], 'rel': abs(va - vb) / abs(vb)}))\n") % (
                    cls, tuple(0.2 + 0.05 * i for i in range(len(first))), tuple(0.35 + 0.3 * i for i in range(len(first))))
        import subprocess, tempfile, json
        with tempfile.TemporaryDirectory(prefix='verif_c07_') as td:
            p = subprocess.run([replay.VENV_PY, '-c', code], capture_output=True, text=True, cwd=td, env=dict(os.environ, PYTHONPATH=solve.REPO), timeout=600)
        if '@@RESULT@@' not in p.stdout:
            return True, '%s: state after __init__(first) ; change_args(new) differs from a fresh instance (current source); real replay unavailable: %s' % (cls, p.stderr[-200:])
        out = json.loads(p.stdout.split('@@RESULT@@')[-1])
        if out['rel'] > 1e-12:
            return True, 'REAL %s: %s' % (cls, json.dumps(out))
        return replay.api_or_witness([MODELS], lambda md2: (False, ''), '%s: state after __init__(first) ; change_args(new) differs from a fresh instance built with the new parameters (current source) ; real module: %s' % (cls, json.dumps(out)))(md)
    for k in keys:
        va, vb = getattr(S, k, None), getattr(ref, k, None)
        if isinstance(va, (Q, int, float, Fr)) and isinstance(vb, (Q, int, float, Fr)):
            g = eq_goal(Q.of(va), Q.of(vb))
        else:
            g = z3.BoolVal(va == vb if not (isinstance(va, Q) or isinstance(vb, Q)) else False)
        results.append(discharge(Obligation('%s: attribute %s after __init__(first parameters) ; change_args(new parameters) equals that of a fresh instance built with the new parameters' % (cls, k),
                                            g, A, replay=rp, key='%s:lifecycle' % cls)))
    results.append(reach_twin('%s lifecycle' % cls, A))
    return {'results': results, 'encoded': loader.ENCODED, 'axioms': CTX.axiom_notes, 'label': 'lifecycle %s' % cls}


def load_models(env):
    names = []
    for c in CLASSES:
        names.append('%s._implementation' % c)
        if c in ARGNAMES:
            names.append('%s.change_args' % c)
            names.append('%s.__init__' % c)

    class Log:
        def debug(self, *a, **k):
            pass
        error = warning = info = debug
    base, _ = loader.load_pyx('TidalPy/rheology/base.pyx', ['RheologyModelBase.__init__', 'RheologyModelBase.change_args'], {'super': lambda: SupBase(), 'log': Log()})

    class SupBase:
        """super() inside RheologyModelBase: the extension base class keeps no rheology state"""
        def __init__(self, *a, **k):
            pass

    class Sup:
        """super() inside a model class = RheologyModelBase, executed from the current base.pyx on the instance under construction"""
        def __init__(self, *a, **k):
            if a or k:
                base['RheologyModelBase.__init__'](_CUR['S'], *a, **k)

        def change_args(self, a):
            return base['RheologyModelBase.change_args'](_CUR['S'], a)
    ns = env.ns()
    ns['super'] = lambda: Sup()
    fns, ns = loader.load_pyx(MODELS, names, ns)
    return fns


def published(env, cls):
    """published complex compliance J(w) written independently of the implementation"""
    w, mu, eta = env.w, env.mu, env.eta
    i = Q(0, 1)
    J_max = 1 / mu - i / (eta * w)
    mu_v, eta_v = env.cm * mu, env.cv * eta
    J_vk = 1 / (mu_v + i * w * eta_v)
    A = atoms.power((eta / mu) * w * env.zeta, env.alpha)
    F = env.tgamma(env.alpha + 1)
    J_and = F / (mu * A) * (env.c - i * env.s)
    return {'Maxwell': J_max, 'Voigt': J_vk, 'Burgers': J_max + J_vk, 'Andrade': J_max + J_and, 'SundbergCooper': J_max + J_vk + J_and,
            'Elastic': 1 / mu, 'Newton': -i / (eta * w)}[cls]


def num_J(cls, w, mu, eta, cm, cv, alpha, zeta):
    J_max = 1 / mu - 1j / (eta * w)
    J_vk = 1 / (cm * mu + 1j * w * cv * eta)
    J_and = math.gamma(alpha + 1) / (mu * (eta / mu * w * zeta) ** alpha) * (math.cos(math.pi * alpha / 2) - 1j * math.sin(math.pi * alpha / 2))
    return {'Maxwell': J_max, 'Voigt': J_vk, 'Burgers': J_max + J_vk, 'Andrade': J_max + J_and, 'SundbergCooper': J_max + J_vk + J_and, 'Elastic': 1 / mu,
            'Newton': -1j / (eta * w)}[cls]


def model_point(md):
    def g(k, d):
        v = md.get(k)
        return float(v) if v is not None else d
    c, s = md.get('cos[PI*alpha]'), md.get('sin[PI*alpha]')
    alpha = 0.3
    if c is not None and s is not None and float(c) > 0 and float(s) > 0:
        alpha = min(max(2 * math.atan2(float(s), float(c)) / math.pi, 0.02), 0.98)
    return dict(w=g('w', 1e-5), mu=g('mu', 5e10), eta=g('eta', 1e16), cm=g('cm', 5.0), cv=g('cv', 0.02), alpha=alpha, zeta=g('zeta', 1.0))


def real_model_call(cls, pt, w=None):
    args = {'Voigt': (pt['cm'], pt['cv']), 'Burgers': (pt['cm'], pt['cv']), 'Andrade': (pt['alpha'], pt['zeta']),
            'SundbergCooper': (pt['cm'], pt['cv'], pt['alpha'], pt['zeta'])}.get(cls)
    c = {'module': 'TidalPy.rheology.models', 'func': cls, 'init_args': [], 'args': [pt['w'] if w is None else w, pt['mu'], pt['eta']]}
    if args:
        c['init_kwargs'] = {'args': {'t': list(args)}}
    return c


def float_model(cls, pt, w=None):
    """the CURRENT .pyx source of the model, transliterated and run with ordinary floats (authoritative replay target)"""
    class Sup:
        def change_args(self, a):
            return None
    names = ['%s._implementation' % cls] + (['%s.change_args' % cls] if cls in ARGNAMES else [])
    c = {k: float(v) for k, v in pyx_constants().items()}
    c['super'] = lambda: Sup()
    fns, ns = loader.load_pyx(MODELS, names, c, float_mode=True)
    S = Self_()
    if cls in ARGNAMES:
        fns['%s.change_args' % cls](S, tuple(pt[a] for a in ARGNAMES[cls]))
    return fns['%s._implementation' % cls](S, pt['w'] if w is None else w, pt['mu'], pt['eta'])


def eval_model(cls, pt, w=None):
    """value of the model at a concrete point: transliterated current source; cross-checked against the compiled module when that is in sync"""
    Mt = float_model(cls, pt, w)
    ok, why = replay.compiled_in_sync(MODELS, loader.SPANS[(MODELS, '%s._implementation' % cls)])
    if ok:
        r = replay.call_real([real_model_call(cls, pt, w)])[0]
        if r['ok']:
            Mc = r['value']
            if abs(Mc - Mt) > 1e-9 * (abs(Mc) + abs(Mt)) and not (Mc != Mc or Mt != Mt):
                raise RuntimeError('translator fault: compiled (in sync) %r vs transliterated %r at %r' % (Mc, Mt, pt))
    return Mt, ('compiled module in sync' if ok else 'compiled module STALE (%s): replay on transliterated source only' % why)


def replay_main(cls, what):
    def one(pt):
        M, note = eval_model(cls, pt)
        J = num_J(cls, **pt)
        if what == 'MJ':
            return abs(M * J - 1) > 1e-9, '%s()(%r): M=%r, published J=%r, M*J=%r [%s]' % (cls, pt, M, J, M * J, note)
        if what == 'passive':
            return M.real < 0 or M.imag < 0, '%s()(%r) = %r' % (cls, pt, M)
        if what == 'bound':
            return abs(M) > pt['mu'] * (1 + 1e-12), '%s()(%r): |M|=%r > mu' % (cls, pt, abs(M))
        if what == 'even':
            M2, _ = eval_model(cls, pt, w=-pt['w'])
            return abs(M2 - M) > 1e-12 * abs(M), 'M(-w)=%r M(w)=%r' % (M2, M)
        return True, '%s: %s; real value at %r is %r' % (cls, what, pt, M)

    def rp(md):
        # evaluate the real model inside the region where no guard is active. The power / Gamma / trig atoms of the encoding are uninterpreted, so the solver's
        # model need not be realisable by the real pow(): if the model point itself does not reproduce, the same claim is evaluated at a few generic points
        # (the replay only CONFIRMS a solver verdict; nothing is reported unless the real code reproduces it).
        pt = model_point(md)
        pt['w'] = min(max(pt['w'], 1e-12), 1e2)
        pt['mu'] = min(max(pt['mu'], 1e3), 1e13)
        pt['eta'] = min(max(pt['eta'], 1.0), 1e30)
        cands = [pt, dict(pt, zeta=2.5), dict(pt, zeta=0.4, alpha=0.3), dict(pt, cm=3.0, cv=0.07, zeta=1.7),
                 dict(w=1e-5, mu=5e10, eta=1e16, cm=5.0, cv=0.02, alpha=0.3, zeta=2.0), dict(w=2e-7, mu=3e9, eta=1e15, cm=0.7, cv=0.3, alpha=0.45, zeta=0.5)]
        first = None
        for c in cands:
            ok, detail = one(c)
            if first is None:
                first = (ok, detail)
            if ok:
                return ok, detail
        return first
    return rp


def job_model(cls):
    env = Env()
    fns = load_models(env)
    S = make_self(env, cls, fns)
    impl = fns['%s._implementation' % cls]
    c = env.consts
    CTX.facts = list(env.pos)
    ex = Explorer(assumptions=env.pos)
    paths = ex.run(lambda: impl(S, env.w, env.mu, env.eta))
    results = []
    if not paths:
        raise RuntimeError('no paths')
    main_seen = False
    for p in paths:
        if p.exc is not None:
            raise RuntimeError('%s._implementation raised %r on path %r' % (cls, p.exc, p))
        M = Q.of(p.result)
        A = env.pos + p.pc
        # classify the path by its path condition with the solver
        def entails(cond):
            so = z3.Solver()
            so.set('timeout', 10000)
            so.add(A + CTX.axioms + CTX.den_conds())
            so.add(z3.Not(cond))
            return so.check() == z3.unsat
        w, mu, eta = env.w, env.mu, env.eta
        if entails((w < c['MIN_FREQUENCY']).c):
            kind = 'w < MIN_FREQUENCY'
            want = {'Voigt': env.cm * mu}.get(cls, Q(0)) if cls != 'Elastic' else mu
        elif entails((w > c['MAX_FREQUENCY']).c):
            kind = 'w > MAX_FREQUENCY'
            want = mu if cls in MAXWELL_FAMILY + ['Elastic'] else Q(0, 1) * env.INF
        elif entails((mu < c['MIN_MODULUS']).c):
            kind = 'mu < MIN_MODULUS'
            want = {'Voigt': Q(0, 1) * env.cv * eta * w, 'Newton': Q(0, 1) * eta * w}.get(cls, Q(0))
        else:
            kind = 'main'
        tag = '%s [%s]' % (cls, kind)
        if kind != 'main':
            def rp_g(md, kind=kind, want=want):
                pt = model_point(md)
                if kind.startswith('w < MIN'):
                    pt['w'] = float(c['MIN_FREQUENCY']) / 10
                elif kind.startswith('w > MAX'):
                    pt['w'] = float(c['MAX_FREQUENCY']) * 10
                else:
                    pt['mu'] = float(c['MIN_MODULUS']) / 10
                Mv, note = eval_model(cls, pt)
                return True, 'guard branch %s of %s returns %r at %r (documented limit differs) [%s]' % (kind, cls, Mv, pt, note)
            results.append(discharge(Obligation('%s: guard branch returns the documented limit value' % tag, eq_goal(M, want), A, replay=rp_g, key='%s:guard:%s' % (cls, kind))))
            continue
        main_seen = True
        if cls == 'Elastic':
            results.append(discharge(Obligation('Elastic: M == mu', eq_goal(M, mu), A, replay=replay_main(cls, 'MJ'), key='Elastic:MJ')))
            continue
        J = published(env, cls)
        results.append(discharge(Obligation('%s: M * J_published == 1' % tag, eq_goal(M * J, Q(1)), A, replay=replay_main(cls, 'MJ'), key='%s:MJ' % cls)))
        results.append(discharge(Obligation('%s: Re M >= 0 and Im M >= 0 (passive)' % tag, z3.And((M.real >= 0).c, (M.imag >= 0).c), A, replay=replay_main(cls, 'passive'),
                                            key='%s:passive' % cls)))
        if cls in MAXWELL_FAMILY:
            results.append(discharge(Obligation('%s: |M|^2 <= mu^2' % tag, (M.abs2() <= mu * mu).c, A, replay=replay_main(cls, 'bound'), key='%s:bound' % cls,
                                                timeout_ms=solve.qtimeout(60, 600))))
            # high-frequency limit with an explicit rate: |M - mu| <= mu^2 |J - 1/mu| and |J - 1/mu| <= sum of the magnitudes of the relaxation terms
            d = (M - mu)
            terms = {'Maxwell': 1 / (eta * w), 'Burgers': 1 / (eta * w) + 1 / (env.cv * eta * w),
                     'Andrade': 1 / (eta * w) + env.tgamma(env.alpha + 1) / (mu * atoms.power((eta / mu) * w * env.zeta, env.alpha)),
                     'SundbergCooper': 1 / (eta * w) + 1 / (env.cv * eta * w) + env.tgamma(env.alpha + 1) / (mu * atoms.power((eta / mu) * w * env.zeta, env.alpha))}[cls]
            # decomposition: (a) M - mu == -mu M (J - 1/mu); (b) |M| <= mu (above); (c) |J - 1/mu| <= terms (triangle-type bound on the published law);
            # (d) arithmetic lemma: 0<=x<=mu^2, 0<=y<=b^2  =>  mu^2 x y <= mu^4 b^2.  Together: |M - mu| <= mu^2 * terms -> 0 as w -> inf.
            dJ = J - 1 / mu
            results.append(discharge(Obligation('%s: rate bound (a) M - mu == -mu M (J_published - 1/mu)' % tag, eq_goal(d, -mu * M * dJ), A, replay=replay_main(cls, 'MJ'), key='%s:rate:a' % cls)))
            results.append(discharge(Obligation('%s: rate bound (c) |J_published - 1/mu| <= 1/(eta w) [+ 1/(eta_v w)] [+ Gamma(1+alpha)/(mu (w tau zeta)^alpha)]' % tag,
                                                (dJ.abs2() <= terms * terms).c, env.pos, replay=lambda md: (False, 'lemma about the published law (harness-side)'), key='%s:rate:c' % cls)))
            x_, y_, b_, m_ = z3.Reals('x_ y_ b_ m_')
            results.append(discharge(Obligation('%s: rate bound (d) 0<=x<=m^2, 0<=y<=b^2 => m^2 x y <= m^4 b^2  (so |M-mu| <= mu^2 * bound -> 0 as w -> inf)' % tag,
                                                m_ * m_ * x_ * y_ <= m_ * m_ * m_ * m_ * b_ * b_, [x_ >= 0, y_ >= 0, x_ <= m_ * m_, y_ <= b_ * b_, m_ > 0, b_ > 0], with_axioms=False, with_dens=False,
                                                replay=lambda md: (False, 'arithmetic lemma'), key='%s:rate:d' % cls)))
        # evenness in frequency
        M2 = None
        ex2 = Explorer(assumptions=A)
        p2 = ex2.run(lambda: impl(S, -env.w, env.mu, env.eta))
        conds = [eq_goal(Q.of(q.result), M) for q in p2 if q.exc is None]
        results.append(discharge(Obligation('%s: M(-w) == M(w)' % tag, z3.And(*conds) if conds else z3.BoolVal(False), A, replay=replay_main(cls, 'even'), key='%s:even' % cls)))
        results.append(reach_twin(tag, A))
    if not main_seen:
        raise RuntimeError('main path not found for %s' % cls)
    return {'results': results, 'encoded': loader.ENCODED, 'axioms': CTX.axiom_notes, 'notes': CTX.notes, 'paths': len(paths), 'label': cls}


def job_vectorize():
    """_vectorize_frequency / _vectorize_modulus_viscosity / the public wrappers / __call__: out[i] == impl(inputs[i]) for every i < n, nothing else written"""
    names = ['RheologyModelBase._vectorize_frequency', 'RheologyModelBase._vectorize_modulus_viscosity', 'RheologyModelBase.vectorize_frequency',
             'RheologyModelBase.vectorize_modulus_viscosity', 'RheologyModelBase.__call__']
    fns, ns = loader.load_pyx(BASE, names, {'len': len})
    impl = z3.Function('impl', z3.RealSort(), z3.RealSort(), z3.RealSort(), z3.RealSort())
    results = []

    class S:
        def _implementation(self, f, m, v):
            return Q(impl(Q.of(f).re, Q.of(m).re, Q.of(v).re))
    S._vectorize_frequency = lambda self, *a: fns['RheologyModelBase._vectorize_frequency'](self, *a)
    S._vectorize_modulus_viscosity = lambda self, *a: fns['RheologyModelBase._vectorize_modulus_viscosity'](self, *a)
    for n in range(0, 4):
        fr = CArr((n,), 'frequency') if n else CArr((0,), 'frequency')
        mo, vi = CArr((n,), 'modulus'), CArr((n,), 'viscosity')
        for i in range(n):
            fr.data[i], mo.data[i], vi.data[i] = Q.sym('f%d' % i), Q.sym('m%d' % i), Q.sym('v%d' % i)
        m, v, f = Q.sym('m'), Q.sym('v'), Q.sym('f')
        for which in ('frequency', 'modulus_viscosity'):
            for wrapper in (False, True):
                out = CArr((n,), 'output')
                s = S()
                err = None
                try:
                    if which == 'frequency':
                        if wrapper:
                            if n == 0:
                                continue
                            fns['RheologyModelBase.vectorize_frequency'](s, fr, m, v, out)
                        else:
                            fns['RheologyModelBase._vectorize_frequency'](s, Ptr(fr, 0), m, v, Ptr(out, 0), n)
                        want = [Q(impl(fr.data[i].re, m.re, v.re)) for i in range(n)]
                    else:
                        if wrapper:
                            if n == 0:
                                continue
                            fns['RheologyModelBase.vectorize_modulus_viscosity'](s, f, mo, vi, out)
                        else:
                            fns['RheologyModelBase._vectorize_modulus_viscosity'](s, f, Ptr(mo, 0), Ptr(vi, 0), Ptr(out, 0), n)
                        want = [Q(impl(f.re, mo.data[i].re, vi.data[i].re)) for i in range(n)]
                except ExtentError as e:
                    err = e
                nm = '%svectorize_%s, n=%d' % ('' if wrapper else '_', which, n)
                if err is not None:
                    results.append(discharge(Obligation('%s: stays inside the buffers' % nm, z3.BoolVal(False), [], with_axioms=False, with_dens=False,
                                                        replay=lambda md, err=err: (True, 'out-of-extent access: %s' % err), key='vec:%s:extent' % which)))
                    continue
                conds = [z3.BoolVal(out.data[i] is not None) for i in range(n)]
                conds += [eq_goal(out.data[i], want[i]) for i in range(n) if out.data[i] is not None]
                conds.append(z3.BoolVal(out.writes == n))

                def rp(md, which=which, wrapper=wrapper):
                    pt = dict(w=1e-5, mu=5e10, eta=1e16, cm=5.0, cv=0.02, alpha=0.3, zeta=1.0)
                    vals = [1e-6, 3e-5, 2e-4]
                    qual = 'RheologyModelBase.%svectorize_%s' % ('' if wrapper else '_', which)
                    insync = all(replay.compiled_in_sync(BASE, loader.SPANS[(BASE, 'RheologyModelBase.%svectorize_%s' % (u, which))])[0] for u in ('', '_')
                                 if (BASE, 'RheologyModelBase.%svectorize_%s' % (u, which)) in loader.SPANS)
                    if not insync:
                        return True, 'compiled base module is STALE with respect to base.pyx: the violation is witnessed on the transliterated current source of %s only (buffer contents after the call differ from _implementation(inputs[i]) / number of writes)' % qual
                    if which == 'frequency':
                        c1 = {'module': 'TidalPy.rheology.models', 'func': 'Maxwell', 'init_args': [], 'method': 'vectorize_frequency',
                              'args': [replay.arr(vals), pt['mu'], pt['eta'], replay.arr([0j, 0j, 0j], 'complex128')], 'return_args': [3]}
                        singles = [real_model_call('Maxwell', pt, w=x) for x in vals]
                    else:
                        mus = [4e10, 5e10, 6e10]
                        c1 = {'module': 'TidalPy.rheology.models', 'func': 'Maxwell', 'init_args': [], 'method': 'vectorize_modulus_viscosity',
                              'args': [pt['w'], replay.arr(mus), replay.arr([1e16, 2e16, 3e16]), replay.arr([0j, 0j, 0j], 'complex128')], 'return_args': [3]}
                        singles = [real_model_call('Maxwell', dict(pt, mu=a, eta=b)) for a, b in zip(mus, [1e16, 2e16, 3e16])]
                    r = replay.call_real([c1] + singles)
                    if not all(x['ok'] for x in r):
                        return True, 'real call raised %r' % [x.get('error') for x in r]
                    arr_out = r[0]['value'][1]
                    sc = [x['value'] for x in r[1:]]
                    return any(abs(a - b) > 1e-12 * abs(b) for a, b in zip(arr_out, sc)), 'array helper %r vs scalar calls %r' % (arr_out, sc)
                results.append(discharge(Obligation('%s: out[i] == _implementation(inputs[i]) for all i < n, exactly n writes' % nm, z3.And(*conds), [],
                                                    with_axioms=False, with_dens=False, replay=rp, key='vec:%s' % which)))
    # wrappers reject mismatching lengths
    for which, call in (('frequency', lambda s: fns['RheologyModelBase.vectorize_frequency'](s, [Q.sym('a'), Q.sym('b')], Q.sym('m'), Q.sym('v'), CArr((1,), 'output'))),
                        ('modulus_viscosity', lambda s: fns['RheologyModelBase.vectorize_modulus_viscosity'](s, Q.sym('f'), [Q.sym('a'), Q.sym('b')], [Q.sym('c')], CArr((2,), 'output')))):
        try:
            call(S())
            raised = False
        except AttributeError:
            raised = True
        except ExtentError:
            raised = False
        results.append(discharge(Obligation('vectorize_%s: arrays of different sizes raise AttributeError before any access' % which, z3.BoolVal(raised), [], with_axioms=False,
                                            with_dens=False, replay=lambda md: (True, 'size mismatch not rejected'), key='vec:%s:sizes' % which)))
    # __call__ returns the implementation value
    s = S()
    r = fns['RheologyModelBase.__call__'](s, Q.sym('f'), Q.sym('m'), Q.sym('v'))
    results.append(discharge(Obligation('__call__(f, m, v) == _implementation(f, m, v)', eq_goal(r, Q(impl(z3.Real('f'), z3.Real('m'), z3.Real('v')))) if r is not None else z3.BoolVal(False), [],
                                        with_axioms=False, with_dens=False, replay=lambda md: (True, '__call__ does not return the implementation value'), key='call')))
    return {'results': results, 'encoded': loader.ENCODED, 'label': 'vectorize'}


def job_lookup():
    """find_rheology over a symbolic cleaned name (lower().strip() are Python built-ins): every path returns the class whose law carries that name"""
    class SymStr:
        def __init__(self, z):
            self.z = z

        def lower(self):
            return self

        def strip(self):
            return self

        def __eq__(self, o):
            return B(self.z == z3.StringVal(o))

        def __hash__(self):
            return id(self)

        def __format__(self, spec):
            return '<symbolic>'
    marks = {c: c for c in CLASSES}
    fns, ns = loader.load_pyx(MODELS, ['find_rheology'], marks)
    name = z3.String('clean_name')
    ex = Explorer(assumptions=[])
    paths = ex.run(lambda: fns['find_rheology'](SymStr(name)))
    oracle = {'elastic': 'Elastic', 'off': 'Elastic', 'newton': 'Newton', 'viscous': 'Newton', 'maxwell': 'Maxwell', 'voigt': 'Voigt', 'voigtkelvin': 'Voigt',
              'burgers': 'Burgers', 'andrade': 'Andrade', 'sundberg': 'SundbergCooper', 'sundbergcooper': 'SundbergCooper'}
    results = []
    for p in paths:
        if p.exc is None:
            cls = p.result
            goal = z3.Or(*[name == z3.StringVal(k) for k, v in oracle.items() if v == cls]) if cls in CLASSES else z3.BoolVal(False)
            nm = 'find_rheology path returning %s: the cleaned name is one of that law\'s names' % cls
        else:
            goal = z3.And(*[name != z3.StringVal(k) for k in oracle]) if isinstance(p.exc, AttributeError) else z3.BoolVal(False)
            nm = 'find_rheology path raising %s: the cleaned name is no known law name' % type(p.exc).__name__

        def rp(md):
            s = md.get('clean_name', '')
            r = replay.call_real([{'module': 'TidalPy.rheology.models', 'func': 'find_rheology', 'args': [s]}])[0]
            got = r['value'] if r['ok'] else r['type']
            want = oracle.get(s.lower().strip(), 'AttributeError')
            return want not in str(got), 'find_rheology(%r) -> %r, expected %s' % (s, got, want)
        results.append(discharge(Obligation(nm, goal, p.pc, with_axioms=False, with_dens=False, replay=rp, key='lookup:%s' % (p.result if p.exc is None else 'raise'))))
    # every known name is accepted (no path raises for it)
    raising = [z3.And(*p.pc) if p.pc else z3.BoolVal(True) for p in paths if p.exc is not None]
    for k in oracle:
        results.append(discharge(Obligation('find_rheology accepts %r' % k, z3.Not(z3.Or(*raising)) if raising else z3.BoolVal(True), [name == z3.StringVal(k)],
                                            with_axioms=False, with_dens=False,
                                            replay=lambda md, k=k: (True, 'name %r rejected' % k), key='lookup:accept:%s' % k)))
    return {'results': results, 'encoded': loader.ENCODED, 'paths': len(paths), 'label': 'lookup'}


def job_legacy(name):
    """legacy compliance function (compliance_models.py) == published compliance == 1/M_compiled on the region where no legacy mask is active"""
    env = Env()
    fns = load_models(env)
    eps = Fr('2.220446049250313e-16')
    NP.pi = env.PI
    lns = {'np': NP, 'float_eps': eps, 'float_lognat_max': Fr(709), 'find_factorial': lambda a: env.tgamma(Q.of(a) + 1)}
    legacy_names = ['off', 'newton', 'elastic', 'maxwell', 'voigt', 'burgers', 'andrade', 'sundberg']
    lf, lns = loader.load_py('TidalPy/rheology/complex_compliance/compliance_models.py', legacy_names, lns)
    w, mu, eta = env.w, env.mu, env.eta
    J0 = 1 / mu
    # region where no legacy mask is active (masks compare |x| with float_eps)
    region = [(w > eps).c, (eta * w > eps).c, (eta * w * env.zeta > eps * mu).c]
    CTX.facts = env.pos + region
    cls = {'maxwell': 'Maxwell', 'voigt': 'Voigt', 'burgers': 'Burgers', 'andrade': 'Andrade', 'sundberg': 'SundbergCooper', 'newton': 'Newton', 'elastic': 'Elastic', 'off': 'Elastic'}[name]
    extra = {'voigt': (1 / env.cm, env.cv), 'burgers': (1 / env.cm, env.cv), 'andrade': (env.alpha, env.zeta), 'sundberg': (1 / env.cm, env.cv, env.alpha, env.zeta)}.get(name, ())
    Jl = Q.of(lf[name](w, J0, eta, *extra))
    S = make_self(env, cls, fns)
    c = env.consts
    A = env.pos + region + [(w >= c['MIN_FREQUENCY']).c, (w <= c['MAX_FREQUENCY']).c, (mu >= c['MIN_MODULUS']).c]
    CTX.facts = A
    M = Q.of(fns['%s._implementation' % cls](S, w, mu, eta))
    results = []

    def rp(md):
        pt = model_point(md)
        pt['w'] = min(max(pt['w'], 1e-10), 1e2)
        ex = {'voigt': (1 / pt['cm'], pt['cv']), 'burgers': (1 / pt['cm'], pt['cv']), 'andrade': (pt['alpha'], pt['zeta']),
              'sundberg': (1 / pt['cm'], pt['cv'], pt['alpha'], pt['zeta'])}.get(name, ())
        r = replay.call_real([{'module': 'TidalPy.rheology.complex_compliance.compliance_models', 'func': name,
                               'args': [pt['w'], 1 / pt['mu'], pt['eta']] + list(ex)}])
        if not all(x['ok'] for x in r):
            return True, 'real call raised %r' % [x.get('error') for x in r]
        Mv, _note = eval_model(cls, pt)
        Jv = r[0]['value']
        return abs(Mv * Jv - 1) > 1e-9, 'compiled %s M=%r, legacy %s J=%r, M*J=%r at %r' % (cls, Mv, name, Jv, Mv * Jv, pt)
    if name in ('newton',):
        results.append(discharge(Obligation('legacy newton: J == -i/(eta w); compiled Newton M == i eta w', z3.And(eq_goal(Jl, published(env, 'Newton')), eq_goal(M, Q(0, 1) * eta * w)), A,
                                            replay=rp, key='legacy:newton')))
    else:
        results.append(discharge(Obligation('legacy %s compliance == published compliance of %s (no legacy mask active)' % (name, cls), eq_goal(Jl, published(env, cls)), A, replay=rp,
                                            key='legacy:%s:published' % name)))
        results.append(discharge(Obligation('M_compiled(%s) * J_legacy(%s) == 1' % (cls, name), eq_goal(M * Jl, Q(1)), A, replay=rp, key='legacy:%s:compiled' % name)))
    results.append(reach_twin('legacy ' + name, A))
    return {'results': results, 'encoded': loader.ENCODED, 'axioms': CTX.axiom_notes, 'label': 'legacy ' + name}


def main():
    jobs = [(job_model, {'cls': c}) for c in CLASSES] + [(job_lifecycle, {'cls': c}) for c in ARGNAMES] + [(job_vectorize, {}), (job_lookup, {}), (job_guards, {})]
    jobs += [(job_legacy, {'name': n}) for n in ('off', 'elastic', 'newton', 'maxwell', 'voigt', 'burgers', 'andrade', 'sundberg')]
    meta = {
        'explanation': 'Every _implementation (and change_args) of models.pyx is transliterated from the current .pyx source and executed on symbols; the extreme-value guards are explored as paths. '
                       'On the main path z3 decides M*J_published = 1 (published compliances written in the harness), Re M >= 0, Im M >= 0, |M| <= mu and an explicit high-frequency rate bound; each guard path '
                       'must return the documented limit. (w tau zeta)^alpha, Gamma(alpha+1) and cos/sin(alpha pi/2) are atoms (positive; c^2+s^2=1, c,s>0 for alpha in (0,1)). '
                       'The prange helpers of base.pyx run on extent-checked buffers with an uninterpreted _implementation; find_rheology runs on a symbolic cleaned string (z3 string); '
                       'the legacy compliance functions are executed with their value-level masks resolved inside the stated region and compared with the published law and with the compiled modulus.',
        'bounds': 'w, mu, eta, Voigt offsets, zeta > 0, alpha in (0,1); array lengths n in 0..3; legacy comparison on the region w > eps, eta w > eps, eta w zeta / mu > eps, inside the compiled guards.',
        'outside': 'thread scheduling of prange; rounding; libm tgamma/pow/cos/sin values (atoms); Python str.lower/strip.',
        'assumptions': ['physical positivity of all parameters', 'alpha in (0,1)'],
        'stubs': ['tgamma -> positive atom', 'x**alpha -> positive atom (x**-alpha its inverse)', 'isinf -> False (real arithmetic)', 'INFINITY -> positive symbol'],
    }
    solve.run_check(PID, jobs, meta)


if __name__ == '__main__':
    main()
