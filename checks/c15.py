"""C15 — 3-D tidal stress/strain: Hooke's law component-wise, radial tractions reproduce y2/y4, heating real, non-negative, zero for elastic material; displacements."""
import sys, os, math
sys.path.insert(0, os.path.dirname(os.path.dirname(os.path.abspath(__file__))))
import z3
import numpy as np
from fractions import Fraction as Fr
from symx.values import Q, B, CTX, eq_goal
from symx import loader, solve, replay, atoms
from symx.npshim import NP, obj_array, SArr
from symx.solve import Obligation, discharge, reach_twin, TIER

PID = 'C15'
NR, NLON, NCOL, NT = 2, 2, 2, 1


def grid(l):
    """distinct symbols at every grid point; U_tt eliminated through the degree-l Laplace identity (assumption of the property)"""
    for ci in range(NCOL):
        atoms.declare_angle('theta%d' % ci, 1, 'circle')
    th = [Q.sym('theta%d' % ci) for ci in range(NCOL)]
    pot = {k: np.empty((NLON, NCOL, NT), dtype=object).view(SArr) for k in ('U', 'Ut', 'Up', 'Utt', 'Upp', 'Utp')}
    pos = []
    for li in range(NLON):
        for ci in range(NCOL):
            c, s = atoms.cos(th[ci]), atoms.sin(th[ci])
            for ti in range(NT):
                v = {k: Q.csym('%s_%d%d%d' % (k, li, ci, ti)) for k in ('U', 'Ut', 'Up', 'Upp', 'Utp')}
                v['Utt'] = Q(-l * (l + 1)) * v['U'] - (c / s) * v['Ut'] - v['Upp'] / (s * s)
                for k in pot:
                    pot[k][li, ci, ti] = v[k]
    for ci in range(NCOL):
        pos.append(atoms.sin(th[ci]).re > 0)
    y = np.empty((6, NR), dtype=object).view(SArr)
    for i in range(6):
        for ri in range(NR):
            y[i, ri] = Q.csym('y%d_%d' % (i + 1, ri))
    r = [Q.sym('r%d' % ri) for ri in range(NR)]
    mu = [Q.csym('mu%d' % ri) for ri in range(NR)]
    K = [Q.csym('K%d' % ri) for ri in range(NR)]
    pos += [x.re > 0 for x in r]
    for ri in range(NR):
        pos += [z3.Or(mu[ri].re != 0, mu[ri].im != 0)]
    return th, pot, y, r, mu, K, pos


def _num(md, name, d):
    v = md.get(name)
    return float(v) if v is not None else d


def replay_point(l, what):
    """replay at a concrete generic point through the real (numba) functions on a 1x1x1x1 grid"""
    def rp_at(md, th):
        U, Ut, Up, Upp, Utp = 0.7 + 0.2j, -0.3 + 0.5j, 0.9 - 0.4j, 0.35 + 0.15j, -0.6 + 0.25j
        Utt = -l * (l + 1) * U - (math.cos(th) / math.sin(th)) * Ut - Upp / math.sin(th) ** 2
        y = [1.3 - 0.2j, 0.8 + 0.6j, -0.4 + 0.3j, 0.5 - 0.7j, 0.1j, 0.2]
        r, mu, K = 2.5, 3.0 + 0.4j, 7.0 + 0.1j
        if what == 'elastic':
            mu, K = 3.0 + 0j, 7.0 + 0j
        a3 = lambda v: {'a': [{'c': [v.real, v.imag]}], 'dtype': 'complex128', 'shape': [1, 1, 1]}
        ysol = {'a': [{'c': [v.real, v.imag]} for v in y], 'dtype': 'complex128', 'shape': [6, 1]}
        c1 = {'module': 'TidalPy.tides.multilayer.stress_strain', 'func': 'calculate_strain_stress',
              'args': [a3(U), a3(Ut), a3(Up), a3(Utt), a3(Upp), a3(Utp), ysol, replay.arr([0.3]), replay.arr([th]), replay.arr([0.0]), replay.arr([r]),
                       {'a': [{'c': [mu.real, mu.imag]}], 'dtype': 'complex128'}, {'a': [{'c': [K.real, K.imag]}], 'dtype': 'complex128'}, 1.0e-5], 'kwargs': {'order_l': l}}
        res = replay.call_real([c1])[0]
        if not res['ok']:
            return True, 'real call raised ' + res['error']
        e, s = res['value'][0], res['value'][1]
        lam = K - 2 * mu / 3
        tr = e[0] + e[1] + e[2]
        bad = []
        for k in range(6):
            want = 2 * mu * e[k] + (lam * tr if k < 3 else 0)
            if abs(s[k] - want) > 1e-9 * (abs(want) + 1):
                bad.append('Hooke[%d]: %r vs %r' % (k, s[k], want))
        for k, want, nm in ((0, y[1] * U, 'sigma_rr=y2 U'), (3, y[3] * Ut, 'sigma_rtheta=y4 U_theta'), (4, y[3] * Up / math.sin(th), 'sigma_rphi=y4 U_phi/sin')):
            if abs(s[k] - want) > 1e-9 * (abs(want) + 1):
                bad.append('%s: %r vs %r' % (nm, s[k], want))
        c2 = {'module': 'TidalPy.tides.heating', 'func': 'calculate_volumetric_heating',
              'args': [{'a': [{'c': [v.real, v.imag]} for v in s], 'dtype': 'complex128', 'shape': [6, 1]}, {'a': [{'c': [v.real, v.imag]} for v in e], 'dtype': 'complex128', 'shape': [6, 1]}]}
        h = replay.call_real([c2])[0]
        if h['ok']:
            hv = h['value'][0]
            dev = sum(abs(x) ** 2 for x in e[:3]) + 2 * sum(abs(x) ** 2 for x in e[3:]) - abs(tr) ** 2 / 3
            want = 2 * mu.imag * dev + K.imag * abs(tr) ** 2
            if abs(hv - want) > 1e-9 * (abs(want) + 1e-12):
                bad.append('heating %r vs 2 Im(mu)|dev eps|^2 + Im(K)|tr eps|^2 = %r' % (hv, want))
        else:
            bad.append('heating raised ' + h['error'])
        return bool(bad), ('colatitude %.2f rad: ' % th) + ('; '.join(bad) or 'all relations hold')

    def rp(md):
        # generic points in both hemispheres (the sign of cos(colatitude) matters for cot) and near both poles; the claim is re-evaluated on the real functions at each
        first = None
        for th in (1.1, 2.4, 0.35, 2.9):
            ok, detail = rp_at(md, th)
            if first is None:
                first = (ok, detail)
            if ok:
                return ok, detail
        return first[0], first[1] + ' (also at colatitudes 2.4, 0.35, 2.9)'
    return rp


def job(l):
    th, pot, y, r, mu, K, pos = grid(l)
    fns, ns = loader.load_py('TidalPy/tides/multilayer/stress_strain.py', ['calculate_strain_stress'], {'np': NP, 'prange': range})
    hf, _ = loader.load_py('TidalPy/tides/heating.py', ['calculate_volumetric_heating'], {'np': NP})
    strains, stresses = fns['calculate_strain_stress'](pot['U'], pot['Ut'], pot['Up'], pot['Utt'], pot['Upp'], pot['Utp'], y,
                                                       obj_array([Q.sym('lon%d' % i) for i in range(NLON)]), obj_array(th), obj_array([Q.sym('t0')]),
                                                       obj_array(r), obj_array(mu), obj_array(K), Q.sym('freq'), l)
    class NPnoabs(NP):
        abs = staticmethod(lambda x: x)
    hf2, _ = loader.load_py('TidalPy/tides/heating.py', ['calculate_volumetric_heating'], {'np': NPnoabs})
    heat_noabs = hf2['calculate_volumetric_heating'](stresses, strains)
    results = []
    rp = replay_point(l, 'all')
    for ri in range(NR):
        lam = K[ri] - Fr(2, 3) * mu[ri]
        for li in range(NLON):
            for ci in range(NCOL):
                ti = 0
                e = [Q.of(strains[k, ri, li, ci, ti]) for k in range(6)]
                s = [Q.of(stresses[k, ri, li, ci, ti]) for k in range(6)]
                tr = e[0] + e[1] + e[2]
                pt = 'l=%d point (r%d,lon%d,colat%d)' % (l, ri, li, ci)
                sn = atoms.sin(th[ci])
                results.append(discharge(Obligation('%s: sigma_kk = 2 mu eps_kk + lambda tr(eps) (k = rr, tt, pp)' % pt,
                                                    z3.And(*[eq_goal(s[k], 2 * mu[ri] * e[k] + lam * tr) for k in range(3)]), pos, replay=rp, key='hooke_diag')))
                results.append(discharge(Obligation('%s: sigma_ij = 2 mu eps_ij (off-diagonal)' % pt, z3.And(*[eq_goal(s[k], 2 * mu[ri] * e[k]) for k in range(3, 6)]), pos,
                                                    replay=rp, key='hooke_off')))
                results.append(discharge(Obligation('%s: sigma_rr = y2 U (given the degree-l Laplace identity)' % pt, eq_goal(s[0], y[1, ri] * pot['U'][li, ci, ti]), pos, replay=rp,
                                                    key='traction_rr')))
                results.append(discharge(Obligation('%s: sigma_rtheta = y4 dU/dtheta' % pt, eq_goal(s[3], y[3, ri] * pot['Ut'][li, ci, ti]), pos, replay=rp, key='traction_rt')))
                results.append(discharge(Obligation('%s: sigma_rphi = y4 dU/dphi / sin(theta)' % pt, eq_goal(s[4], y[3, ri] * pot['Up'][li, ci, ti] / sn), pos, replay=rp,
                                                    key='traction_rp')))
                # heating
                dev = e[0].abs2() + e[1].abs2() + e[2].abs2() + 2 * (e[3].abs2() + e[4].abs2() + e[5].abs2()) - tr.abs2() * Fr(1, 3)
                want = 2 * mu[ri].imag * dev + K[ri].imag * tr.abs2()
                pas = [mu[ri].im >= 0, K[ri].im >= 0]
                inner = Q(0)
                for k in range(6):
                    w_ = 1 if k < 3 else 2
                    inner = inner + w_ * (s[k].imag * e[k].real - s[k].real * e[k].imag)
                results.append(discharge(Obligation('%s: Im(sigma)Re(eps) - Re(sigma)Im(eps) (off-diagonals doubled) == 2 Im(mu)|dev eps|^2 + Im(K)|tr eps|^2' % pt, eq_goal(inner, want), pos,
                                                    replay=rp, key='heating_form')))
                results.append(discharge(Obligation('%s: heating form == 0 for purely elastic material (Im mu = Im K = 0)' % pt, eq_goal(inner, Q(0)), pos + [mu[ri].im == 0, K[ri].im == 0],
                                                    replay=replay_point(l, 'elastic'), key='heating_elastic')))
                # composition: the function body up to its final np.abs (np.abs stubbed to the identity) computes exactly the form at this grid point
                hi = Q.of(heat_noabs[ri, li, ci, ti])
                results.append(discharge(Obligation('%s: calculate_volumetric_heating before its final abs == the form (index bookkeeping of the 6 components)' % pt, eq_goal(hi, inner), pos,
                                                    replay=rp, key='heating_compose')))
    # non-negativity of the form (Cauchy-Schwarz): decided once on abstract strain components
    ev = [Q.csym('e%d' % k) for k in range(6)]
    trv = ev[0] + ev[1] + ev[2]
    devv = ev[0].abs2() + ev[1].abs2() + ev[2].abs2() + 2 * (ev[3].abs2() + ev[4].abs2() + ev[5].abs2()) - trv.abs2() * Fr(1, 3)
    results.append(discharge(Obligation('|dev eps|^2 = sum|eps_ij|^2 - |tr eps|^2/3 >= 0 for arbitrary complex strain (so heating >= 0 for Im mu, Im K >= 0 even without the final abs)',
                                        (devv >= 0).c, [], replay=lambda md: (False, 'lemma'), key='dev_nonneg', timeout_ms=solve.qtimeout(60, 300))))
    # abs step on arbitrary stress/strain: result real, >= 0, and +- the form
    sv = np.empty((6, 1), dtype=object).view(SArr)
    evv = np.empty((6, 1), dtype=object).view(SArr)
    for k in range(6):
        sv[k, 0], evv[k, 0] = Q.csym('s%d' % k), Q.csym('eps%d' % k)
    ha = Q.of(hf['calculate_volumetric_heating'](sv, evv)[0])
    form = Q(0)
    for k in range(6):
        form = form + (1 if k < 3 else 2) * (sv[k, 0].imag * evv[k, 0].real - sv[k, 0].real * evv[k, 0].imag)
    results.append(discharge(Obligation('calculate_volumetric_heating on arbitrary stress/strain: real, >= 0 and equal to +-(Im(s)Re(e) - Re(s)Im(e), off-diagonals doubled)',
                                        z3.And(z3.BoolVal(ha.is_real), (ha >= 0).c, z3.Or(eq_goal(ha, form), eq_goal(ha, -form))), [], replay=rp, key='heating_abs')))
    results.append(reach_twin('C15 l=%d' % l, pos))
    return {'results': results, 'encoded': loader.ENCODED, 'axioms': CTX.axiom_notes, 'label': 'l=%d' % l}


def job_displacements():
    atoms.declare_angle('theta', 1, 'circle')
    th = Q.sym('theta')
    fns, ns = loader.load_py('TidalPy/tides/multilayer/displacements.py', ['calculate_displacements'], {'np': NP})
    sh = (2, 1, 1)
    U = np.empty(sh, dtype=object).view(SArr)
    Ut = np.empty(sh, dtype=object).view(SArr)
    Up = np.empty(sh, dtype=object).view(SArr)
    for i in range(2):
        U[i, 0, 0], Ut[i, 0, 0], Up[i, 0, 0] = Q.csym('U%d' % i), Q.csym('Ut%d' % i), Q.csym('Up%d' % i)
    y = np.empty((6, 2), dtype=object).view(SArr)
    for i in range(6):
        for ri in range(2):
            y[i, ri] = Q.csym('y%d_%d' % (i + 1, ri))
    ur, ut, up = fns['calculate_displacements'](U, Ut, Up, y, th)
    conds = []
    s = atoms.sin(th)
    for ri in range(2):
        for i in range(2):
            conds += [eq_goal(ur[ri, i, 0, 0], y[0, ri] * U[i, 0, 0]), eq_goal(ut[ri, i, 0, 0], y[2, ri] * Ut[i, 0, 0]), eq_goal(up[ri, i, 0, 0], y[2, ri] * Up[i, 0, 0] / s)]
    res = [discharge(Obligation('displacements: u_r = y1 U, u_theta = y3 dU/dtheta, u_phi = y3 dU/dphi / sin(theta) at every grid point', z3.And(*conds), [s.re > 0],
                                replay=lambda md: (True, 'displacement relations violated'), key='displacements'))]
    return {'results': res, 'encoded': loader.ENCODED, 'axioms': CTX.axiom_notes, 'label': 'displacements'}


DRIVER = 'TidalPy/tides/modes/multilayer_modes.py'


def _signature_of(rel, name):
    """(parameter names, {name: default expr source}) of a module-level function, read from the current source"""
    import ast
    src = open(loader.repo_path(rel)).read()
    for n in ast.parse(src).body:
        if isinstance(n, ast.FunctionDef) and n.name == name:
            a = n.args
            names = [x.arg for x in a.posonlyargs + a.args]
            defaults = dict(zip(names[len(names) - len(a.defaults):], [ast.literal_eval(d) for d in a.defaults]))
            for x, d in zip(a.kwonlyargs, a.kw_defaults):
                names.append(x.arg)
                if d is not None:
                    defaults[x.arg] = ast.literal_eval(d)
            return names, defaults
    raise KeyError(name)


def _bind(names, defaults, args, kwargs):
    out = dict(defaults)
    for n, v in zip(names, args):
        out[n] = v
    out.update(kwargs)
    return out


def replay_driver(md):
    """the REAL calculate_mode_response_coupled, with radial_solver and calculate_strain_stress of its module replaced by recorders: which degree and frequency does the stress/strain call
    receive, compared with what the radial solver was given"""
    code = (
        "import sys, json\n"
        "sys.modules['diffeqpy'] = None\n"
        "import numpy as np\n"
        "import TidalPy\n"
        "import TidalPy.tides.modes.multilayer_modes as mm\n"
        "import inspect\n"
        "rec = {}\n"
        "real_ss = mm.calculate_strain_stress\n"
        "sig = inspect.signature(getattr(real_ss, 'py_func', real_ss))\n"
        "def fake_rs(*a, **k):\n"
        "    rec['rs_order_l'] = k.get('order_l', 2); rec['rs_freq'] = a[5] if len(a) > 5 else k.get('frequency')\n"
        "    return np.ones((6, 3), dtype=np.complex128)\n"
        "def fake_ss(*a, **k):\n"
        "    b = sig.bind(*a, **k); b.apply_defaults()\n"
        "    rec['ss_order_l'] = b.arguments['order_l']; rec['ss_freq'] = b.arguments['frequency']\n"
        "    return np.zeros(1), np.zeros(1)\n"
        "mm.radial_solver = fake_rs; mm.calculate_strain_stress = fake_ss\n"
        "r = np.linspace(1., 3., 3)\n"
        "pot = tuple(np.zeros((1, 1, 1), dtype=np.complex128) for _ in range(6))\n"
        "mm.calculate_mode_response_coupled(%r, r, r * 1e10, r * 1e11, r * 1e20, r * 3000., r, np.zeros(1), np.ones(1), np.zeros(1), pot,\n"
        "    lambda w, c, v: c - 1j / (v * w), (True,), (False,), (np.ones(3, dtype=bool),), force_mode_calculation=True, order_l=%d, planet_bulk_density=3000.)\n"
        "print('@@RESULT@@' + json.dumps(rec, default=float))\n")
    L = int(md.get('order_l', 3) or 3)
    if L < 2:
        L = 3
    w = 2.0e-5
    import subprocess, tempfile, json
    with tempfile.TemporaryDirectory(prefix='verif_c15_') as td:
        env = dict(os.environ, PYTHONPATH=solve.REPO)
        p = subprocess.run([replay.VENV_PY, '-c', code % (w, L)], capture_output=True, text=True, cwd=td, env=env, timeout=600)
    if '@@RESULT@@' not in p.stdout:
        return False, 'driver replay failed: %s' % p.stderr[-400:]
    rec = json.loads(p.stdout.split('@@RESULT@@')[-1])
    bad = rec.get('ss_order_l') != L or rec.get('rs_order_l') != L or rec.get('ss_freq') != w or rec.get('rs_freq') != w
    return bad, 'real calculate_mode_response_coupled(order_l=%d, frequency=%g): radial_solver received order_l=%r frequency=%r, calculate_strain_stress received order_l=%r frequency=%r' % (
        L, w, rec.get('rs_order_l'), rec.get('rs_freq'), rec.get('ss_order_l'), rec.get('ss_freq'))


def job_driver():
    """call site: the per-mode driver hands calculate_strain_stress the radial functions it just solved, for the SAME degree, frequency, radii and moduli (otherwise the tractions of the
    returned stresses do not reproduce the returned y2, y4: sigma_rr = y2 U is a degree-l identity)"""
    names, defaults = _signature_of('TidalPy/tides/multilayer/stress_strain.py', 'calculate_strain_stress')
    rs_names, rs_defaults = None, None
    rec = {}
    Ytok = obj_array([Q.csym('Y%d' % i) for i in range(2)])

    def radial_solver(*a, **k):
        rec['rs'] = (a, k)
        return Ytok

    def strain_stress(*a, **k):
        rec['ss'] = _bind(names, defaults, a, k)
        return 'STRAINS', 'STRESSES'
    fns, ns = loader.load_py(DRIVER, ['calculate_mode_response_coupled'], {'np': NP, 'radial_solver': radial_solver, 'calculate_strain_stress': strain_stress})
    w = Q.sym('mode_frequency')
    Lsym = z3.Int('order_l')
    radius = obj_array([Q.sym('r%d' % i) for i in range(2)])
    shear = obj_array([Q.sym('mu%d' % i) for i in range(2)])
    bulk = obj_array([Q.sym('K%d' % i) for i in range(2)])
    visc = obj_array([Q.sym('eta%d' % i) for i in range(2)])
    comp = obj_array([Q.csym('J%d' % i) for i in range(2)])
    pot = tuple('POT%d' % i for i in range(6))
    lon, col, tim = obj_array([Q.sym('lon')]), obj_array([Q.sym('col')]), obj_array([Q.sym('t')])

    class LTok:
        """the degree as an opaque value carrying the z3 integer"""
        def __init__(self, z):
            self.z = z
    L = LTok(Lsym)
    out = fns['calculate_mode_response_coupled'](w, radius, shear, bulk, visc, obj_array([Q.sym('rho')] * 2), obj_array([Q.sym('g')] * 2), lon, col, tim, pot,
                                                 lambda *a: comp, (True,), (False,), ('IDX',), force_mode_calculation=True, order_l=L, planet_bulk_density=Q.sym('rhob'))
    ss = rec['ss']
    a, k = rec['rs']

    def as_int(v):
        return v.z if isinstance(v, LTok) else z3.IntVal(int(v))
    A = [Lsym >= 2, w.re > 0]
    shears_out = out[3]
    conds = {
        'order_l': as_int(ss['order_l']) == Lsym,
        'order_l given to radial_solver': as_int(k.get('order_l', 2)) == Lsym,
        'frequency': eq_goal(Q.of(ss['frequency']), w) if isinstance(ss['frequency'], (Q, int, float, Fr)) else z3.BoolVal(False),
        'frequency given to radial_solver': eq_goal(Q.of(a[5]), w) if len(a) > 5 and isinstance(a[5], (Q, int, float, Fr)) else z3.BoolVal(False),
        'radial functions': z3.BoolVal(ss['tidal_solution_y'] is Ytok),
        'radius array': z3.BoolVal(ss['radius_array'] is radius and a[0] is radius),
        'complex shear': z3.BoolVal(ss['shear_moduli'] is a[1] and ss['shear_moduli'] is shears_out),
        'bulk modulus': z3.BoolVal(ss['bulk_moduli'] is bulk and a[2] is bulk),
        'grids': z3.BoolVal(ss['longitude_array'] is lon and ss['colatitude_array'] is col and ss['time_array'] is tim),
        'potential tuple order': z3.BoolVal(tuple(ss[n] for n in names[:6]) == pot),
        'returned radial functions / stresses': z3.BoolVal(out[4] is Ytok and out[1] == 'STRAINS' and out[2] == 'STRESSES'),
    }
    res = []
    for nm, g in conds.items():
        res.append(discharge(Obligation('calculate_mode_response_coupled: calculate_strain_stress receives the same %s as the caller / radial_solver (for every degree l >= 2 and frequency > 0)' % nm,
                                        g, A, with_axioms=False, with_dens=False, replay=replay_driver, key='driver:%s' % nm.split()[0])))
    res.append(reach_twin('C15 driver', A, with_axioms=False, with_dens=False))
    return {'results': res, 'encoded': loader.ENCODED, 'label': 'driver call site'}


def main():
    ls = range(2, 11) if TIER == 'thorough' else (2, 3)
    jobs = [(job, {'l': l}) for l in ls] + [(job_displacements, {}), (job_driver, {})]
    meta = {
        'explanation': 'calculate_strain_stress, calculate_volumetric_heating and calculate_displacements are executed from the current source on a %dx%dx%dx%d grid of distinct complex symbols '
                       '(y1..y6, mu, K complex; the potential values free except for the degree-l Laplace identity, which defines U_theta_theta). z3 decides Hooke\'s law component-wise, the three radial '
                       'tractions, and that the heating form equals 2 Im(mu)|dev eps|^2 + Im(K)|tr eps|^2 (non-negative by a separate Cauchy-Schwarz query), is what the function returns up to abs, and vanishes for real moduli.' % (NR, NLON, NCOL, NT),
        'bounds': 'degree l in %s; grid %dx%dx%dx%d with distinct symbols per point (index bookkeeping); sin(theta) > 0.' % (list(ls), NR, NLON, NCOL, NT),
        'outside': 'floating point; theta = 0, pi.',
        'assumptions': ['the potential satisfies the degree-l surface Laplace identity (stated in the property)', 'colatitude in (0, pi)'],
    }
    solve.run_check(PID, jobs, meta)


if __name__ == '__main__':
    main()
