"""C01 — Love numbers of a uniform incompressible solid sphere equal the Kelvin closed form: every algebraic link of the shooting pipeline is exact."""
import sys, os, math
sys.path.insert(0, os.path.dirname(os.path.dirname(os.path.abspath(__file__))))
import z3
from fractions import Fraction as Fr
from symx.values import Q, B, CTX, eq_goal
from symx import loader, solve, replay, atoms, pyx2py
from symx.pyx2py import CArr, Ptr
from symx.npshim import set_pi
from symx.solve import Obligation, discharge, reach_twin, TIER
import rs
import c02

PID = 'C01'


def poly_basis(l):
    """the 3-dimensional space of polynomial (regular) solutions y_i = r^(l-2) sum_j c_ij r^j of the static incompressible ODE for a uniform sphere (g = gam r, 4 pi G = 3 gam / rho),
    built with sympy linear algebra -- UNTRUSTED: the solver re-checks every component against the real diffeq."""
    import sympy as sp
    r, rho, mu, gam = sp.symbols('r rho mu gam', positive=True)
    cs = [[sp.Symbol('c%d_%d' % (i, j)) for j in range(7)] for i in range(6)]
    y = [sum(cs[i][j] * r ** (l - 2 + j) for j in range(7)) for i in range(6)]
    y1, y2, y3, y4, y5, y6 = y
    llp1, lp1, lm1 = l * (l + 1), l + 1, l - 1
    ri = 1 / r
    two = 2 * mu * ri
    dg = rho * gam * r
    gt = 3 * gam
    t13 = 2 * y1 - llp1 * y3
    dy = [-t13 * ri, ri * (y1 * (12 * mu * ri - 4 * dg) + y3 * llp1 * (dg - 6 * mu * ri) + y4 * llp1 + y5 * rho * lp1 - y6 * rho * r), -y1 * ri + y3 * ri + y4 / mu,
          ri * (y1 * (dg - 3 * two) - y2 + y3 * (two * (2 * llp1 - 1)) - 3 * y4 - y5 * rho), y1 * gt - y5 * lp1 * ri + y6, ri * (y1 * gt * lm1 + y6 * lm1 + t13 * gt)]
    eqs = []
    for i in range(6):
        eqs += [c for c in sp.Poly(sp.expand((sp.diff(y[i], r) - dy[i]) * r ** 3), r).all_coeffs() if c != 0]
    unk = [c for row in cs for c in row]
    sol = list(sp.linsolve(eqs, unk))[0]
    free = sorted(set().union(*[e.free_symbols for e in sol]) - {rho, mu, gam}, key=str)
    return sp, (r, rho, mu, gam), sol, free


def to_Q(sp, expr, syms, zsyms):
    num, den = sp.fraction(sp.together(expr))

    def poly(e):
        e = sp.Poly(sp.expand(e), *syms)
        tot = Q(0)
        for powers, co in e.terms():
            co = sp.Rational(co)
            term = Q(Fr(int(co.p), int(co.q)))
            for v, k in zip(zsyms, powers):
                term = term * v ** k
            tot = tot + term
        return tot
    return poly(num) / poly(den)


def job_kelvin(l):
    pi = set_pi()
    sp, syms, sol, free = poly_basis(l)
    if len(free) != 3:
        raise RuntimeError('polynomial solution space has dimension %d (expected 3)' % len(free))
    r, rho, mu, gam = [Q.sym(n) for n in ('r', 'rho', 'mu', 'gam')]
    zs = [r, rho, mu, gam]
    pos = [x.re > 0 for x in (r, rho, gam)] + [mu.re != 0]
    results = []
    basis, dbasis = [], []
    sr = syms[0]
    for f in free:
        sub = {g_: (1 if g_ == f else 0) for g_ in free}
        co = [e.subs(sub) for e in sol]
        vec = [sum(co[i * 7 + j] * sr ** (l - 2 + j) for j in range(7)) for i in range(6)]
        basis.append([to_Q(sp, v, syms, zs) for v in vec])
        dbasis.append([to_Q(sp, sp.diff(v, sr), syms, zs) for v in vec])
    # (1) each basis vector is a solution of the REAL static incompressible diffeq in a uniform sphere (g = gam r, 4 pi G = 3 gam / rho)
    G4pi = 3 * gam / rho
    for bi in range(3):
        dy = rs.ode_rhs('SolidStaticIncompressible', basis[bi], r, rho, gam * r, mu, None, Q(0), G4pi, l, formal=True)
        conds = [eq_goal(dbasis[bi][i], dy[i]) for i in range(6)]
        results.append(discharge(Obligation('l=%d: polynomial vector %d satisfies SolidStaticIncompressible.diffeq component-wise (regular solution of the code\'s ODE)' % (l, bi), z3.And(*conds), pos,
                                            replay=lambda md: replay_kelvin(l), key='kelvin:basis')))
    # the three vectors are independent (non-vacuity): some 3x3 minor is non-zero
    import c04
    minor = c04.det([[basis[j][i] for j in range(3)] for i in (0, 2, 4)])
    results.append(reach_twin('l=%d basis independent' % l, pos + [z3.Not(eq_goal(minor, Q(0)))], timeout_ms=60000))
    # (2) surface algebra with the real boundary / collapse / Love code at r = R (tidal boundary vector from the real bc_pointer construction)
    import c03
    R = Q.sym('R')
    at = [(r.re, R.re)]
    U = CArr((18,), 'uppermost_y')
    for j in range(3):
        for i in range(6):
            U.data[j * 6 + i] = basis[j][i].substitute(at)
    gs = gam * R
    G = 3 * gam / (4 * pi * rho)
    bc_code = c03.load_bc_block()
    z = c02.Zgesv()
    bnd, _ = loader.load_pyx(c02.BND, ['cf_apply_surface_bc'], {'zgesv': z, 'pi': pi, 'NAN': Q.sym('NAN')})
    col, _ = loader.load_pyx(c02.COL, ['cf_collapse_layer_solution'], {})
    love, _ = loader.load_pyx('TidalPy/RadialSolver/love.pyx', ['find_love_cf'], {})
    for solve_for, ytype_i in ((None, 0), (('loading', 'tidal'), 1)):
        bd, _, _ = c03.run_bc(bc_code, solve_for, l, R, rho)
        cvec, info = CArr((3,), 'constant_vector'), CArr((1,), 'info')
        z.cons.clear()
        bnd['cf_apply_surface_bc'](Ptr(cvec, 0), Ptr(info, 0), bd, Ptr(U, 0), gs, G, 3, 6, ytype_i, 0, True, True)
        sol_out = CArr((30,), 'solution')
        storage = [[U.data[j * 6 + i] for i in range(6)] for j in range(3)]
        col['cf_collapse_layer_solution'](Ptr(sol_out, 0), Ptr(cvec, 0), storage, [R], [rho], [gs], Q(0), 0, 1, 3, 6, 6, 30, ytype_i, 0, True, True)
        lv = [None] * 3
        love['find_love_cf'](lv, Ptr(sol_out, ytype_i * 6), gs)
        m_l = Q(Fr(2 * l * l + 4 * l + 3, l)) * mu / (rho * gs * R)
        kk = Q(Fr(3, 2 * (l - 1))) / (1 + m_l)
        A = pos + [R.re > 0] + list(z.cons)
        goal = z3.And(eq_goal(lv[0], kk), eq_goal(lv[1], Q(Fr(2 * l + 1, 3)) * kk), eq_goal(lv[2], kk / l))
        results.append(discharge(Obligation('l=%d solve_for=%r: boundary vectors + cf_apply_surface_bc + cf_collapse_layer_solution + find_love_cf applied to the regular solutions give exactly '
                                            'k = 3/(2(l-1))/(1+m_l), h = (2l+1)k/3, l = k/l, m_l = (2l^2+4l+3) mu/(l rho g R)' % (l, solve_for), goal, A, replay=lambda md: replay_kelvin_full(l, solve_for, ytype_i), key='kelvin:love')))
        results.append({'name': 'l=%d kelvin surface [reachability twin]' % l, 'key': 'twin', 'twin': True, 'verdict': solve.sat_check(A + CTX.axioms, 30000), 'solver_s': 0.0, 'info': {}})
        bad = eq_goal(lv[0], 2 * kk)
        so = z3.Solver()
        so.set('timeout', 60000)
        so.add(A + CTX.axioms)
        so.add(bad)
        r_ = str(so.check())
        if r_ != 'unknown':      # an undecided sanity query says nothing either way and is not reported
            results.append({'name': 'l=%d: the false goal k = 2 k_Kelvin is refutable [sanity twin]' % l, 'key': 'twin2', 'twin': True, 'verdict': 'sat' if r_ == 'unsat' else 'vacuous', 'solver_s': 0.0, 'info': {}})
    return {'results': results, 'encoded': loader.ENCODED, 'axioms': CTX.axiom_notes + ['zgesv contract stub'], 'label': 'kelvin l=%d' % l}


def real_kelvin(l, solve_for):
    """REAL radial_solver on a homogeneous, effectively incompressible sphere, the tidal solution requested the way the obligation requests it, both nondimensionalize settings: tidal
    (k, h, l) against the Kelvin closed form"""
    code = (
        "import sys, json\n"
        "sys.modules['diffeqpy'] = None\n"
        "import numpy as np\n"
        "from TidalPy.RadialSolver import radial_solver\n"
        "G = 6.67430e-11\n"
        "R, rho, mu, w, l = 6.0e6, 3500., 5.0e10 + 2.0e10j, 1.0e-6, %d\n"
        "solve_for = %r\n"
        "g = (4. / 3.) * np.pi * G * rho * R\n"
        "m = (2. * l ** 2 + 4. * l + 3.) * mu / (l * rho * g * R)\n"
        "k = 3. / (2. * (l - 1.)) / (1. + m)\n"
        "want = np.asarray((k, (2. * l + 1.) * k / 3., k / l))\n"
        "out = {'want_k': [k.real, k.imag], 'runs': []}\n"
        "for nd in (True, False):\n"
        "    N = 100\n"
        "    radius = np.linspace(0.01 * R, R, N); density = rho * np.ones(N); gravity = (4. / 3.) * np.pi * G * rho * radius\n"
        "    bulk = 1.0e16 * np.ones(N); shear = mu * np.ones(N, dtype=np.complex128)\n"
        "    sol = radial_solver(radius, density, gravity, bulk, shear, w, rho, ('solid',), (True,), (False,), (R,), degree_l=l, solve_for=solve_for, use_kamata=True,\n"
        "                        integration_method='rk45', integration_rtol=1.0e-9, integration_atol=1.0e-12, max_num_steps=5000000, nondimensionalize=nd)\n"
        "    if not sol.success:\n"
        "        out['runs'].append({'nondimensionalize': nd, 'success': False}); continue\n"
        "    names = list(solve_for) if solve_for else ['tidal']\n"
        "    got = np.atleast_2d(sol.love)[names.index('tidal')]\n"
        "    out['runs'].append({'nondimensionalize': nd, 'success': True, 'k': [complex(got[0]).real, complex(got[0]).imag], 'max_err': float(np.max(np.abs(got - want)))})\n"
        "print('@@RESULT@@' + json.dumps(out))\n") % (l, tuple(solve_for) if solve_for else None)
    import subprocess, tempfile, json
    with tempfile.TemporaryDirectory(prefix='verif_c01_') as td:
        p = subprocess.run([replay.VENV_PY, '-c', code], capture_output=True, text=True, cwd=td, env=dict(os.environ, PYTHONPATH=solve.REPO), timeout=900)
    if '@@RESULT@@' not in p.stdout:
        return False, 'real radial_solver run failed: %s' % p.stderr[-300:]
    out = json.loads(p.stdout.split('@@RESULT@@')[-1])
    bad = any(r.get('success') and r['max_err'] > 1e-4 for r in out['runs'])
    return bad, 'REAL radial_solver, homogeneous incompressible-limit sphere, l=%d, solve_for=%r: %s' % (l, solve_for, json.dumps(out))


def replay_kelvin_full(l, solve_for, ytype_i=0):
    """source-level replay first (ODE residual + surface step on the current sources), then the public API with the obligation's own solve_for"""
    bad, detail = replay_kelvin(l, solve_for, ytype_i)
    if bad:
        return bad, detail
    if 'tidal' in (solve_for or ('tidal',)):
        bad2, detail2 = real_kelvin(l, solve_for)
        if bad2:
            return True, detail2
        return False, detail + ' ; ' + detail2
    return bad, detail


def replay_kelvin(l, solve_for=None, ytype_i=0):
    """numeric: integrate nothing -- evaluate the polynomial regular solutions with floats through the transliterated current source and compare with the Kelvin numbers"""
    import numpy as np
    rho, mu, gam, R = 3.0, 3.5, 5.0 / 3.0, 2.0
    sp, syms, sol, free = poly_basis(l)
    vals = {syms[1]: rho, syms[2]: mu, syms[3]: gam}
    vecs = []
    for f in free:
        sub = {g_: (1 if g_ == f else 0) for g_ in free}
        co = [sp.N(e.subs(sub).subs(vals)) for e in sol]
        vecs.append([complex(sum(co[i * 7 + j] * R ** (l - 2 + j) for j in range(7))) for i in range(6)])
    # residual of the ODE at r = R
    worst = 0.0
    h = 1e-6
    for f, v in zip(free, vecs):
        sub = {g_: (1 if g_ == f else 0) for g_ in free}
        co = [sp.N(e.subs(sub).subs(vals)) for e in sol]
        d = [complex(sum(co[i * 7 + j] * (l - 2 + j) * R ** (l - 3 + j) for j in range(7))) for i in range(6)]
        dy = rs.ode_rhs('SolidStaticIncompressible', v, R, rho, gam * R, mu, None, 0.0, 3 * gam / rho, l, float_mode=True)
        worst = max(worst, max(abs(a - b) for a, b in zip(d, dy)) / (max(abs(x) for x in dy) + 1e-300))
    # surface step through the transliterated CURRENT boundaries/collapse/love sources in float mode (zgesv = numpy solve, column-major)
    def zgesv(n_ref, nrhs_ref, A_, lda_ref, ipiv, b, ldb_ref, info):
        n = int(n_ref[0])
        M = np.array([[complex(A_[i + j * n]) for j in range(n)] for i in range(n)])
        x = np.linalg.solve(M, np.array([complex(b[i]) for i in range(n)]))
        for i in range(n):
            b[i] = complex(x[i])
        info[0] = 0
    bnd, _ = loader.load_pyx(c02.BND, ['cf_apply_surface_bc'], {'zgesv': zgesv}, float_mode=True)
    col, _ = loader.load_pyx(c02.COL, ['cf_collapse_layer_solution'], {}, float_mode=True)
    love, _ = loader.load_pyx('TidalPy/RadialSolver/love.pyx', ['find_love_cf'], {}, float_mode=True)
    gs = gam * R
    G = 3 * gam / (4 * math.pi * rho)
    U = CArr((18,), 'U')
    for j in range(3):
        for i in range(6):
            U.data[j * 6 + i] = vecs[j][i]
    bd = [0.0, 0.0, (2 * l + 1) / R] + [float('nan')] * 12
    bc_note = ''
    try:
        import c03
        # the boundary vectors as the CURRENT source builds them for this solve_for (exact rationals at rho_bulk = rho, R; the caller's dimensional radius / density are distinct symbols)
        bd_src, _, _ = c03.run_bc(c03.load_bc_block(), solve_for, l, Q(Fr(R)), Q(Fr(rho)))
        conv = []
        for v in bd_src:
            try:
                conv.append(float('nan') if v is None else float(Q.of(v).const()))
            except Exception:
                conv.append(None)
        if any(v is None for v in conv[ytype_i * 3:ytype_i * 3 + 3]):
            return True, 'l=%d solve_for=%r: the boundary vector the current source builds for the tidal solution depends on the caller\'s DIMENSIONAL radius / bulk density instead of the values in use (%r)' % (
                l, solve_for, [str(v) for v in bd_src[ytype_i * 3:ytype_i * 3 + 3]])
        bd = [float('nan') if v is None else v for v in conv]
        bc_note = ' (boundary vectors from the current bc block)'
    except Exception as e:
        bc_note = ' (boundary vector block could not be evaluated in float mode: %r)' % (e,)
    cvec, info = CArr((3,), 'c'), CArr((1,), 'info')
    bnd['cf_apply_surface_bc'](Ptr(cvec, 0), Ptr(info, 0), bd, Ptr(U, 0), gs, G, 3, 6, ytype_i, 0, True, True)
    out = CArr((30,), 'solution')
    col['cf_collapse_layer_solution'](Ptr(out, 0), Ptr(cvec, 0), [[U.data[j * 6 + i] for i in range(6)] for j in range(3)], [R], [rho], [gs], 0.0, 0, 1, 3, 6, 6, 30, ytype_i, 0, True, True)
    lv = [None] * 3
    love['find_love_cf'](lv, Ptr(out, ytype_i * 6), gs)
    k = complex(lv[0])
    m_l = (2 * l * l + 4 * l + 3) / l * mu / (rho * gs * R)
    kk = 3 / (2 * (l - 1)) / (1 + m_l)
    bad = worst > 1e-8 or abs(k - kk) > 1e-9 or abs(complex(lv[1]) - (2 * l + 1) * kk / 3) > 1e-9 or abs(complex(lv[2]) - kk / l) > 1e-9
    bad = bad or (k != k and not bc_note.startswith(' (boundary vector block could not'))
    return bad, 'l=%d: max relative ODE residual of the polynomial solutions on the current odes.pyx: %.2e; current boundaries/collapse/love sources give (k,h,l)=(%r,%r,%r), Kelvin k=%r%s' % (
        l, worst, k, complex(lv[1]), complex(lv[2]), kk, bc_note)


def job_limits(l):
    """static = dynamic at zero frequency; incompressible = K -> infinity limit of the compressible right-hand side (the property's 'static and dynamic layer assumptions', '(in)compressible-limit settings')"""
    pi = set_pi()
    r, rho, g, mu, K, w, G4 = [Q.sym(n) for n in ('r', 'rho', 'g', 'mu', 'K', 'w', 'G4pi')]
    pos = [x.re > 0 for x in (r, rho, g, K, G4)] + [mu.re != 0]
    y = [Q.sym('y%d' % i) for i in range(6)]
    results = []
    for comp in ('Compressible', 'Incompressible'):
        d0 = rs.ode_rhs('SolidDynamic' + comp, y, r, rho, g, mu, K, Q(0), G4, l, formal=True)
        s0 = rs.ode_rhs('SolidStatic' + comp, y, r, rho, g, mu, K, w, G4, l, formal=True)
        results.append(discharge(Obligation('l=%d: SolidDynamic%s.diffeq at zero frequency == SolidStatic%s.diffeq' % (l, comp, comp), z3.And(*[eq_goal(a, b) for a, b in zip(d0, s0)]), pos,
                                            replay=lambda md: (True, 'static and dynamic right-hand sides differ at w = 0'), key='limit:static:%s' % comp)))
    kap = Q.sym('kappa')
    for dyn in ('Dynamic', 'Static'):
        c = rs.ode_rhs('Solid%sCompressible' % dyn, y, r, rho, g, mu, 1 / kap, w, G4, l, formal=True)
        i_ = rs.ode_rhs('Solid%sIncompressible' % dyn, y, r, rho, g, mu, None, w, G4, l, formal=True)
        from symx.diff import diff as _diff
        conds = []
        for a, b in zip(c, i_):
            d = a - b
            # d = N(kappa) / (kappa^m * other factors): the limit kappa -> 0 is 0 iff N, N', ..., N^(m) vanish at kappa = 0 and the other factors do not
            mult = 0
            other = Q(1)
            for kf, (t, m) in d.den.items():
                if kf == ('v', 'kappa'):
                    mult = m
                else:
                    other = other * Q(z3.simplify(z3.substitute(t, (kap.re, z3.RealVal(0))))) ** m
            N = Q(d.re)
            for j in range(mult + 1):
                N0 = N.substitute([(kap.re, z3.RealVal(0))])
                conds.append(eq_goal(N0, Q(0)))
                N = _diff(N, {kap.re: Q(1)})
            conds.append(z3.Not(eq_goal(other, Q(0))))
        results.append(discharge(Obligation('l=%d: Solid%sCompressible.diffeq -> Solid%sIncompressible.diffeq as K -> infinity (kappa = 1/K -> 0)' % (l, dyn, dyn), z3.And(*conds), pos,
                                            replay=lambda md: (True, 'incompressible right-hand side is not the K -> infinity limit of the compressible one'), key='limit:incompressible:%s' % dyn)))
    results.append(reach_twin('limits', pos))
    return {'results': results, 'encoded': loader.ENCODED, 'axioms': CTX.axiom_notes, 'label': 'limits l=%d' % l}


def main():
    ls = list(range(2, 7)) if TIER == 'thorough' else [2, 3]
    jobs = [(job_kelvin, {'l': l}) for l in ls] + [(job_limits, {'l': l}) for l in ls]
    # C04 span obligations for the families feeding a uniform solid sphere (independence of Takeuchi/Kamata): imported
    import c04
    for fam in ('kamata_solid_static_compressible', 'kamata_solid_dynamic_compressible', 'kamata_solid_dynamic_incompressible'):
        jobs.append((c04.job_span, {'fam': fam, 'l': 2}))
    # the pipeline pieces between the ODE classes and the Love numbers: real/imag packing of every solid ODE class (justifies the formal-indeterminate encoding used above) and the
    # call-site data flow of the collapse loop / Love-number extraction of cf_radial_solver for a single solid layer and a two-layer solid stack (C02 obligations)
    import c02
    for cls in rs.SOLID:
        jobs.append((rs.job_packing, {'cls': cls, 'l': 3}))
    for stack in ([(0, True, True)], [(0, False, False), (0, False, False)]):
        jobs.append((c02.job_collapse_glue, {'stack': stack}))
    import c06
    jobs.append((c06.job_whole, {'stack': [(0, True, True)], 'nondim': True}))      # single uniform layer: starting call, solver arguments, storage layout, extents
    meta = {
        'explanation': 'The solver cannot integrate an ODE; it decides that every ALGEBRAIC link of the shooting pipeline is exact. (1) The three polynomial regular solutions of the uniform-sphere problem '
                       '(built by untrusted sympy linear algebra) satisfy the real SolidStaticIncompressible.diffeq component-wise; (2) pushed through the real bc_pointer construction, cf_apply_surface_bc '
                       '(zgesv contract stub), cf_collapse_layer_solution and find_love_cf they give exactly the Kelvin k, h, l as rational identities in (R, rho, mu, G); (3) the dynamic classes reduce to the '
                       'static ones at zero frequency and the compressible to the incompressible right-hand side as K -> infinity; (4) the starting families span regular solutions (C04 obligations).',
        'bounds': 'degree l in %s; single solid layer; tidal and loading+tidal requests.' % ls,
        'outside': 'convergence of the CyRK integrators to the exact solution within the requested tolerance; interpolation of material profiles; the Takeuchi solid family (C04 known finding).',
        'assumptions': ['uniform sphere: g(r) = 4 pi G rho r / 3', 'zgesv solves its system'],
    }
    solve.run_check(PID, jobs, meta)


if __name__ == '__main__':
    main()
