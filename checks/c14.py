"""C14 — tidal potentials: returned angular derivatives are the true partial derivatives of the returned potential, the degree-2 surface
Laplace identity holds, per-mode variants sum to the non-modal counterpart, general variants reduce to simpler ones in their limits."""
import sys, os, math, inspect
sys.path.insert(0, os.path.dirname(os.path.dirname(os.path.abspath(__file__))))
import z3
from fractions import Fraction as Fr
from symx.values import Q, B, CTX, eq_goal
from symx import loader, solve, replay, atoms
from symx.diff import diff
from symx.npshim import NP
from symx.solve import Obligation, discharge, reach_twin, TIER

PID = 'C14'
FILES = ['synchronous_low_e', 'nsr_med_eccen_no_obliquity', 'nsr_modes_med_eccen_no_obliquity', 'nsr_med_eccen_med_obliquity',
         'nsr_modes_med_eccen_med_obliquity', 'nsr_med_eccen_gen_obliquity', 'nsr_modes_med_eccen_gen_obliquity', 'nsr_modes_low_eccen_gen_obliquity']
PAIRS = [('nsr_modes_med_eccen_no_obliquity', 'nsr_med_eccen_no_obliquity'), ('nsr_modes_med_eccen_med_obliquity', 'nsr_med_eccen_med_obliquity'),
         ('nsr_modes_med_eccen_gen_obliquity', 'nsr_med_eccen_gen_obliquity')]
COMP = ['U', 'U_theta', 'U_phi', 'U_theta_theta', 'U_phi_phi', 'U_theta_phi']


def setup():
    atoms.declare_angle('theta', 1, 'circle')
    atoms.declare_angle('phi', 1, 'circle')
    atoms.declare_angle(('n', 't'), 1, 'circle')
    atoms.declare_angle(('o', 't'), 1, 'circle')
    atoms.declare_angle('I', Fr(1, 2), 'circle')
    v = {k: Q.sym(k) for k in ('theta', 'phi', 't', 'n', 'o', 'e', 'Mh', 'a', 'rad', 'I', 'G')}
    CTX.facts = [v['n'].re > 0]
    return v


def run(which, v, use_static=False, sync=False, obliquity=None):
    consts = loader.module_constants('TidalPy/tides/potential/%s.py' % which)
    ns = {'np': NP, 'G': v['G'], 'bool_': bool, 'Dict': dict, 'MIN_SPIN_ORBITAL_DIFF': consts.get('MIN_SPIN_ORBITAL_DIFF', Fr(1, 10 ** 10))}
    try:
        mc = loader.module_constants('TidalPy/tides/potential/__init__.py')
        if 'MIN_SPIN_ORBITAL_DIFF' in mc:
            ns['MIN_SPIN_ORBITAL_DIFF'] = mc['MIN_SPIN_ORBITAL_DIFF']
    except Exception:
        pass
    fns, ns = loader.load_py('TidalPy/tides/potential/%s.py' % which, ['tidal_potential'], ns)
    f = fns['tidal_potential']
    vals = {'radius': v['rad'], 'longitude': v['phi'], 'colatitude': v['theta'], 'time': v['t'], 'orbital_frequency': v['n'],
            'rotation_frequency': v['n'] if sync else v['o'], 'eccentricity': v['e'], 'host_mass': v['Mh'], 'semi_major_axis': v['a'],
            'obliquity': v['I'] if obliquity is None else obliquity, 'use_static': use_static}
    params = list(inspect.signature(f).parameters)
    return f(*[vals[p] for p in params])


def base_atoms():
    return {nm: (c.re, s.re) for nm, (c, s) in atoms.BASES.items()}


def angle_rules(mon):
    c, s = atoms.BASES[mon]
    u = atoms.ANGLE_UNITS.get(mon, Fr(1))
    return {c.re: -s * u, s.re: c * u}


def model_point(md):
    """concrete (theta, phi, t, n, o, I, ...) reproducing the model's trig atom values: t=1, n,o := the angles n*t, o*t"""
    def ang(nm, default=0.7):
        c, s = md.get('cos[%s]' % nm), md.get('sin[%s]' % nm)
        if c is None or s is None:
            return default
        return math.atan2(float(s), float(c))
    pt = {'theta': ang('theta', 1.0), 'phi': ang('phi', 0.4), 't': 1.0}
    nt, ot = ang('n*t', 0.9), ang('o*t', 2.1)
    pt['n'] = nt if nt > 0 else nt + 2 * math.pi
    pt['o'] = ot
    pt['I'] = 2 * ang('I', 0.15)
    for k, d in (('e', 0.1), ('Mh', 1.0), ('a', 1.0), ('rad', 1.0)):
        pt[k] = float(md.get(k, d)) if md.get(k) is not None else d
    if pt['theta'] <= 0:
        pt['theta'] = -pt['theta'] if pt['theta'] < 0 else 1.0
    return pt


def real_call(which, pt, use_static=False, sync=False, dth=0.0, dph=0.0, I=None):
    args = {'radius': pt['rad'], 'longitude': pt['phi'] + dph, 'colatitude': pt['theta'] + dth, 'time': pt['t'], 'orbital_frequency': pt['n'],
            'rotation_frequency': pt['n'] if sync else pt['o'], 'eccentricity': pt['e'], 'host_mass': pt['Mh'], 'semi_major_axis': pt['a'],
            'obliquity': pt['I'] if I is None else I, 'use_static': use_static}
    import ast
    src = open(os.path.join(solve.REPO, 'TidalPy/tides/potential/%s.py' % which)).read()
    fn = [n for n in ast.parse(src).body if isinstance(n, ast.FunctionDef) and n.name == 'tidal_potential'][0]
    names = [a.arg for a in fn.args.args]
    return {'module': 'TidalPy.tides.potential.%s' % which, 'func': 'tidal_potential', 'args': [replay.arr([args[n]]) if n not in ('host_mass', 'use_static') else args[n] for n in names]}


def _tuple_of(val, mode):
    t = val[2][mode]
    return [x[0] if isinstance(x, list) else x for x in t]


def job_derivs(which, use_static):
    v = setup()
    out = run(which, v, use_static=use_static)
    freqs, modes, pots = out
    results = []
    A = [v['n'].re > 0, v['a'].re > 0]
    rth = angle_rules(('theta',))
    rph = angle_rules(('phi',))
    cth, sth = atoms.BASES[('theta',)]
    from symx.replay import call_real
    G_val = 6.6743e-11

    for mode in pots:
        U, Ut, Up, Utt, Upp, Utp = [Q.of(x) for x in pots[mode]]
        rel = [('dU/dtheta == U_theta', diff(U, rth), Ut, 0, 1, 'th'), ('dU_theta/dtheta == U_theta_theta', diff(Ut, rth), Utt, 1, 3, 'th'),
               ('dU/dphi == U_phi', diff(U, rph), Up, 0, 2, 'ph'), ('dU_phi/dphi == U_phi_phi', diff(Up, rph), Upp, 2, 4, 'ph'),
               ('dU_theta/dphi == U_theta_phi', diff(Ut, rph), Utp, 1, 5, 'ph'), ('dU_phi/dtheta == U_theta_phi', diff(Up, rth), Utp, 2, 5, 'th')]
        for nm, lhs, rhs, isrc, idst, wrt in rel:
            def rp(md, isrc=isrc, idst=idst, wrt=wrt, mode=mode):
                pt = model_point(md)
                h = 1e-5
                kw = {'dth': h} if wrt == 'th' else {'dph': h}
                kw2 = {'dth': -h} if wrt == 'th' else {'dph': -h}
                r = call_real([real_call(which, pt, use_static), real_call(which, pt, use_static, **kw), real_call(which, pt, use_static, **kw2)])
                if not all(x['ok'] for x in r):
                    return True, 'real call raised: %r' % [x.get('error') for x in r]
                t0, tp, tm = (_tuple_of(x['value'], mode) for x in r)
                fd = (tp[isrc] - tm[isrc]) / (2 * h)
                scale = max(abs(fd), abs(t0[idst]), abs(t0[0]), 1e-300)
                return abs(fd - t0[idst]) > 1e-5 * scale, '%s mode %s: finite difference of %s = %r, returned %s = %r at %r' % (which, mode, COMP[isrc], fd, COMP[idst], t0[idst], pt)
            results.append(discharge(Obligation('%s[static=%s] mode %s: %s' % (which, use_static, mode, nm), eq_goal(lhs, rhs), A, replay=rp,
                                                key='%s:%s:%s' % (which, mode, nm.split(' ')[0]))))
        # Laplace identity (degree 2), multiplied by sin^2(theta)
        lap = sth * sth * Utt + sth * cth * Ut + Upp + 6 * sth * sth * U

        def rp_l(md, mode=mode):
            pt = model_point(md)
            r = call_real([real_call(which, pt, use_static)])
            if not r[0]['ok']:
                return True, 'real call raised ' + r[0]['error']
            t0 = _tuple_of(r[0]['value'], mode)
            s, c = math.sin(pt['theta']), math.cos(pt['theta'])
            val = s * s * t0[3] + s * c * t0[1] + t0[4] + 6 * s * s * t0[0]
            scale = sum(abs(x) for x in t0) + 1e-300
            return abs(val) > 1e-9 * scale, '%s mode %s: sin^2 U_tt + sin cos U_t + U_pp + 6 sin^2 U = %r (scale %r) at %r' % (which, mode, val, scale, pt)
        results.append(discharge(Obligation('%s[static=%s] mode %s: surface Laplace identity U_tt + cot U_t + U_pp/sin^2 = -6U' % (which, use_static, mode),
                                            eq_goal(lap, Q(0)), A, replay=rp_l, key='%s:%s:laplace' % (which, mode))))
        # frequency bookkeeping
        fq, md_ = Q.of(freqs[mode]), Q.of(modes[mode])
        results.append(discharge(Obligation('%s mode %s: frequency == |mode|' % (which, mode), z3.And(eq_goal(fq * fq, md_ * md_), (fq >= 0).c), A,
                                            replay=lambda md, mode=mode: (True, 'frequency of mode %s is not |mode|' % mode), key='%s:%s:freq' % (which, mode))))
    # non-vacuity: some mode has dU/dtheta not identically zero
    nz = []
    for mode in pots:
        d = diff(Q.of(pots[mode][0]), rth)
        nz = d.is_zero_conds()
        if nz:
            break
    easy = [v[k].re == 1 for k in ('Mh', 'a', 'rad', 'G', 'n')] + [v['e'].re == Fr(1, 10), v['o'].re == 3]
    tw = reach_twin('%s derivatives non-trivial' % which, A + easy + [z3.Not(z3.And(*nz))] if nz else A + [z3.BoolVal(False)], timeout_ms=60000)
    results.append(tw)
    return {'results': results, 'encoded': loader.ENCODED, 'axioms': CTX.axiom_notes, 'notes': CTX.notes, 'label': '%s static=%s' % (which, use_static)}


def _sum_modes(pots):
    tot = [Q(0)] * 6
    for mode in pots:
        tot = [a + Q.of(b) for a, b in zip(tot, pots[mode])]
    return tot


def _replay_sum(wa, wb, use_static, sync=False, I=None, what=''):
    from symx.replay import call_real

    def rp(md):
        pts = [model_point(md)]
        # second candidate: the model's own n and spin (they matter when a mode switch |mode| > MIN_SPIN_ORBITAL_DIFF is what differs), generic phases
        if md.get('n') is not None and md.get('o') is not None:
            p2 = dict(pts[0])
            p2['n'], p2['o'], p2['t'] = float(md['n']), float(md['o']), 1.0
            pts.append(p2)
        last = None
        for pt in pts:
            r = call_real([real_call(wa, pt, use_static, sync=sync, I=I), real_call(wb, pt, use_static, sync=sync, I=I)])
            if not all(x['ok'] for x in r):
                return True, 'real call raised: %r' % [x.get('error') for x in r]
            sums = []
            for x in r:
                tot = [0.0] * 6
                for mode in x['value'][2]:
                    t = _tuple_of(x['value'], mode)
                    tot = [a + b for a, b in zip(tot, t)]
                sums.append(tot)
            worst = max(abs(a - b) / (abs(a) + abs(b) + 1e-300) for a, b in zip(*sums))
            last = '%s: sum over modes of %s = %r ; %s = %r at %r' % (what, wa, sums[0], wb, sums[1], pt)
            if worst > 1e-9:
                return True, last
        return False, last
    return rp


def job_sums(pair, use_static):
    wa, wb = pair
    v = setup()
    A = [v['n'].re > 0, v['a'].re > 0]
    pa = run(wa, v, use_static=use_static)[2]
    pb = run(wb, v, use_static=use_static)[2]
    sa, sb = _sum_modes(pa), _sum_modes(pb)
    results = []
    for i, cn in enumerate(COMP):
        results.append(discharge(Obligation('sum over modes of %s == %s [%s, use_static=%s]' % (wa, wb, cn, use_static), eq_goal(sa[i], sb[i]), A,
                                            replay=_replay_sum(wa, wb, use_static, what=cn), key='sum:%s:static=%s:%s' % (wa, use_static, cn))))
    if use_static:
        # pin the exact shape of the recorded finding (static term added once per mode): any OTHER deviation of the static sums is a new violation
        pb0 = run(wb, v, use_static=False)[2]
        sb0 = _sum_modes(pb0)
        nm = len(pa)
        # with use_static=False zero-frequency modes are switched off; the static term is isolated on the region where every mode is switched on
        fr = run(wa, v, use_static=False)[0]
        A = A + [(Q.of(f) > Fr(1, 10 ** 10)).c for f in fr.values()]
        for i, cn in enumerate(COMP):
            results.append(discharge(Obligation('static bookkeeping of %s [%s]: modal sum - non-modal == (num_modes-1) * static term' % (wa, cn),
                                                eq_goal(sa[i] - sb[i], (nm - 1) * (sb[i] - sb0[i])), A,
                                                replay=_replay_sum(wa, wb, True, what=cn + ' (static bookkeeping differs from the recorded finding)'),
                                                key='sumshape:%s:%s' % (wa, cn))))
    results.append(reach_twin('sums %s' % wa, A))
    return {'results': results, 'encoded': loader.ENCODED, 'axioms': CTX.axiom_notes, 'label': 'sum %s static=%s' % (wa, use_static)}


def job_limits(kind):
    v = setup()
    A = [v['n'].re > 0, v['a'].re > 0]
    results = []
    cI, sI = atoms.base(('I',))
    if kind == 'zero_obliquity':
        # general / medium obliquity variants at I = 0 equal the no-obliquity variant exactly
        for wa, wb in (('nsr_med_eccen_gen_obliquity', 'nsr_med_eccen_no_obliquity'), ('nsr_modes_med_eccen_gen_obliquity', 'nsr_modes_med_eccen_no_obliquity'),
                       ('nsr_med_eccen_med_obliquity', 'nsr_med_eccen_no_obliquity'), ('nsr_modes_med_eccen_med_obliquity', 'nsr_modes_med_eccen_no_obliquity')):
            for st in (False,):
                sa = _sum_modes(run(wa, v, use_static=st, obliquity=Q(0))[2])
                sb = _sum_modes(run(wb, v, use_static=st)[2])
                for i, cn in enumerate(COMP):
                    results.append(discharge(Obligation('%s at obliquity 0 == %s [%s]' % (wa, wb, cn), eq_goal(sa[i], sb[i]), A,
                                                        replay=_replay_sum(wa, wb, st, I=0.0, what=cn + ' at I=0'), key='limI0:%s:%s' % (wa, cn))))
    elif kind == 'second_order_obliquity':
        # The medium-obliquity files are joint expansions in (e, I) of total order 3 (terms e^3, e^2 I, e I^2, I^3 appear in their coefficient tables).
        # Claim checked: every joint Taylor coefficient e^a I^b of (medium - general) with b <= 2 and a + b <= 3 vanishes at (e, I) = (0, 0),
        # i.e. agreement to second order in obliquity inside the eccentricity truncation of the variant.
        rules_I = {cI.re: -sI * Fr(1, 2), sI.re: cI * Fr(1, 2), v['I'].re: Q(1)}
        rules_e = {v['e'].re: Q(1)}
        at0 = [(cI.re, z3.RealVal(1)), (sI.re, z3.RealVal(0)), (v['I'].re, z3.RealVal(0)), (v['e'].re, z3.RealVal(0))]
        A2 = A + [v['n'].re > Fr(1, 10 ** 10)]
        for wa, wb in (('nsr_med_eccen_med_obliquity', 'nsr_med_eccen_gen_obliquity'), ('nsr_modes_med_eccen_med_obliquity', 'nsr_modes_med_eccen_gen_obliquity')):
            sa = _sum_modes(run(wa, v)[2])
            sb = _sum_modes(run(wb, v)[2])
            for i, cn in enumerate(COMP):
                dI = [sa[i] - sb[i]]
                for b in (1, 2):
                    dI.append(diff(dI[-1], rules_I))
                for b in range(3):
                    d = dI[b]
                    for a in range(0, 4 - b):
                        if a > 0:
                            d = diff(d, rules_e)
                        g = eq_goal(d.substitute(at0), Q(0))

                        def rp(md, i=i, a=a, b=b, wa=wa, wb=wb):
                            from symx.replay import call_real
                            pt = model_point(md)
                            out = []
                            for h in (2e-3, 1e-3):
                                p2 = dict(pt, e=h)
                                r = call_real([real_call(wa, p2, False, I=h), real_call(wb, p2, False, I=h)])
                                if not all(x['ok'] for x in r):
                                    return True, 'real call raised'
                                va = sum(_tuple_of(r[0]['value'], m)[i] for m in r[0]['value'][2])
                                vb = sum(_tuple_of(r[1]['value'], m)[i] for m in r[1]['value'][2])
                                out.append((va - vb, abs(va) + abs(vb)))
                            (d2, s2), (d1, s1) = out
                            if abs(d2) < 1e-13 * s2:
                                return False, 'difference below rounding noise: %r' % out
                            ratio = abs(d2) / max(abs(d1), 1e-300)
                            return ratio < 12.0, '%s - %s (%s) at e=I=2e-3 and 1e-3: %r ; ratio %.2f (a pure O(h^4) remainder gives 16, a wrong e^%d I^%d coefficient gives <= 8)' % (wa, wb, COMP[i], out, ratio, a, b)
                        results.append(discharge(Obligation('%s == %s: joint Taylor coefficient e^%d I^%d of the difference is 0 [%s]' % (wa, wb, a, b, cn), g, A2,
                                                            replay=rp, key='limI2:%s:%s:e%dI%d' % (wa, cn, a, b))))
    elif kind == 'synchronous':
        # non-synchronous, no obliquity, at spin = n equals synchronous_low_e through O(e): value and d/de of the difference vanish at e = 0
        rules = {v['e'].re: Q(1)}
        at0 = [(v['e'].re, z3.RealVal(0))]
        A = A + [v['n'].re > Fr(1, 10 ** 10)]
        for wa in ('nsr_med_eccen_no_obliquity', 'nsr_modes_med_eccen_no_obliquity'):
            sa = _sum_modes(run(wa, v, sync=True)[2])
            sb = _sum_modes(run('synchronous_low_e', v)[2])
            for i, cn in enumerate(COMP):
                d0 = sa[i] - sb[i]
                d1 = diff(d0, rules)
                for order, d in enumerate((d0, d1)):
                    g = eq_goal(d.substitute(at0), Q(0))

                    def rp(md, i=i, wa=wa):
                        from symx.replay import call_real
                        pt = model_point(md)
                        out = []
                        for ev in (1e-4, 2e-4):
                            p2 = dict(pt, e=ev)
                            r = call_real([real_call(wa, p2, False, sync=True), real_call('synchronous_low_e', p2, False)])
                            a = sum(_tuple_of(r[0]['value'], m)[i] for m in r[0]['value'][2])
                            b = sum(_tuple_of(r[1]['value'], m)[i] for m in r[1]['value'][2])
                            out.append((a, b))
                        bad = abs(out[0][0] - out[0][1]) > 1e-3 * (abs(out[0][1]) + 1e-30)
                        return bad, '%s(spin=n) vs synchronous_low_e (%s) at e=1e-4,2e-4: %r' % (wa, COMP[i], out)
                    results.append(discharge(Obligation('%s at spin=n == synchronous_low_e to first order in e (difference O(e^2)): order-%d coefficient [%s]' % (wa, order, cn), g, A,
                                                        replay=rp, key='limsync:%s:%s:%d' % (wa, cn, order))))
    elif kind == 'low_eccentricity':
        # nsr_modes_low_eccen_gen_obliquity is the first-order-in-e truncation of nsr_modes_med_eccen_gen_obliquity: coefficients e^0, e^1 of the
        # difference vanish for every obliquity (modes absent from the low-e file only carry O(e^2) terms)
        rules = {v['e'].re: Q(1)}
        at0 = [(v['e'].re, z3.RealVal(0))]
        A = A + [v['n'].re > Fr(1, 10 ** 10)]
        wa, wb = 'nsr_modes_low_eccen_gen_obliquity', 'nsr_modes_med_eccen_gen_obliquity'
        sa = _sum_modes(run(wa, v)[2])
        sb = _sum_modes(run(wb, v)[2])
        for i, cn in enumerate(COMP):
            d0 = sa[i] - sb[i]
            d1 = diff(d0, rules)
            for order, d in enumerate((d0, d1)):
                g = eq_goal(d.substitute(at0), Q(0))

                def rp(md, i=i, order=order):
                    from symx.replay import call_real
                    pt = model_point(md)
                    out = []
                    for ev in (2e-3, 1e-3):
                        p2 = dict(pt, e=ev)
                        r = call_real([real_call(wa, p2, False), real_call(wb, p2, False)])
                        a = sum(_tuple_of(r[0]['value'], m)[i] for m in r[0]['value'][2])
                        b = sum(_tuple_of(r[1]['value'], m)[i] for m in r[1]['value'][2])
                        out.append((a - b, abs(a) + abs(b)))
                    (d2, s2), (d1_, s1) = out
                    if abs(d2) < 1e-13 * s2:
                        return False, 'difference below rounding noise %r' % out
                    ratio = abs(d2) / max(abs(d1_), 1e-300)
                    return ratio < 3.0, '%s - %s (%s) at e=2e-3,1e-3: %r ratio %.2f (O(e^2) remainder gives 4; wrong e^0/e^1 coefficient gives <= 2)' % (wa, wb, COMP[i], out, ratio)
                results.append(discharge(Obligation('%s == %s to first order in e: order-%d coefficient of the difference is 0 for all obliquities [%s]' % (wa, wb, order, cn), g, A,
                                                    replay=rp, key='limlowe:%s:%d' % (cn, order))))
    results.append(reach_twin('limits %s' % kind, A))
    return {'results': results, 'encoded': loader.ENCODED, 'axioms': CTX.axiom_notes, 'label': 'limits %s' % kind}


def main():
    jobs = []
    for w in FILES:
        jobs.append((job_derivs, {'which': w, 'use_static': False}))
        if w != 'synchronous_low_e':
            jobs.append((job_derivs, {'which': w, 'use_static': True}))
    for p in PAIRS:
        jobs.append((job_sums, {'pair': p, 'use_static': False}))
        jobs.append((job_sums, {'pair': p, 'use_static': True}))
    for k in ('zero_obliquity', 'second_order_obliquity', 'synchronous', 'low_eccentricity'):
        jobs.append((job_limits, {'kind': k}))
    meta = {
        'explanation': 'All eight tidal_potential implementations are executed from the current source on symbols; cos/sin of integer combinations of the base angles '
                       '(theta, phi, n t, spin t, I/2) are expanded by de Moivre over atom pairs with c^2+s^2=1. The partial derivatives are computed by differentiating the ENCODING '
                       '(chain rule over the atoms) and z3 decides equality with the returned derivative components, the Laplace identity, modal-sum == non-modal, and the limit relations '
                       '(order-k Taylor coefficient of the difference at I=0 / e=0 obtained by differentiating the encoding).',
        'bounds': 'all 8 files, all modes, use_static False and True; mode switches (|mode| > MIN_SPIN_ORBITAL_DIFF) are kept as symbolic conditions; n > 0.',
        'outside': 'floating-point rounding; behaviour for n <= 0.',
        'assumptions': ['orbital frequency n > 0', 'semi-major axis > 0'],
    }
    solve.run_check(PID, jobs, meta)


if __name__ == '__main__':
    main()
