"""C04 — start-radius / starting-family independence: the span of the analytic starting vectors is invariant under the solver's own ODE flow in a uniform sphere;
the truncated series (phi, psi, z Taylor branch) equal the exact series to their stated order; the driver dispatches each layer kind to the matching family."""
import sys, os, math, re, itertools, ast
sys.path.insert(0, os.path.dirname(os.path.dirname(os.path.abspath(__file__))))
import z3
from fractions import Fraction as Fr
from symx.values import Q, B, CTX, eq_goal
from symx import loader, solve, replay, atoms, pyx2py
from symx.diff import diff
from symx.pyx2py import CArr, Ptr
from symx.npshim import set_pi
from symx.solve import Obligation, discharge, reach_twin, TIER, REPO
import rs

PID = 'C04'
ST = 'TidalPy/RadialSolver/starting/'
FAMILIES = {
    'kamata_solid_dynamic_compressible': ('kamata.pyx', 'cf_kamata_solid_dynamic_compressible', 'SolidDynamicCompressible', 3),
    'kamata_solid_static_compressible': ('kamata.pyx', 'cf_kamata_solid_static_compressible', 'SolidStaticCompressible', 3),
    'kamata_solid_dynamic_incompressible': ('kamata.pyx', 'cf_kamata_solid_dynamic_incompressible', 'SolidDynamicIncompressible', 3),
    'kamata_liquid_dynamic_compressible': ('kamata.pyx', 'cf_kamata_liquid_dynamic_compressible', 'LiquidDynamicCompressible', 2),
    'kamata_liquid_dynamic_incompressible': ('kamata.pyx', 'cf_kamata_liquid_dynamic_incompressible', 'LiquidDynamicIncompressible', 2),
    'takeuchi_solid_dynamic_compressible': ('takeuchi.pyx', 'cf_takeuchi_solid_dynamic_compressible', 'SolidDynamicCompressible', 3),
    'takeuchi_solid_static_compressible': ('takeuchi.pyx', 'cf_takeuchi_solid_static_compressible', 'SolidStaticCompressible', 3),
    'takeuchi_liquid_dynamic_compressible': ('takeuchi.pyx', 'cf_takeuchi_liquid_dynamic_compressible', 'LiquidDynamicCompressible', 2),
    'saito_liquid_static': ('saito.pyx', 'cf_saito_liquid_static_inccompressible', 'LiquidStaticIncompressible', 1),
}


def det(M):
    n = len(M)
    if n == 1:
        return M[0][0]
    if n == 2:
        return M[0][0] * M[1][1] - M[0][1] * M[1][0]
    tot = Q(0)
    for j in range(n):
        minor = [row[:j] + row[j + 1:] for row in M[1:]]
        term = M[0][j] * det(minor)
        tot = tot + term if j % 2 == 0 else tot - term
    return tot


class Harness:
    """executes one starting-condition family from the current source on symbols (formal-indeterminate mode) for a homogeneous sphere"""

    def __init__(self, fam, l, transform=None):
        self.fam, self.l = fam, l
        file, fname, self.ode, self.nsol = FAMILIES[fam]
        self.pi = set_pi()
        self.G = Q.sym('G')
        self.r, self.rho, self.K, self.mu, self.w = [Q.sym(x) for x in ('r', 'rho', 'K', 'mu', 'w')]
        self.Z = []           # (atom, argument)
        self.sq = []          # (atom, argument)
        self.phi = []         # (phi atom, phi_{l+1} atom, argument)
        ns = {'pi': self.pi, 'cf_z_calc': self._z, 'cf_csqrt': self._sqrt, 'cf_takeuchi_phi_psi': self._phipsi}
        fns, _ = loader.load_pyx(ST + file, [fname], ns, transform=transform)
        src = open(os.path.join(REPO, ST + file)).read()
        _, argnames = pyx2py._conv_header(pyx2py.find_function(src, fname)[0])
        self.nys = 2 * self.nsol
        out = CArr((18,), 'starting_conditions')
        vals = {'frequency': self.w, 'radius': self.r, 'density': self.rho, 'bulk_modulus': self.K, 'shear_modulus': self.mu, 'degree_l': l, 'G_to_use': self.G,
                'num_ys': self.nys, 'starting_conditions_ptr': Ptr(out, 0), 'initial_conditions_ptr': Ptr(out, 0)}
        fns[fname](*[vals[a] for a in argnames])
        self.s = [[Q.of(out.data[j * self.nys + i]) for i in range(self.nys)] for j in range(self.nsol)]
        self.pos = [x.re > 0 for x in (self.r, self.rho, self.K, self.G, self.w)] + [self.mu.re != 0]
        self.side = []
        for a, arg in self.sq:
            self.side.append(eq_goal(a * a, arg))
        # derivative rules
        l_ = l
        rules = {self.r.re: Q(1)}
        for a, x2 in self.Z:
            dx2 = diff(x2, {self.r.re: Q(1)})
            rules[a.re] = (x2 + a * a - (2 * l_ + 1) * a) / (2 * x2) * dx2          # Riccati form of the spherical-Bessel recurrences for z = x j_{l+1}/j_l
        for p, p1, u in self.phi:
            du = diff(u, {self.r.re: Q(1)})
            rules[p.re] = -p1 / (2 * (2 * l_ + 3)) * du                                # d phi_l/du = -phi_{l+1} / (2(2l+3))
            rules[p1.re] = -Fr(2 * l_ + 3, 2) * (p1 - p) / u * du                     # d phi_{l+1}/du = -(2l+3)(phi_{l+1} - phi_l)/(2u)
        self.rules = rules

    def _z(self, x2, degree_l=None):
        a = Q.sym('Z%d' % len(self.Z))
        self.Z.append((a, Q.of(x2)))
        return a

    def _sqrt(self, x):
        a = Q.sym('S%d' % len(self.sq))
        self.sq.append((a, Q.of(x)))
        return a

    def _phipsi(self, z2, degree_l, phi_ptr, phi1_ptr, psi_ptr):
        p, p1 = Q.sym('phi%d' % len(self.phi)), Q.sym('phip1_%d' % len(self.phi))
        self.phi.append((p, p1, Q.of(z2)))
        phi_ptr[0] = p
        phi1_ptr[0] = p1
        psi_ptr[0] = 2 * (2 * self.l + 3) * (1 - p) / Q.of(z2)                        # psi_l = 2(2l+3)(1 - phi_l)/x^2  (TS72)

    def residual(self, j):
        gam = 4 * self.pi * self.G * self.rho / 3
        ds = [diff(self.s[j][i], self.rules) for i in range(self.nys)]
        As = rs.ode_rhs(self.ode, self.s[j], self.r, self.rho, gam * self.r, self.mu, self.K, self.w, 4 * self.pi * self.G, self.l, formal=True)
        return [ds[i] - As[i] for i in range(self.nys)]


# ---- numeric replay (float evaluation of the transliterated current source with exact special functions)
def numeric_span_residual(fam, l, j, radius=0.35, transform=None):
    import numpy as np
    import mpmath as mp
    file, fname, ode, nsol = FAMILIES[fam]
    nys = 2 * nsol
    p = dict(w=0.9, rho=1.7, K=6.0, mu=complex(2.2, 0.0), G=0.31)

    def z_calc(x2, degree_l=None):
        x = mp.sqrt(mp.mpc(complex(x2)))
        jl = lambda n, x_: mp.sqrt(mp.pi / (2 * x_)) * mp.besselj(n + 0.5, x_)
        return complex(x * jl(l + 1, x) / jl(l, x))

    def phipsi(z2, degree_l, a, b, c):
        x = mp.sqrt(mp.mpc(complex(z2)))
        jl = lambda n, x_: mp.sqrt(mp.pi / (2 * x_)) * mp.besselj(n + 0.5, x_)
        dfac = lambda n: mp.fac2(n)
        ph = complex(dfac(2 * l + 1) * jl(l, x) / x ** l)
        ph1 = complex(dfac(2 * l + 3) * jl(l + 1, x) / x ** (l + 1))
        a[0], b[0] = ph, ph1
        c[0] = 2 * (2 * l + 3) * (1 - ph) / complex(z2)
    import cmath
    ns = {'cf_z_calc': z_calc, 'cf_csqrt': cmath.sqrt, 'cf_takeuchi_phi_psi': phipsi}
    fns, _ = loader.load_pyx(ST + file, [fname], ns, float_mode=True, transform=transform)
    src = open(os.path.join(REPO, ST + file)).read()
    _, argnames = pyx2py._conv_header(pyx2py.find_function(src, fname)[0])

    def vecs(rr):
        out = [None] * 18
        vals = {'frequency': p['w'], 'radius': rr, 'density': p['rho'], 'bulk_modulus': p['K'], 'shear_modulus': p['mu'], 'degree_l': l, 'G_to_use': p['G'], 'num_ys': nys,
                'starting_conditions_ptr': out, 'initial_conditions_ptr': out}
        fns[fname](*[vals[a] for a in argnames])
        return [[complex(out[jj * nys + i]) for i in range(nys)] for jj in range(nsol)]
    h = 1e-5 * radius
    s0, sp, sm = vecs(radius), vecs(radius + h), vecs(radius - h)
    gam = 4 * math.pi * p['G'] * p['rho'] / 3
    ds = [(sp[j][i] - sm[j][i]) / (2 * h) for i in range(nys)]
    As = rs.ode_rhs(ode, s0[j], radius, p['rho'], gam * radius, p['mu'], p['K'], p['w'], 4 * math.pi * p['G'], l, float_mode=True)
    res = np.array([ds[i] - As[i] for i in range(nys)])
    basis = np.array([s0[j]] + ([s0[nsol - 1]] if nsol > 1 and j != nsol - 1 else [])).T
    coef, *_ = np.linalg.lstsq(basis, res, rcond=None)
    left = res - basis @ coef
    scale = np.linalg.norm(np.array(As)) + np.linalg.norm(np.array(ds)) + 1e-300
    return float(np.linalg.norm(left) / scale)


class _OwnY5(ast.NodeTransformer):
    """the recorded Takeuchi defect factored out: READS `starting_conditions_ptr[0 * num_ys + 4]` / `[1 * num_ys + 4]` (the y5 of solution slot 0 / 1, hard-coded) become
    `[pos_index * num_ys + 4]` / `[neg_index * num_ys + 4]` (the solution's own y5). Nothing else of the function is touched."""
    def __init__(self):
        self.n = 0

    def visit_Subscript(self, node):
        self.generic_visit(node)
        if isinstance(node.ctx, ast.Load) and getattr(node.value, 'id', None) == 'starting_conditions_ptr':
            txt = ast.unparse(node.slice).replace(' ', '')
            for lit, nm in (('0*num_ys+4', 'pos_index'), ('1*num_ys+4', 'neg_index')):
                if txt == lit:
                    self.n += 1
                    node.slice = ast.parse('%s * num_ys + 4' % nm, mode='eval').body
        return node


def job_span(fam, l, own_y5=False):
    tr = _OwnY5() if own_y5 else None
    H = Harness(fam, l, transform=(lambda node: tr.visit(node)) if tr else None)
    if own_y5:
        # separate obligations (own keys): with the recorded defect factored out the family must be regular, so that any OTHER change to these functions is still reported
        fam_tag = fam + ' [recorded y6/y5 index defect factored out: %d reads rewritten]' % tr.n
    else:
        fam_tag = fam
    fkey = fam + ('+own_y5' if own_y5 else '')
    n, nys = H.nsol, H.nys
    results = []
    A = H.pos + H.side
    pivot = {6: (2, 4), 4: (0, 2), 2: (0,)}[nys]
    last = n - 1
    for j in range(n):
        res = H.residual(j)

        def rp(md, j=j):
            try:
                v = numeric_span_residual(fam, l, j, transform=(lambda node: _OwnY5().visit(node)) if own_y5 else None)
            except Exception as e:
                return True, 'numeric replay failed to run: %r' % e
            return v > 1e-6, '%s l=%d solution %d: relative distance of (ds/dr - A s) from span{s_j, s_last} = %.3e at r=0.35 (float evaluation of the transliterated current source, exact Bessel functions)' % (fam, l, j, v)
        if j == last or n == 1:
            # power-law solution: residual parallel to the vector itself
            conds = []
            p0 = pivot[0]
            for i in range(nys):
                if i != p0:
                    conds.append(eq_goal(H.s[j][p0] * res[i] - H.s[j][i] * res[p0], Q(0)))
            results.append(discharge(Obligation('%s l=%d: solution %d (power-law): ds/dr - A s is parallel to s (all 2x2 minors with the pivot row vanish)' % (fam_tag, l, j), z3.And(*conds), A, replay=rp,
                                                key='span:%s:sol%d' % (fkey, j), timeout_ms=solve.qtimeout(60, 300))))
            tw = reach_twin('%s l=%d sol %d pivot non-zero' % (fam, l, j), A + [z3.Not(eq_goal(H.s[j][p0], Q(0)))], timeout_ms=60000)
            results.append(tw)
        else:
            for i in range(nys):
                if i in pivot:
                    continue
                M = [[H.s[j][a], H.s[last][a], res[a]] for a in (pivot[0], pivot[1], i)]
                results.append(discharge(Obligation('%s l=%d: solution %d: ds/dr - A s lies in span{s_%d, s_%d}: 3x3 minor rows (y%s) vanishes' % (fam_tag, l, j, j, last, ','.join(str(a + 1) for a in (pivot[0], pivot[1], i))),
                                                    eq_goal(det(M), Q(0)), A, replay=rp, key='span:%s:sol%d' % (fkey, j), timeout_ms=solve.qtimeout(60, 300))))
            piv = det([[H.s[j][a], H.s[last][a]] for a in pivot])
            results.append(reach_twin('%s l=%d sol %d pivot minor non-zero' % (fam, l, j), A + [z3.Not(eq_goal(piv, Q(0)))], timeout_ms=60000))
    return {'results': results, 'encoded': loader.ENCODED, 'axioms': CTX.axiom_notes + ['z = x j_{l+1}/j_l atom with dz/d(x^2) = (x^2 + z^2 - (2l+1) z)/(2 x^2)',
                                                                                       'phi_l, phi_{l+1} atoms with d phi_l/du = -phi_{l+1}/(2(2l+3)), d phi_{l+1}/du = -(2l+3)(phi_{l+1}-phi_l)/(2u); psi_l = 2(2l+3)(1-phi_l)/u',
                                                                                       'csqrt atom S with S^2 = argument'], 'label': 'span %s l=%d' % (fam, l)}


# ---- series obligations
def exact_phi(l, N):
    """phi_l(u) = sum_n (-1)^n u^n / (2^n n! prod_{k=1..n}(2l+2k+1))"""
    out = []
    for n in range(N + 1):
        d = Fr(2 ** n * math.factorial(n))
        for k in range(1, n + 1):
            d *= (2 * l + 2 * k + 1)
        out.append(Fr((-1) ** n) / d)
    return out


def exact_z(l, N):
    """Taylor coefficients a_n (n=1..N) of z(u) = x j_{l+1}/j_l, u = x^2, from the Riccati rule: a_n (2n + 2l + 1) = delta_{n1} + sum_{i<n} a_i a_{n-i}"""
    a = {0: Fr(0)}
    for n in range(1, N + 1):
        s = Fr(1 if n == 1 else 0) + sum(a[i] * a[n - i] for i in range(1, n))
        a[n] = s / (2 * n + 2 * l + 1)
    return [a[n] for n in range(N + 1)]


def job_series(l):
    u = Q.sym('u')
    fns, _ = loader.load_pyx(ST + 'common.pyx', ['cf_takeuchi_phi_psi', 'cf_z_calc'], {'cf_cabs': lambda x: Q(0), 'cf_csqrt': None, 'spherical_jn': None})
    a, b, c = [None], [None], [None]
    fns['cf_takeuchi_phi_psi'](u, l, a, b, c)
    N = 5
    results = []
    phi_l, phi_l1 = exact_phi(l, N + 1), exact_phi(l + 1, N + 1)
    psi = [2 * (2 * l + 3) * (-phi_l[n + 1]) for n in range(N + 1)]      # psi = 2(2l+3)(1-phi)/u
    for nm, got, want in (('phi_l', a[0], phi_l), ('phi_{l+1}', b[0], phi_l1), ('psi_l', c[0], psi)):
        poly = Q(0)
        for n in range(N + 1):
            poly = poly + want[n] * u ** n

        def rp(md, nm=nm, want=want):
            uu = 0.3
            f2, _ = loader.load_pyx(ST + 'common.pyx', ['cf_takeuchi_phi_psi'], {}, float_mode=True)
            x, y, z = [None], [None], [None]
            f2['cf_takeuchi_phi_psi'](complex(uu), l, x, y, z)
            val = {'phi_l': x[0], 'phi_{l+1}': y[0], 'psi_l': z[0]}[nm]
            ex = sum(float(want[n]) * uu ** n for n in range(len(want)))
            return abs(val - ex) > 1e-12, '%s(u=0.3) = %r, exact series through u^5 = %r' % (nm, val, ex)
        results.append(discharge(Obligation('l=%d: truncated series of %s equals the exact Taylor series through order u^%d (identity of polynomials)' % (l, nm, N), eq_goal(Q.of(got), poly), [],
                                            replay=rp, key='series:%s' % nm)))
    # z Taylor branch (|x^2| <= 0.1): cf_cabs stubbed to 0 selects that branch
    zt = Q.of(fns['cf_z_calc'](u, l))
    zc = exact_z(l, 5)
    polyz = Q(0)
    for n in range(1, 6):
        polyz = polyz + zc[n] * u ** n

    def rpz(md):
        f2, _ = loader.load_pyx(ST + 'common.pyx', ['cf_z_calc'], {'cf_cabs': abs}, float_mode=True)
        uu = 0.09
        val = f2['cf_z_calc'](complex(uu), l)
        import mpmath as mp
        x = mp.sqrt(uu)
        jl = lambda n, x_: mp.sqrt(mp.pi / (2 * x_)) * mp.besselj(n + 0.5, x_)
        ex = complex(x * jl(l + 1, x) / jl(l, x))
        fifth = sum(float(zc[n]) * uu ** n for n in range(1, 6))
        return abs(val - fifth) > 1e-9 * abs(fifth), 'cf_z_calc Taylor branch at x^2=0.09, l=%d: %r ; exact 5-term series %r ; exact function %r (relative error of the branch %.2e vs %.2e for the correct series)' % (
            l, val, fifth, ex, abs(val - ex) / abs(ex), abs(fifth - ex) / abs(ex))
    results.append(discharge(Obligation('l=%d: Taylor branch of cf_z_calc equals the exact series of z in x^2 through order (x^2)^5' % l, eq_goal(zt, polyz), [], replay=rpz, key='series:z_taylor')))
    # z Bessel branch (|x^2| > 0.1): spherical_jn is an uninterpreted function of (order, argument), cf_csqrt an atom S with S^2 = x^2; the branch must be S j_{l+1}(S) / j_l(S)
    S = Q.sym('sqrt_x2')
    J = {}

    def sph(n, x):
        n = int(Q.of(n).const()) if not isinstance(n, int) else n
        J.setdefault(n, Q.sym('spherical_jn_%d' % n))
        return J[n]
    fb, _ = loader.load_pyx(ST + 'common.pyx', ['cf_z_calc'], {'cf_cabs': lambda x: Q(1), 'cf_csqrt': lambda x: S, 'spherical_jn': sph})
    zb = Q.of(fb['cf_z_calc'](u, l))
    okk = (l in J) and (l + 1 in J)

    def rpb(md):
        import mpmath as mp
        f2, _ = loader.load_pyx(ST + 'common.pyx', ['cf_z_calc'], {'cf_cabs': abs, 'cf_csqrt': lambda x: complex(mp.sqrt(x)),
                                                                     'spherical_jn': lambda n, x: complex(mp.sqrt(mp.pi / (2 * x)) * mp.besselj(n + 0.5, x))}, float_mode=True)
        uu = 0.7 + 0.2j
        val = f2['cf_z_calc'](uu, l)
        x = mp.sqrt(uu)
        jl = lambda n, x_: mp.sqrt(mp.pi / (2 * x_)) * mp.besselj(n + 0.5, x_)
        ex = complex(x * jl(l + 1, x) / jl(l, x))
        # compiled module (only when in sync): z enters the Kamata starting vectors; compare through the public find_starting_conditions is not possible for z alone, so the source is authoritative
        return abs(val - ex) > 1e-9 * abs(ex), 'cf_z_calc Bessel branch (transliterated current source, float mode) at x^2=%r, l=%d: %r ; x j_{l+1}(x)/j_l(x) = %r' % (uu, l, val, ex)
    results.append(discharge(Obligation('l=%d: Bessel branch of cf_z_calc (|x^2| > 0.1) is sqrt(x^2) * j_{l+1}(sqrt(x^2)) / j_l(sqrt(x^2))' % l,
                                        eq_goal(zb, S * J[l + 1] / J[l]) if okk else z3.BoolVal(False), [J[l].re != 0] if okk else [], replay=rpb, key='series:z_bessel')))
    return {'results': results, 'encoded': loader.ENCODED, 'label': 'series l=%d' % l}


def job_driver():
    """cf_find_starting_conditions sends every (layer_type, is_static, is_incompressible, use_kamata) to a family whose ODE class is the one cf_build_solver selects"""
    calls = []

    def mk(name):
        def f(*a, **k):
            calls.append(name)
        return f
    names = [v[1] for v in FAMILIES.values()]
    ns = {n: mk(n) for n in names}
    ns['NAN'] = None

    class Stop(Exception):
        pass
    fns, _ = loader.load_pyx(ST + 'driver.pyx', ['cf_find_starting_conditions'], ns)
    src = open(os.path.join(REPO, ST + 'driver.pyx')).read()
    _, argnames = pyx2py._conv_header(pyx2py.find_function(src, 'cf_find_starting_conditions')[0])
    results = []
    want_cls = {(0, False, False): 'SolidDynamicCompressible', (0, False, True): 'SolidDynamicIncompressible', (0, True, False): 'SolidStaticCompressible', (0, True, True): 'SolidStaticIncompressible',
                (1, False, False): 'LiquidDynamicCompressible', (1, False, True): 'LiquidDynamicIncompressible', (1, True, False): 'LiquidStaticCompressible', (1, True, True): 'LiquidStaticIncompressible'}
    fam_cls = {v[1]: v[2] for v in FAMILIES.values()}
    table = []
    for lt, st, inc, kam in itertools.product((0, 1), (False, True), (False, True), (False, True)):
        calls.clear()
        vals = {'layer_type': lt, 'is_static': st, 'is_incompressible': inc, 'use_kamata': kam, 'frequency': 1.0, 'radius': 1.0, 'density': 1.0, 'bulk_modulus': 1.0, 'shear_modulus': 1.0,
                'degree_l': 2, 'G_to_use': 1.0, 'num_ys': 6, 'starting_conditions_ptr': [None] * 18, 'run_y_checks': False, 'max_num_y': 6}
        err = None
        try:
            fns['cf_find_starting_conditions'](*[vals.get(a, None) for a in argnames])
        except Exception as e:
            err = type(e).__name__
        table.append(((lt, st, inc, kam), list(calls), err))
    ok = []
    notes = []
    for (lt, st, inc, kam), cs, err in table:
        want = want_cls[(lt, st, inc)]
        if err is not None:
            notes.append('%r raises %s' % ((lt, st, inc, kam), err))
            continue
        good = len(cs) == 1 and (fam_cls[cs[0]] == want or (fam_cls[cs[0]].startswith('LiquidStatic') and want.startswith('LiquidStatic')))
        ok.append(good)
        if not good:
            notes.append('%r -> %r but the solver integrates %s' % ((lt, st, inc, kam), cs, want))
    results.append(discharge(Obligation('driver dispatch: every supported (type, static, incompressible, use_kamata) calls exactly one family, the one matching the ODE class the solver integrates (%d combinations reach a family, %d raise NotImplemented)' % (
        len(ok), sum(1 for t in table if t[2])), z3.BoolVal(all(ok) and len(ok) >= 8), [], with_axioms=False, with_dens=False,
        replay=lambda md: (True, 'dispatch mismatch: %s' % '; '.join(notes)), key='driver')))
    return {'results': results, 'encoded': loader.ENCODED, 'notes': notes, 'label': 'driver'}


def main():
    ls = list(range(2, 11)) if TIER == 'thorough' else [2, 3]
    jobs = []
    for fam in FAMILIES:
        for l in ls:
            jobs.append((job_span, {'fam': fam, 'l': l}))
            if fam in ('takeuchi_solid_dynamic_compressible', 'takeuchi_solid_static_compressible'):
                jobs.append((job_span, {'fam': fam, 'l': l, 'own_y5': True}))
    for l in ls:
        jobs.append((job_series, {'l': l}))
    jobs.append((job_driver, {}))
    # the starting conditions call cf_csqrt (through cf_z_calc) where this check uses the mathematical square root: the kernel itself must be the principal root (C20's obligation, shared)
    import c20
    jobs.append((c20.job_real, {}))
    meta = {
        'explanation': 'Every starting-condition function (Kamata, Takeuchi-Saito, Saito) is transliterated from the current .pyx and executed for a homogeneous sphere (g = 4 pi G rho r / 3) on symbols in '
                       'formal-indeterminate mode. z = x j_{l+1}/j_l and phi_l, phi_{l+1} are atoms carrying their derivation rules (Riccati form of the Bessel recurrences); the complex square root of the '
                       'characteristic discriminant is an atom S with S^2 = its argument. The derivative of each starting vector along r is obtained by differentiating the encoding, the matching diffeq is executed on '
                       'the vector, and z3 decides that the residual ds/dr - A s lies in span{s_j, s_last} (3x3 minors with a pivot pair of rows; 2x2 for the power-law solution) - exactly what independence of the start '
                       'radius needs. The truncated series are compared with the exact series as polynomial identities; the driver dispatch table is executed for all 16 flag combinations.',
        'bounds': 'degree l in %s; homogeneous sphere; nine families.' % ls,
        'outside': 'truncation error of the phi/psi series beyond u^5 (validity radius); accuracy of scipy spherical_jn; the integrator.',
        'assumptions': ['r, rho, K, G, w > 0; mu != 0'],
        'stubs': ['cf_z_calc, cf_takeuchi_phi_psi, cf_csqrt replaced by atoms with their defining relations'],
    }
    solve.run_check(PID, jobs, meta)


if __name__ == '__main__':
    main()
