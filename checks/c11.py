"""C11 — spin-orbit evolution rates conserve energy and angular momentum; de/dt is 0 (not NaN) at e=0; arrays == scalars."""
import sys, os, ast, math
sys.path.insert(0, os.path.dirname(os.path.dirname(os.path.abspath(__file__))))
import z3
from fractions import Fraction as Fr
from symx.values import Q, B, CTX, eq_goal
from symx import loader, solve, replay, atoms, fp
from symx.npshim import NP, obj_array
from symx.solve import Obligation, discharge, reach_twin, TIER, REPO

PID = 'C11'
SD = 'TidalPy/dynamics/single_dissipation.py'
DD = 'TidalPy/dynamics/dual_dissipation.py'
S_NAMES = ['spin_rate_derivative', 'semi_major_axis_derivative', 'eccentricity_derivative', 'semia_eccen_derivatives']
D_NAMES = ['semi_major_axis_derivative', 'eccentricity_derivative', 'semia_eccen_derivatives']
FLOAT_EPS = Fr('2.220446049250313e-16')


def float_eps():
    c = loader.module_constants('TidalPy/utilities/types.py')
    v = c.get('float_eps')
    return v if isinstance(v, Fr) else FLOAT_EPS


def syms():
    v = {k: Q.sym(k) for k in ('a', 'n', 'e', 'm1', 'm2', 'C1', 'C2', 'O1', 'O2', 'G', 'dM1', 'dw1', 'dO1', 'dM2', 'dw2', 'dO2')}
    A = [v[k].re > 0 for k in ('a', 'n', 'm1', 'm2', 'C1', 'C2', 'G')] + [v['e'].re > 0, v['e'].re < 1]
    kepler = eq_goal(v['n'] * v['n'] * v['a'] ** 3, v['G'] * (v['m1'] + v['m2']))
    return v, A, kepler


def num(md, k, d=1.0):
    x = md.get(k)
    return float(x) if x is not None else d



_API_CACHE = {}


def api_replay(keys, note):
    """public-API replay: quick_tidal_dissipation / quick_dual_body_tidal_dissipation at generic points (replay/c11_api.py); reproduces iff one of the named residuals is > 1e-9"""
    def rp(md):
        import subprocess, tempfile, json as _json
        if 'r' not in _API_CACHE:
            with tempfile.TemporaryDirectory(prefix='verif_c11_') as td:
                env = dict(os.environ)
                env['PYTHONPATH'] = REPO
                p = subprocess.run([replay.VENV_PY, os.path.join(solve.VERIF, 'replay', 'c11_api.py')], capture_output=True, text=True, cwd=td, env=env, timeout=900)
            if '@@RESULT@@' not in p.stdout:
                return False, 'c11_api runner failed: %s' % p.stderr[-500:]
            _API_CACHE['r'] = _json.loads(p.stdout.split('@@RESULT@@')[-1])
        r = _API_CACHE['r']
        if not r.get('ok'):
            return True, 'public API raised: %s' % r.get('error')
        w = r['worst']
        bad = {k: w[k] for k in keys if w.get(k, 0.0) > 1e-9}
        return bool(bad), '%s; public-API residuals (relative): %r' % (note, {k: w.get(k) for k in keys})
    return rp


def replay_single(kind):
    def rp(md):
        G = 6.6743e-11
        m1, m2 = num(md, 'm1', 8e22), num(md, 'm2', 1.9e27)
        n = num(md, 'n', 2e-5)
        a = (G * (m1 + m2) / n ** 2) ** (1 / 3)
        e = min(max(num(md, 'e', 0.1), 1e-3), 0.9)
        dM, dw, dO = num(md, 'dM1', 1.3), num(md, 'dw1', 0.7), num(md, 'dO1', 0.7)
        C, O = num(md, 'C1', 1e35), num(md, 'O1', 3e-5)
        if kind == 'L':
            dw = dO
        mod = 'TidalPy.dynamics.single_dissipation'
        r = replay.call_real([{'module': mod, 'func': 'semia_eccen_derivatives', 'args': [a, n, e, m1, dM, dw, m2]},
                              {'module': mod, 'func': 'spin_rate_derivative', 'args': [dO, C, m2]},
                              {'module': mod, 'func': 'semi_major_axis_derivative', 'args': [a, n, m1, dM, m2]},
                              {'module': mod, 'func': 'eccentricity_derivative', 'args': [a, n, e, m1, dM, dw, m2]}])
        if not all(x['ok'] for x in r):
            return True, 'real call raised %r' % [x.get('error') for x in r]
        (da, de), dO_dt, da2, de2 = r[0]['value'], r[1]['value'], r[2]['value'], r[3]['value']
        if kind == 'E':
            lhs = G * m1 * m2 / (2 * a * a) * da + C * O * dO_dt
            rhs = -m2 * (n * dM - O * dO)
            return abs(lhs - rhs) > 1e-9 * (abs(lhs) + abs(rhs)), 'dE_orb/dt + C W dW/dt = %r, -heating = %r at a=%r n=%r e=%r' % (lhs, rhs, a, n, e)
        if kind == 'L':
            beta = m1 * m2 / (m1 + m2)
            s = math.sqrt(1 - e * e)
            dL = beta * (0.5 * n * a * da * s - n * a * a * e * de / s)
            return abs(dL + C * dO_dt) > 1e-9 * (abs(dL) + abs(C * dO_dt)), 'dL_orb/dt = %r, C dW/dt = %r' % (dL, C * dO_dt)
        if kind == 'same':
            return abs(da - da2) > 1e-12 * abs(da) or abs(de - de2) > 1e-12 * abs(de), 'combined (%r,%r) vs separate (%r,%r)' % (da, de, da2, de2)
    return rp


def job_single():
    eps = float_eps()
    fns, ns = loader.load_py(SD, S_NAMES, {'np': NP, 'float_eps': eps})
    v, A, kepler = syms()
    a, n, e, m1, m2 = v['a'], v['n'], v['e'], v['m1'], v['m2']
    A = A + [kepler, (n * a * a * e > eps).c]
    da, de = fns['semia_eccen_derivatives'](a, n, e, m1, v['dM1'], v['dw1'], m2)
    dO = fns['spin_rate_derivative'](v['dO1'], v['C1'], m2)
    results = []
    heating = m2 * (n * v['dM1'] - v['O1'] * v['dO1'])
    dE = v['G'] * m1 * m2 * da / (2 * a * a) + v['C1'] * v['O1'] * dO
    results.append(discharge(Obligation('single: d/dt(-G m1 m2/2a) + C W dW/dt == -M_host (n dUdM - W dUdO)  [under Kepler n^2 a^3 = G(m1+m2)]', eq_goal(dE, -heating), A,
                                        replay=replay_single('E'), key='single:energy')))
    # angular momentum at zero obliquity (dUdw == dUdO): s * (dL/dt + C dW/dt) == 0 with L = beta n a^2 s, s = sqrt(1-e^2), d(n a^2)/dt = n a da/dt / 2
    s = atoms.sqrt(1 - e * e)
    beta = m1 * m2 / (m1 + m2)
    da0, de0 = fns['semia_eccen_derivatives'](a, n, e, m1, v['dM1'], v['dO1'], m2)
    sdL = beta * (Fr(1, 2) * n * a * da0 * s * s - n * a * a * e * de0)
    results.append(discharge(Obligation('single: d/dt[beta sqrt(G(m1+m2) a (1-e^2))] + C dW/dt == 0 at zero obliquity (dUdw = dUdO)', eq_goal(sdL + s * v['C1'] * dO, Q(0)), A,
                                        replay=replay_single('L'), key='single:angmom')))
    da1 = fns['semi_major_axis_derivative'](a, n, m1, v['dM1'], m2)
    de1 = fns['eccentricity_derivative'](a, n, e, m1, v['dM1'], v['dw1'], m2)
    results.append(discharge(Obligation('single: semia_eccen_derivatives == (semi_major_axis_derivative, eccentricity_derivative)', z3.And(eq_goal(da, da1), eq_goal(de, de1)),
                                        A[:-2] + [n.re > 0], replay=replay_single('same'), key='single:combined')))
    # below the guard the eccentricity derivative is exactly 0 in real arithmetic
    A_lo = [x for x in A[:-2]] + [(n * a * a * e <= eps).c]
    results.append(discharge(Obligation('single: |n a^2 e| <= float_eps  =>  de/dt == 0 (real arithmetic)', eq_goal(de, Q(0)), A_lo, replay=lambda md: (True, 'guard branch not zero'),
                                        key='single:guard')))
    results.append(reach_twin('single', A))
    return {'results': results, 'encoded': loader.ENCODED, 'axioms': CTX.axiom_notes, 'label': 'single'}


def replay_dual(kind):
    def rp(md):
        G = 6.6743e-11
        m1, m2 = num(md, 'm1', 8e22), num(md, 'm2', 1.9e27)
        n = num(md, 'n', 2e-5)
        a = (G * (m1 + m2) / n ** 2) ** (1 / 3)
        e = min(max(num(md, 'e', 0.1), 1e-3), 0.9)
        dM1, dw1, dO1, dM2, dw2, dO2 = (num(md, k, d) for k, d in (('dM1', 1.3), ('dw1', 0.7), ('dO1', 0.7), ('dM2', -0.4), ('dw2', 0.9), ('dO2', 0.9)))
        C1, C2, O1, O2 = num(md, 'C1', 1e35), num(md, 'C2', 3e36), num(md, 'O1', 3e-5), num(md, 'O2', 1e-5)
        if kind == 'L':
            dw1, dw2 = dO1, dO2
        mod = 'TidalPy.dynamics.dual_dissipation'
        r = replay.call_real([{'module': mod, 'func': 'semia_eccen_derivatives', 'args': [a, n, e, m1, dM1, dw1, m2, dM2, dw2]},
                              {'module': 'TidalPy.dynamics.single_dissipation', 'func': 'spin_rate_derivative', 'args': [dO1, C1, m2]},
                              {'module': 'TidalPy.dynamics.single_dissipation', 'func': 'spin_rate_derivative', 'args': [dO2, C2, m1]},
                              {'module': mod, 'func': 'semi_major_axis_derivative', 'args': [a, n, m1, dM1, m2, dM2]},
                              {'module': mod, 'func': 'eccentricity_derivative', 'args': [a, n, e, m1, dM1, dw1, m2, dM2, dw2]}])
        if not all(x['ok'] for x in r):
            return True, 'real call raised %r' % [x.get('error') for x in r]
        (da, de), s1, s2 = r[0]['value'], r[1]['value'], r[2]['value']
        if kind == 'E':
            lhs = G * m1 * m2 / (2 * a * a) * da + C1 * O1 * s1 + C2 * O2 * s2
            rhs = -(m2 * (n * dM1 - O1 * dO1) + m1 * (n * dM2 - O2 * dO2))
            return abs(lhs - rhs) > 1e-9 * (abs(lhs) + abs(rhs)), 'dual dE/dt total = %r, -heating = %r' % (lhs, rhs)
        if kind == 'L':
            beta = m1 * m2 / (m1 + m2)
            s = math.sqrt(1 - e * e)
            dL = beta * (0.5 * n * a * da * s - n * a * a * e * de / s)
            tot = dL + C1 * s1 + C2 * s2
            return abs(tot) > 1e-9 * (abs(dL) + abs(C1 * s1) + abs(C2 * s2)), 'dual dL/dt + sum C dW/dt = %r (dL=%r)' % (tot, dL)
        if kind == 'same':
            da2, de2 = r[3]['value'], r[4]['value']
            return abs(da - da2) > 1e-12 * abs(da) or abs(de - de2) > 1e-12 * abs(de), 'combined (%r,%r) vs separate (%r,%r)' % (da, de, da2, de2)
    return rp


def job_dual():
    eps = float_eps()
    fns, ns = loader.load_py(DD, D_NAMES, {'np': NP, 'float_eps': eps})
    sfn, _ = loader.load_py(SD, ['spin_rate_derivative'], {'np': NP, 'float_eps': eps})
    v, A, kepler = syms()
    a, n, e, m1, m2 = v['a'], v['n'], v['e'], v['m1'], v['m2']
    A = A + [kepler, (n * a * a * e > eps).c]
    da, de = fns['semia_eccen_derivatives'](a, n, e, m1, v['dM1'], v['dw1'], m2, v['dM2'], v['dw2'])
    sp1 = sfn['spin_rate_derivative'](v['dO1'], v['C1'], m2)
    sp2 = sfn['spin_rate_derivative'](v['dO2'], v['C2'], m1)
    heating = m2 * (n * v['dM1'] - v['O1'] * v['dO1']) + m1 * (n * v['dM2'] - v['O2'] * v['dO2'])
    dE = v['G'] * m1 * m2 * da / (2 * a * a) + v['C1'] * v['O1'] * sp1 + v['C2'] * v['O2'] * sp2
    results = [discharge(Obligation('dual: d/dt(orbital energy) + sum_i C_i W_i dW_i/dt == -(heating_1 + heating_2)', eq_goal(dE, -heating), A, replay=replay_dual('E'), key='dual:energy'))]
    s = atoms.sqrt(1 - e * e)
    beta = m1 * m2 / (m1 + m2)
    da0, de0 = fns['semia_eccen_derivatives'](a, n, e, m1, v['dM1'], v['dO1'], m2, v['dM2'], v['dO2'])
    sdL = beta * (Fr(1, 2) * n * a * da0 * s * s - n * a * a * e * de0)
    results.append(discharge(Obligation('dual: d/dt(orbital angular momentum) + sum_i C_i dW_i/dt == 0 at zero obliquity', eq_goal(sdL + s * (v['C1'] * sp1 + v['C2'] * sp2), Q(0)), A,
                                        replay=replay_dual('L'), key='dual:angmom')))
    da1 = fns['semi_major_axis_derivative'](a, n, m1, v['dM1'], m2, v['dM2'])
    de1 = fns['eccentricity_derivative'](a, n, e, m1, v['dM1'], v['dw1'], m2, v['dM2'], v['dw2'])
    results.append(discharge(Obligation('dual: semia_eccen_derivatives == separate functions', z3.And(eq_goal(da, da1), eq_goal(de, de1)), A[:-2] + [n.re > 0], replay=replay_dual('same'),
                                        key='dual:combined')))
    # dual with a non-dissipative second body reduces to the single-body functions
    sf, _ = loader.load_py(SD, ['semia_eccen_derivatives'], {'np': NP, 'float_eps': eps})
    das, des = sf['semia_eccen_derivatives'](a, n, e, m1, v['dM1'], v['dw1'], m2)
    dad, ded = fns['semia_eccen_derivatives'](a, n, e, m1, v['dM1'], v['dw1'], m2, Q(0), Q(0))
    results.append(discharge(Obligation('dual with dUdM_2 = dUdw_2 = 0 == single-body derivatives', z3.And(eq_goal(das, dad), eq_goal(des, ded)), A[:-2] + [n.re > 0],
                                        replay=replay_dual('same'), key='dual:reduces')))
    results.append(reach_twin('dual', A))
    return {'results': results, 'encoded': loader.ENCODED, 'axioms': CTX.axiom_notes, 'label': 'dual'}


def job_kepler_and_assembly():
    """orbital_motion2semi_a satisfies Kepler III; the result-assembly blocks of quick_tidal_dissipation / quick_dual_body_tidal_dissipation pass
    (a, n, e, masses, dUdM, dUdw) to the derivative functions in the order of their definitions (energy balance checked on the assembled dict)."""
    eps = float_eps()
    G = Q.sym('G')

    class BadValueError(Exception):
        pass
    cf, _ = loader.load_py('TidalPy/utilities/conversions/conversions.py', ['orbital_motion2semi_a', 'semi_a2orbital_motion'], {'np': NP, 'G': G, 'BadValueError': BadValueError})
    n, M, m = Q.sym('n'), Q.sym('M'), Q.sym('m')
    CTX.facts = [M.re > 0, m.re >= 0, n.re > 0, G.re > 0]
    from symx.explore import Explorer
    ex = Explorer(assumptions=CTX.facts)
    paths = ex.run(lambda: cf['orbital_motion2semi_a'](n, M, m))
    results = []
    ok_paths = [p for p in paths if p.exc is None]
    for p in ok_paths:
        a = p.result
        results.append(discharge(Obligation('orbital_motion2semi_a: n^2 a^3 == G (M + m)', eq_goal(n * n * a ** 3, G * (M + m)), CTX.facts + p.pc,
                                            replay=api_replay(['kepler:function'], 'Kepler III violated by orbital_motion2semi_a'), key='kepler')))
    results.append(discharge(Obligation('orbital_motion2semi_a: valid masses never raise', z3.BoolVal(len(ok_paths) == len(paths) and len(paths) >= 1), [], with_axioms=False, with_dens=False,
                                        replay=lambda md: (True, 'raised on valid input: %r' % [p.exc for p in paths]), key='kepler:noraise')))
    # --- assembly block of quick_tidal_dissipation
    sfn, _ = loader.load_py(SD, S_NAMES, {'np': NP, 'float_eps': eps})
    src = open(os.path.join(REPO, 'TidalPy/toolbox/quick_tides.py')).read()
    tree = ast.parse(src)
    fn = [x for x in tree.body if isinstance(x, ast.FunctionDef) and x.name == 'quick_tidal_dissipation'][0]
    blk = [x for x in fn.body if isinstance(x, ast.If) and 'calculate_orbit_spin_derivatives' in ast.get_source_segment(src, x.test)]
    if len(blk) != 1:
        raise RuntimeError('assembly block not found')
    loader.ENCODED.append({'file': 'TidalPy/toolbox/quick_tides.py', 'function': 'quick_tidal_dissipation: `if calculate_orbit_spin_derivatives` block', 'sha256_16': solve.sha_of(ast.get_source_segment(src, blk[0]))})
    v, A, kepler = syms()
    env = {'calculate_orbit_spin_derivatives': True, 'spin_rate_derivative': sfn['spin_rate_derivative'], 'semia_eccen_derivatives': sfn['semia_eccen_derivatives'],
           'dUdO': v['dO1'], 'target_moi': v['C1'], 'host_mass': v['m2'], 'semi_major_axis': v['a'], 'orbital_frequency': v['n'], 'eccentricity': v['e'],
           'target_mass': v['m1'], 'dUdM': v['dM1'], 'dUdw': v['dw1'], 'dspin_dt_scale': Q(1), 'de_dt_scale': Q(1), 'da_dt_scale': Q(1), 'dissipation_results': {}}
    env.update(loader.base_ns())
    mod = ast.Module(body=[loader._Rewrite(src).visit(blk[0])], type_ignores=[])
    ast.fix_missing_locations(mod)
    exec(compile(mod, 'quick_tides:assembly', 'exec'), env)
    dr = env['dissipation_results']
    A1 = A + [kepler, (v['n'] * v['a'] * v['a'] * v['e'] > eps).c]
    heating = v['m2'] * (v['n'] * v['dM1'] - v['O1'] * v['dO1'])
    dE = v['G'] * v['m1'] * v['m2'] * dr['semi_major_axis_derivative'] / (2 * v['a'] * v['a']) + v['C1'] * v['O1'] * dr['spin_rate_derivative']
    results.append(discharge(Obligation('quick_tidal_dissipation assembly: energy balance holds for the stored da/dt and dspin/dt', eq_goal(dE, -heating), A1,
                                        replay=api_replay(['single:energy', 'single:angmom', 'single:de'], 'assembly passes arguments in a different order'), key='assembly:single:energy')))
    da_ref, de_ref = sfn['semia_eccen_derivatives'](v['a'], v['n'], v['e'], v['m1'], v['dM1'], v['dw1'], v['m2'])
    results.append(discharge(Obligation('quick_tidal_dissipation assembly: stored de/dt == eccentricity_derivative(a,n,e,m_target,dUdM,dUdw,m_host)', eq_goal(dr['eccentricity_derivative'], de_ref), A1,
                                        replay=api_replay(['single:de', 'single:angmom'], 'assembly de/dt differs'), key='assembly:single:de')))
    # --- dual assembly: statements from the call of semia_eccen_derivatives_dual to the end
    dfn, _ = loader.load_py(DD, D_NAMES, {'np': NP, 'float_eps': eps})
    fn2 = [x for x in tree.body if isinstance(x, ast.FunctionDef) and x.name == 'quick_dual_body_tidal_dissipation'][0]
    idx = [i for i, x in enumerate(fn2.body) if isinstance(x, ast.Assign) and 'semia_eccen_derivatives_dual' in ast.get_source_segment(src, x)]
    if len(idx) != 1:
        raise RuntimeError('dual assembly not found')
    stmts = [x for x in fn2.body[idx[0]:] if not isinstance(x, ast.Return)]
    loader.ENCODED.append({'file': 'TidalPy/toolbox/quick_tides.py', 'function': 'quick_dual_body_tidal_dissipation: derivative assembly tail', 'sha256_16': solve.sha_of(''.join(ast.get_source_segment(src, x) for x in stmts))})
    env2 = {'semia_eccen_derivatives_dual': dfn['semia_eccen_derivatives'], 'semi_major_axis': v['a'], 'orbital_frequency': v['n'], 'eccentricity': v['e'],
            'masses': (v['m1'], v['m2']), 'de_dt_scale': Q(1), 'da_dt_scale': Q(1),
            'dissipation_results': {'host': {'dUdM': v['dM1'], 'dUdw': v['dw1']}, 'secondary': {'dUdM': v['dM2'], 'dUdw': v['dw2']}}}
    env2.update(loader.base_ns())
    mod2 = ast.Module(body=[loader._Rewrite(src).visit(x) for x in stmts], type_ignores=[])
    ast.fix_missing_locations(mod2)
    exec(compile(mod2, 'quick_tides:dual-assembly', 'exec'), env2)
    dr2 = env2['dissipation_results']
    # host = world 0 (mass m1) is raised by m2; spin rates are computed in the loop with host_mass = other body's mass
    heating2 = v['m2'] * (v['n'] * v['dM1'] - v['O1'] * v['dO1']) + v['m1'] * (v['n'] * v['dM2'] - v['O2'] * v['dO2'])
    sp1 = sfn['spin_rate_derivative'](v['dO1'], v['C1'], v['m2'])
    sp2 = sfn['spin_rate_derivative'](v['dO2'], v['C2'], v['m1'])
    dE2 = v['G'] * v['m1'] * v['m2'] * dr2['semi_major_axis_derivative'] / (2 * v['a'] * v['a']) + v['C1'] * v['O1'] * sp1 + v['C2'] * v['O2'] * sp2
    results.append(discharge(Obligation('quick_dual_body_tidal_dissipation assembly: energy balance holds for the stored da/dt', eq_goal(dE2, -heating2), A1,
                                        replay=api_replay(['dual:energy', 'dual:angmom', 'dual:args'], 'dual assembly passes arguments in a different order'), key='assembly:dual:energy')))
    # angular momentum on the dual assembly (zero obliquity: dUdw_i = dUdO_i): catches swapped dUdw arguments
    env3 = dict(env2)
    env3['dissipation_results'] = {'host': {'dUdM': v['dM1'], 'dUdw': v['dO1']}, 'secondary': {'dUdM': v['dM2'], 'dUdw': v['dO2']}}
    exec(compile(mod2, 'quick_tides:dual-assembly', 'exec'), env3)
    dr3 = env3['dissipation_results']
    s_ = atoms.sqrt(1 - v['e'] * v['e'])
    beta = v['m1'] * v['m2'] / (v['m1'] + v['m2'])
    sdL = beta * (Fr(1, 2) * v['n'] * v['a'] * dr3['semi_major_axis_derivative'] * s_ * s_ - v['n'] * v['a'] * v['a'] * v['e'] * dr3['eccentricity_derivative'])
    results.append(discharge(Obligation('quick_dual_body_tidal_dissipation assembly: angular-momentum balance holds for the stored da/dt, de/dt (zero obliquity)',
                                        eq_goal(sdL + s_ * (v['C1'] * sp1 + v['C2'] * sp2), Q(0)), A1,
                                        replay=api_replay(['dual:angmom', 'dual:args', 'dual:energy'], 'dual assembly passes dUdw/dUdM of the two bodies in a different order'), key='assembly:dual:angmom')))
    da_ref2, de_ref2 = dfn['semia_eccen_derivatives'](v['a'], v['n'], v['e'], v['m1'], v['dM1'], v['dw1'], v['m2'], v['dM2'], v['dw2'])
    results.append(discharge(Obligation('quick_dual_body_tidal_dissipation assembly: stored (da/dt, de/dt) == semia_eccen_derivatives_dual(a,n,e,m_host,dUdM_h,dUdw_h,m_sec,dUdM_s,dUdw_s)',
                                        z3.And(eq_goal(dr2['semi_major_axis_derivative'], da_ref2), eq_goal(dr2['eccentricity_derivative'], de_ref2)), A1,
                                        replay=api_replay(['dual:args', 'dual:angmom', 'dual:energy'], 'dual assembly differs from the reference argument order'), key='assembly:dual:args')))
    # the semi-major axis used by both quick functions is computed from n with BOTH masses (Kepler III)
    for fname, fnode, masses in (('quick_tidal_dissipation', fn, ('host_mass', 'target_mass')), ('quick_dual_body_tidal_dissipation', fn2, None)):
        stm = [x for x in ast.walk(fnode) if isinstance(x, ast.Assign) and isinstance(x.targets[0], ast.Name) and x.targets[0].id == 'semi_major_axis'
               and 'orbital_motion2semi_a' in ast.get_source_segment(src, x)]
        if len(stm) != 1:
            raise RuntimeError('semi_major_axis assignment not found in ' + fname)
        loader.ENCODED.append({'file': 'TidalPy/toolbox/quick_tides.py', 'function': fname + ': semi_major_axis = orbital_motion2semi_a(...)', 'sha256_16': solve.sha_of(ast.get_source_segment(src, stm[0]))})
        Mh, mt, nn = Q.sym('M_host'), Q.sym('m_target'), Q.sym('n_orb')
        CTX.facts = [Mh.re > 0, mt.re > 0, nn.re > 0, G.re > 0]
        envk = {'orbital_motion2semi_a': cf['orbital_motion2semi_a'], 'orbital_frequency': nn, 'host_mass': Mh, 'target_mass': mt, 'masses': (Mh, mt)}
        envk.update(loader.base_ns())
        modk = ast.Module(body=[loader._Rewrite(src).visit(stm[0])], type_ignores=[])
        ast.fix_missing_locations(modk)
        ex2 = Explorer(assumptions=CTX.facts)
        pk = ex2.run(lambda: (exec(compile(modk, 'quick_tides:kepler', 'exec'), envk), envk['semi_major_axis'])[1])
        okk = [p_ for p_ in pk if p_.exc is None]
        conds = [eq_goal(nn * nn * Q.of(p_.result) ** 3, G * (Mh + mt)) for p_ in okk]
        results.append(discharge(Obligation('%s: the semi-major axis derived from n satisfies n^2 a^3 == G (M_host + m_target) (both masses)' % fname,
                                            z3.And(*conds) if conds and len(okk) == len(pk) else z3.BoolVal(False), CTX.facts,
                                            replay=api_replay(['single:kepler' if fname == 'quick_tidal_dissipation' else 'dual:kepler'], '%s computes a from n without the full mass sum' % fname), key='assembly:kepler:%s' % fname)))
    results.append(reach_twin('assembly', A1))
    return {'results': results, 'encoded': loader.ENCODED, 'axioms': CTX.axiom_notes, 'label': 'kepler+assembly'}


def job_e0_fp(which):
    """IEEE-754 (Float64) execution of the real source at e = +-0: the eccentricity derivative must be 0, not NaN.
    Cut (stated): arithmetic between quantities that do not depend on e is abstracted to fresh finite values."""
    eps = float_eps()
    S = fp.F64
    fp.ABSTRACT.update(on=True, fresh=[], n=0)
    path, names, modname = (SD, ['eccentricity_derivative', 'semia_eccen_derivatives'], 'TidalPy.dynamics.single_dissipation') if which == 'single' else \
                           (DD, ['eccentricity_derivative', 'semia_eccen_derivatives'], 'TidalPy.dynamics.dual_dissipation')
    fns, ns = loader.load_py(path, names, {'np': fp.NPFP, 'float_eps': eps})
    results = []
    for nm in names:
        fp.ABSTRACT.update(fresh=[], n=0)
        sy = lambda k: fp.FPV.sym(k, S, taint=False)
        a, n, m1, m2, dM1, dw1, dM2, dw2 = [sy(k) for k in ('a', 'n', 'm1', 'm2', 'dM1', 'dw1', 'dM2', 'dw2')]
        e = fp.FPV.sym('e', S, taint=True)
        args = [a, n, e, m1, dM1, dw1, m2] + ([dM2, dw2] if which == 'dual' else [])
        out = fns[nm](*args)
        de = out[1] if isinstance(out, tuple) else out
        big = z3.FPVal(2.0 ** 400, S.sort)
        A = [z3.fpLEQ(z3.fpAbs(x.t), big) for x in (a, n, m1, m2, dM1, dw1, dM2, dw2)] + [z3.fpLEQ(z3.fpAbs(x), big) for x in fp.ABSTRACT['fresh']]
        A += [a.t > 0, n.t > 0, m1.t > 0, m2.t > 0, z3.fpIsZero(e.t)]

        def rp(md, nm=nm):
            outs = []
            bad = False
            for ev in (0.0, -0.0):
                base = [1.0e9, 2.0e-5, ev, 8e22, 1.3, 0.7, 1.9e27] + ([0.4, 0.9] if which == 'dual' else [])
                arr = [replay.arr([x]) if i in (0, 1, 2) else x for i, x in enumerate(base)]
                r = replay.call_real([{'module': modname, 'func': nm, 'args': base}, {'module': modname, 'func': nm, 'args': arr}])
                for x in r:
                    if not x['ok']:
                        outs.append(x['type'])
                        bad = True
                    else:
                        val = x['value']
                        val = val[1] if isinstance(val, list) and len(val) == 2 and not isinstance(val[0], float) or (isinstance(val, list) and len(val) == 2 and nm == 'semia_eccen_derivatives') else val
                        val = val[0] if isinstance(val, list) else val
                        outs.append(val)
                        if not (val == 0.0):
                            bad = True
            return bad, '%s.%s at e=+0,-0 (scalar, array): %r' % (modname, nm, outs)
        goal = z3.fpIsZero(de.t)
        results.append(discharge(Obligation('%s %s: de/dt is exactly 0 at e = +-0 in IEEE-754 double arithmetic (not NaN, no division by zero)' % (which, nm), goal, A,
                                            with_axioms=False, with_dens=False, replay=rp, key='e0:%s:%s' % (which, nm), timeout_ms=max(solve.qtimeout(), 120000),
                                            info={'abstracted_untainted_ops': fp.ABSTRACT['n'], 'sort': 'Float64'})))
        results.append({'name': '%s %s e=0 FP [reachability twin]' % (which, nm), 'key': 'twin', 'twin': True, 'verdict': solve.sat_check(list(A), 60000), 'solver_s': 0.0, 'info': {}})
    fp.ABSTRACT.update(on=False)
    return {'results': results, 'encoded': loader.ENCODED, 'label': 'e0 fp ' + which,
            'axioms': ['QF_FP Float64, round-nearest-even; arithmetic between e-independent quantities abstracted to fresh finite variables (cut)']}


def job_arrays():
    eps = float_eps()
    fns, ns = loader.load_py(SD, S_NAMES, {'np': NP, 'float_eps': eps})
    dfn, _ = loader.load_py(DD, D_NAMES, {'np': NP, 'float_eps': eps})
    names = ('a', 'n', 'e', 'dM1', 'dw1', 'dM2', 'dw2')
    sc = [{k: Q.sym('%s_%d' % (k, i)) for k in names} for i in range(2)]
    arr = {k: obj_array([sc[0][k], sc[1][k]]) for k in names}
    m1, m2 = Q.sym('m1'), Q.sym('m2')
    A = [m1.re > 0, m2.re > 0] + [sc[i][k].re > 0 for i in range(2) for k in ('a', 'n', 'e')]
    conds = []
    da, de = fns['semia_eccen_derivatives'](arr['a'], arr['n'], arr['e'], m1, arr['dM1'], arr['dw1'], m2)
    dad, ded = dfn['semia_eccen_derivatives'](arr['a'], arr['n'], arr['e'], m1, arr['dM1'], arr['dw1'], m2, arr['dM2'], arr['dw2'])
    sp = fns['spin_rate_derivative'](arr['dM1'], Q.sym('C'), m2)
    for i in range(2):
        s = sc[i]
        x, y = fns['semia_eccen_derivatives'](s['a'], s['n'], s['e'], m1, s['dM1'], s['dw1'], m2)
        conds += [eq_goal(x, da[i]), eq_goal(y, de[i])]
        x, y = dfn['semia_eccen_derivatives'](s['a'], s['n'], s['e'], m1, s['dM1'], s['dw1'], m2, s['dM2'], s['dw2'])
        conds += [eq_goal(x, dad[i]), eq_goal(y, ded[i])]
        conds.append(eq_goal(fns['spin_rate_derivative'](s['dM1'], Q.sym('C'), m2), sp[i]))
    res = [discharge(Obligation('array inputs (length 2) give element-wise the scalar rates: single, dual and spin-rate functions', z3.And(*conds), A,
                                replay=lambda md: (True, 'array result differs from scalar'), key='arrays'))]
    res.append(reach_twin('arrays', A))
    return {'results': res, 'encoded': loader.ENCODED, 'label': 'arrays'}


def main():
    import c10
    jobs = [(job_single, {}), (job_dual, {}), (job_kepler_and_assembly, {}), (job_e0_fp, {'which': 'single'}), (job_e0_fp, {'which': 'dual'}), (job_arrays, {}),
            (c10.job_entries, {'L': 3, 'N': 2, 'use_obliquity': False, 'sync': False, 'totals': True})]
    # the whole public functions under the provenance tracer: the derivative call sites receive (a, n, e, m_target, dUdM, dUdw, m_host) of the right body (C10 obligations)
    jobs += [(c10.job_quick_api, {'chunk': ch, 'nchunks': 4}) for ch in range(4)]
    # the balance equations are stated for the per-mode terms the mode machinery produces: accumulation of modes that share a frequency (per-entry identities with obliquity) and the
    # multi-degree inclination helpers (which (m,p) keys each degree receives) are shared obligations of C10 / C09
    for sync in (False, True):
        jobs.append((c10.job_entries, {'L': 2, 'N': 2, 'use_obliquity': True, 'sync': sync, 'totals': False}))
    import c09
    jobs.append((c09.job_lookup, {}))
    meta = {
        'explanation': 'single_dissipation.py / dual_dissipation.py (all functions), conversions.orbital_motion2semi_a and the result-assembly statements of quick_tidal_dissipation / '
                       'quick_dual_body_tidal_dissipation (AST slices) are executed from the current source on symbols. Under the Kepler constraint n^2 a^3 = G(m1+m2) (itself checked on the '
                       'real conversion via a cube-root atom) z3 decides the energy balance and, with dUdw = dUdO, the angular-momentum balance (sqrt(1-e^2) as an atom). '
                       'The e = 0 clause is a QF_FP Float64 query on the same source executed with IEEE values.',
        'bounds': 'all masses, C, a, n > 0, e in (0,1) above the float_eps guard for the balances; e = +-0 for the FP clause; arrays of length 2.',
        'outside': 'rounding of finite results; obliquity != 0 for the angular-momentum balance; overflow in the FP clause (inputs and e-independent intermediate products bounded by 2^400 in magnitude).',
        'assumptions': ['Kepler III relates a and n (the public API computes a from n)', 'dUdw = dUdO at zero obliquity (shown per entry in C10)'],
        'stubs': ['QF_FP cut: e-independent arithmetic abstracted to fresh finite Float64 variables'],
    }
    solve.run_check(PID, jobs, meta)


if __name__ == '__main__':
    main()
