"""C18 — restart of an interrupted multiprocessing study: crash points and failing cases become solver variables, the file system a symbolic stub.

The REAL multiprocessing_run source is executed twice on an in-memory file system whose every effect of run 1 carries a guard `k_i > s`
(k_i = symbolic progress counter of case i, s = index of the effect inside func_to_use; k_h for the study header). Run 2 (force_restart=False) reads that
file system; each existence / content query forks on the guard through the Explorer. Per final path z3 decides the assertions."""
import sys, os, io, ast, json, math, types, itertools, tempfile, subprocess
sys.path.insert(0, os.path.dirname(os.path.dirname(os.path.abspath(__file__))))
import z3
import numpy as np
from collections import namedtuple
from fractions import Fraction as Fr
from symx.values import Q, B, CTX
from symx import loader, solve, replay
from symx.explore import Explorer
from symx.solve import Obligation, discharge, reach_twin, TIER, REPO, VERIF

PID = 'C18'
SRC = 'TidalPy/utilities/multiprocessing/multiprocessing.py'


class Killed(BaseException):
    pass


class SymFS:
    """files: path -> list of (guard, mode, text) ; dirs: path -> list of guards ; guards are z3 Bools (True in run 2)"""

    def __init__(self):
        self.files, self.dirs, self.npz = {}, {}, {}
        self.guard = z3.BoolVal(True)        # guard attached to effects executed now
        self.step_hook = None                # called before every effect (advances the per-case step counter and sets self.guard)
        self.effects = []

    def _holds(self, g):
        return bool(B(g))

    def _effect(self, what):
        if self.step_hook:
            self.step_hook(what)
        self.effects.append((what, self.guard))
        return self.guard

    # --- os.path / os
    def isdir(self, p):
        gs = self.dirs.get(p)
        if not gs:
            return False
        return self._holds(z3.Or(*gs))

    def isfile(self, p):
        ws = self.files.get(p)
        if not ws:
            return False
        return self._holds(z3.Or(*[g for g, m, t in ws]))

    def makedirs(self, p):
        if self.isdir(p):
            raise FileExistsError(17, 'File exists', p)          # os.makedirs without exist_ok
        g = self._effect('mkdir ' + os.path.basename(p))
        cur = p
        while cur and cur != os.path.dirname(cur):
            self.dirs.setdefault(cur, []).append(g)
            cur = os.path.dirname(cur)

    def listdir(self, p):
        out = []
        names = set()
        for d in list(self.dirs) + list(self.files) + list(self.npz):
            if os.path.dirname(d) == p:
                names.add(os.path.basename(d))
        for nm in sorted(names):
            full = os.path.join(p, nm)
            ex = (full in self.dirs and self.isdir(full)) or (full in self.files and self.isfile(full)) or (full in self.npz and self._holds(z3.Or(*[g for g, _ in self.npz[full]])))
            if ex:
                out.append(nm)
        return out

    def open(self, p, mode='r'):
        return _File(self, p, mode)


class _File:
    def __init__(self, fs, path, mode):
        self.fs, self.path, self.mode = fs, path, mode
        if 'r' in mode and path not in fs.files:
            raise FileNotFoundError(path)
        if 'w' in mode:
            g = fs._effect('create ' + os.path.basename(path))
            fs.files.setdefault(path, []).append((g, 'w', ''))
        elif 'a' in mode:
            if path not in fs.files:
                g = fs._effect('create ' + os.path.basename(path))
                fs.files.setdefault(path, []).append((g, 'w', ''))

    def __enter__(self):
        return self

    def __exit__(self, *a):
        return False

    def write(self, text):
        g = self.fs._effect('write ' + os.path.basename(self.path))
        self.fs.files[self.path].append((g, 'a', text))

    def readlines(self):
        return _LazyLines(self.fs, self.fs.files[self.path])


class _LazyLines:
    """lines of a file whose writes are guarded: a write is visible iff its guard holds (decided lazily, forking through the Explorer)"""
    def __init__(self, fs, writes):
        self.fs, self.writes = fs, writes

    def __iter__(self):
        lines = []
        for g, m, text in self.writes:
            if m == 'w':
                if lines and self.fs._holds(g):
                    lines = []                       # open(..., 'w') truncates
                continue
            if not text:
                continue
            if self.fs._holds(g):
                lines += text.splitlines(True)
        return iter(lines)


Cell = namedtuple('Cell', 'case tag')


def make_env(fs, study, pool_hook):
    """namespace for the real multiprocessing_run source"""
    class OsPath:
        join = staticmethod(os.path.join)
        isdir = staticmethod(fs.isdir)
        isfile = staticmethod(fs.isfile)

    class Os:
        path = OsPath
        makedirs = staticmethod(fs.makedirs)
        listdir = staticmethod(fs.listdir)

    class NPshim:
        def __getattr__(self, a):
            return getattr(np, a)

        @staticmethod
        def save(path, arr):
            g = fs._effect('save ' + os.path.basename(path))
            fs.files.setdefault(path, []).append((g, 'w', ''))

        @staticmethod
        def savez(path, **kw):
            g = fs._effect('savez ' + os.path.basename(path))
            fs.npz.setdefault(path, []).append((g, dict(kw)))

        @staticmethod
        def load(path):
            ws = fs.npz.get(path)
            if not ws or not fs._holds(z3.Or(*[g for g, _ in ws])):
                raise FileNotFoundError(path)
            last = None
            for g, content in ws:
                if fs._holds(g):
                    last = content
            return last

    class Psutil:
        @staticmethod
        def cpu_count():
            return 16

        @staticmethod
        def virtual_memory():
            return types.SimpleNamespace(total=1 << 50)

    class Pool:
        def __init__(self, processes=None):
            self.n = processes

        def __enter__(self):
            return self

        def __exit__(self, *a):
            return False

        def starmap(self, func, cases, chunksize=1):
            return pool_hook(func, cases)

    class PyMP:
        pass
    PyMP.Pool = Pool
    import time as _time, warnings as _warnings, datetime as _dt
    fn, _ = loader.load_py('TidalPy/utilities/numpy_helper/array_other.py', ['find_nearest'], {'np': np})
    ns = {'math': math, 'python_mp': PyMP, 'os': Os, 'time': _time, 'warnings': _warnings, 'namedtuple': namedtuple, 'datetime': _dt.datetime, 'np': NPshim(),
          'version': 'X', 'find_nearest': fn['find_nearest'], 'convert_time_to_hhmmss': lambda t, return_days=False: '0', 'pathos_installed': False, 'pathos_mp': None,
          'psutil': Psutil, 'psutil_installed': True, 'open': fs.open, 'print': lambda *a, **k: None, 'List': list}
    src = open(os.path.join(REPO, SRC)).read()
    tree = ast.parse(src)
    for node in tree.body:
        if isinstance(node, ast.Assign) and isinstance(node.targets[0], ast.Name) and node.targets[0].id in ('MultiprocessingInput', 'MultiprocessingOutput'):
            exec(compile(ast.Module(body=[node], type_ignores=[]), SRC, 'exec'), ns)
    # NOTE: the real source is executed with its ORIGINAL float semantics (no literal rewriting): values here are grid numbers handled by real numpy
    fnode = [n for n in tree.body if isinstance(n, ast.FunctionDef) and n.name == 'multiprocessing_run'][0]
    seg = ast.get_source_segment(src, fnode)
    loader.ENCODED.append({'file': SRC, 'function': 'multiprocessing_run', 'sha256_16': solve.sha_of(seg), 'lines': '%d-%d' % (fnode.lineno, fnode.end_lineno)})
    fnode.returns = None
    for a in fnode.args.args:
        a.annotation = None
    exec(compile(ast.Module(body=[fnode], type_ignores=[]), SRC, 'exec'), ns)
    return ns


# grid limits with many significant digits (a lossy text round trip of the journaled limits must be visible); shared with replay/c18_replay.py through the cfg
X0, Y0, DX, DY, MUST = 1.2345678912, 0.98765432101, 0.7654321098, 0.3141592653, 1.5123456789


def grid_axes(n1, n2):
    xs = [float(v) for v in np.linspace(X0, float(n1) + DX, n1)]
    ys = sorted(set([float(v) for v in np.linspace(Y0, float(n2) + DY, n2)] + [MUST]))
    return xs, ys


def scenario(grid, must_kind, n_fail_max, n_runs=2):
    """returns list of per-path outcomes of (runs 1 .. n_runs-1 interrupted, each with its own symbolic progress counters) ; (run n_runs: restart that is allowed to complete)"""
    n1, n2 = grid
    total = n1 * len(grid_axes(n1, n2)[1])
    S_MAX = 12
    # run 1 counters keep their historical names k<i>; run r >= 2 counters are k<r>_<i>
    K = {r: [z3.Int(('k%d' % i) if r == 1 else ('k%d_%d' % (r, i))) for i in range(total)] for r in range(1, n_runs)}
    k = K[1]
    kh = z3.Int('k_header')
    fail = [z3.Bool('fail%d' % i) for i in range(total)]
    assumptions = [z3.And(ki >= 0, ki <= S_MAX) for r in K for ki in K[r]] + [z3.And(kh >= 0, kh <= 40)]
    assumptions.append(z3.PbLe([(f, 1) for f in fail], n_fail_max))
    steps_seen = {}

    def one_path():
        fs = SymFS()
        executed = {r: [] for r in range(1, n_runs + 1)}
        efflog = {}
        state = {'run': 1, 'case': None, 'step': 0, 'hstep': 0}

        def study(run_dir, x, y, x_name, y_name):
            i = state['case']
            executed[state['run']].append(i)
            if bool(B(fail[i])) and state['run'] == 1:
                state['failed_now'] = True
                raise ValueError('case %d fails' % i)
            return {'value': np.asarray([x * 1000.0 + y])}

        def step_hook(what):
            r = state['run']
            if r == n_runs:
                fs.guard = z3.BoolVal(True)
                return
            if state['case'] is None:
                fs.guard = z3.BoolVal(True)          # bound: an interruption happens after the study / restart header has been written
                state['hstep'] += 1
            else:
                i = state['case']
                fs.guard = K[r][i] > state['step']
                efflog.setdefault('%d:%d' % (r, i), []).append(what)
                if r == 1 and not state.get('failed_now'):
                    steps_seen.setdefault(state['step'], what)       # effect names of a case whose study function returns normally
                state['step'] += 1

        def pool_hook(func, cases):
            res = []
            for c in cases:
                state['case'], state['step'], state['failed_now'] = c[0], 0, False
                res.append(func(*c))
            state['case'] = None
            if state['run'] < n_runs:
                raise Killed()      # the interruption ends this run here (later effects of the run only append to the log)
            return res
        fs.step_hook = step_hook
        ns = make_env(fs, study, pool_hook)
        MI = ns['MultiprocessingInput']
        mk = (lambda v: list(v)) if must_kind == 'list' else (lambda v: tuple(v))
        inputs = (MI('x', 'X value', X0, float(n1) + DX, 'linear', mk([]), n1), MI('y', 'Y value', Y0, float(n2) + DY, 'linear', mk([MUST]), n2))
        total_cases = n1 * len(grid_axes(n1, n2)[1])
        out = {'exc2': None, 'results': None, 'exec1': None, 'exec2': None, 'total': total_cases}
        for r in range(1, n_runs + 1):
            state['run'], state['case'] = r, None
            fs.guard = z3.BoolVal(True)
            try:
                rr = ns['multiprocessing_run']('/study', 'demo', study, inputs, force_restart=False, verbose=False, max_procs=4, perform_memory_check=False)
                if r == n_runs:
                    out['results'] = rr
            except Killed:
                if r == n_runs:
                    out['exc2'] = 'Killed'
            except Exception as e:
                if r == 1:
                    raise
                out['exc2'] = 'run %d (restart): %s: %s' % (r, type(e).__name__, str(e)[:120])
                break
        out['exec1'], out['exec2'] = executed[1], executed[n_runs]
        out['executed'] = executed
        out['efflog'] = efflog
        out['steps'] = dict(steps_seen)
        return out
    ex = Explorer(assumptions=assumptions, max_paths=60000, timeout_ms=5000, catch=())
    paths = ex.run(one_path)
    return paths, K, kh, fail, assumptions, steps_seen


def norm_result(r):
    """(case_number, index tuple, value) from a MultiprocessingOutput or from the tuple form used for re-loaded cases"""
    if hasattr(r, 'case_number'):
        cn, idx, res = r.case_number, r.input_index, r.result
    else:
        cn, idx, res = r[0], r[1], r[2]
    val = None
    if res is not None:
        try:
            val = float(np.asarray(res['value']).ravel()[0])
        except Exception:
            val = None
    return int(cn), tuple(int(x) for x in idx), val


def real_replay(md, grid, must_kind, n_runs=2, efflog=None):
    """reconstruct the interrupted directory with the REAL function (complete run, then remove every effect the model says did not happen; once per interruption of the chain), then restart
    with the real function"""
    import re
    runs = []
    for r in range(1, n_runs):
        kk = {}
        for k_, v in md.items():
            m = re.match(r'^k(\d+)$', k_) if r == 1 else re.match(r'^k%d_(\d+)$' % r, k_)
            if m and not isinstance(v, bool):
                kk[m.group(1)] = int(v)
        runs.append({'k': kk, 'effects': {key.split(':')[1]: v for key, v in (efflog or {}).items() if key.startswith('%d:' % r)}})
    cfg = {'grid': list(grid), 'limits': [X0, Y0, DX, DY, MUST], 'must_kind': must_kind, 'k': runs[0]['k'], 'runs': runs,
           'fail': [int(k_[4:]) for k_, v in md.items() if k_.startswith('fail') and v is True], 'steps': {str(a): b for a, b in STEPS.items()}}
    with tempfile.TemporaryDirectory(prefix='verif_c18_') as td:
        env = dict(os.environ)
        env['PYTHONPATH'] = REPO + os.pathsep + os.path.join(VERIF, 'replay')
        p = subprocess.run([replay.VENV_PY, os.path.join(VERIF, 'replay', 'c18_replay.py'), td], input=json.dumps(cfg), capture_output=True, text=True, cwd=td, env=env, timeout=900)
    if '@@RESULT@@' not in p.stdout:
        return None, 'replay runner failed: %s %s' % (p.stdout[-300:], p.stderr[-600:])
    return json.loads(p.stdout.split('@@RESULT@@')[-1]), ''


def _path_of_model(items, md, A):
    """the first recorded bad path whose path condition holds under the model (its effect log tells the replay which effects each interrupted run performed)"""
    fix = []
    for nm, v in md.items():
        if isinstance(v, bool):
            fix.append(z3.Bool(nm) == v)
        elif isinstance(v, (int, Fr)) and '!' not in nm:
            try:
                fix.append(z3.Int(nm) == int(v))
            except Exception:
                pass
    for it in items:
        so = solve.mk_solver(10000)
        so.add(fix)
        so.add(it[0])
        if so.check() == z3.sat:
            return it
    return items[0] if items else None


STEPS = {}


def steps_seen_global(steps):
    return list(steps) or [0]



def job_restart(grid, must_kind, n_fail_max, n_runs=2):
    paths, K, kh, fail, A, steps = scenario(grid, must_kind, n_fail_max, n_runs)
    k = K[1]
    STEPS.update(steps)
    results = []
    tag = 'grid %dx%d, must_include as %s, <= %d failing case(s), %d interruption(s)' % (grid[0], grid[1], must_kind, n_fail_max, n_runs - 1)
    if not paths:
        raise RuntimeError('no paths')
    # uninterrupted reference result per case: x*1000 + y on the grid the code builds
    bad = {'raises': [], 'count': [], 'value': [], 'reexec': [], 'caseno': []}
    npaths = 0
    for p in paths:
        if p.exc is not None:
            raise RuntimeError('harness exception %r' % p.exc)
        o = p.result
        npaths += 1
        pc = z3.And(*p.pc) if p.pc else z3.BoolVal(True)
        if o['exc2'] is not None:
            bad['raises'].append((pc, o['exc2'], o['efflog']))
            continue
        res = [norm_result(r) for r in (o['results'] or [])]
        total = o['total']
        seen = {}
        for cn, idx, val in res:
            seen.setdefault(idx, []).append((cn, val))
        # exactly one result per grid index, value equal to the uninterrupted one (x*1000+y at that index)
        xs, ys = grid_axes(grid[0], grid[1])
        want = {(i, j): xs[i] * 1000.0 + ys[j] for i in range(len(xs)) for j in range(len(ys))}
        if len(res) != total or set(seen) != set(want) or any(len(v) != 1 for v in seen.values()):
            bad['count'].append((pc, 'got %d results for %d cases: indices %s' % (len(res), total, sorted(seen)), o['efflog']))
        else:
            failed1 = set()
            wrong = [(idx, v[0][1], want[idx]) for idx, v in seen.items() if v[0][1] is None or abs(v[0][1] - want[idx]) > 1e-9]
            if wrong:
                bad['value'].append((pc, 'wrong / missing values %r' % wrong[:3], o['efflog']))
            # case numbers: flat index of the grid position
            wrongno = [(idx, v[0][0]) for idx, v in seen.items() if v[0][0] != idx[0] * len(ys) + idx[1]]
            if wrongno:
                bad['caseno'].append((pc, 'case_number does not match the grid index: %r' % wrongno[:4], o['efflog']))
        # a case executed in run r >= 2 must not have completed in an earlier run q (completed: every effect of the case in run q happened, and the study function did not raise)
        re_ = []
        ex_ = o['executed']
        for r in range(2, n_runs + 1):
            for i in ex_[r]:
                for q in range(1, r):
                    if i in ex_[q]:
                        n_eff = len(o['efflog'].get('%d:%d' % (q, i), []))
                        done = K[q][i] >= n_eff
                        re_.append(z3.And(done, z3.Not(fail[i])) if q == 1 else done)
        if re_:
            bad['reexec'].append((z3.And(pc, z3.Or(*re_)), 'a case completed in an earlier run is executed again (executed per run %r)' % {r: v for r, v in ex_.items()}, o['efflog']))

    def mk(key, title):
        items = bad[key]
        goal = z3.Not(z3.Or(*[it[0] for it in items])) if items else z3.BoolVal(True)
        notes = sorted({it[1] for it in items})[:4]

        def rp(md):
            it = _path_of_model(items, md, A)
            r, err = real_replay(md, grid, must_kind, n_runs, it[2] if it else None)
            if r is None:
                return False, err
            detail = 'model %s ; REAL multiprocessing_run restart on the reconstructed directory: %s' % ({a: str(b) for a, b in md.items() if a.startswith(('k', 'fail')) and (b is True or (not isinstance(b, bool)))}, json.dumps(r)[:500])
            if key == 'raises':
                return r['restart_exception'] is not None, detail
            if key == 'caseno':
                return bool(r['caseno_wrong']), detail
            if key == 'count':
                return not r['one_per_case'], detail
            if key == 'value':
                return r['restart_exception'] is None and bool(r['value_wrong']), detail
            if key == 'reexec':
                return bool(r['reexecuted_completed']), detail
            return True, detail
        results.append(discharge(Obligation('%s: %s' % (tag, title), goal, A, with_axioms=False, with_dens=False, replay=rp, key='%s:%s%s' % (key, must_kind, '' if n_runs == 2 else ':chain%d' % (n_runs - 1)),
                                            info={'paths': npaths, 'witness_notes': notes, 'effects_per_case': {str(s): w for s, w in sorted(steps.items())}})))
    mk('raises', 'the restart (force_restart=False) completes without raising, for every kill point of every case and of the header')
    mk('count', 'the restart returns exactly one result per case')
    mk('value', 'every returned result equals the result of an uninterrupted run')
    mk('reexec', 'no case that completed in the first run is executed again')
    mk('caseno', 'every returned record carries its own case number and grid index')
    results.append({'name': tag + ' [reachability twin]', 'key': 'twin', 'twin': True, 'verdict': solve.sat_check(list(A), 60000) if npaths >= 1 else 'vacuous', 'solver_s': 0.0, 'info': {'paths': npaths}})
    return {'results': results, 'encoded': loader.ENCODED, 'paths': npaths, 'label': tag,
            'axioms': ['file system, multiprocessing pool, psutil replaced by an in-memory symbolic stub; study function = x*1000+y; a kill ends a case after k_i effects']}


def main():
    jobs = []
    if TIER == 'thorough':
        cfgs = [((1, 1), 'list', 1), ((1, 1), 'tuple', 0), ((2, 1), 'list', 1), ((2, 1), 'tuple', 0), ((3, 1), 'list', 0), ((2, 2), 'list', 0)]
        chains = [((1, 1), 'list', 1, 3), ((1, 1), 'tuple', 0, 3), ((1, 1), 'list', 0, 4)]       # a 2x1 grid (4 cases) with two interruptions has ~1e5 paths: outside the time budget
    else:
        cfgs = [((1, 1), 'list', 1), ((1, 1), 'tuple', 0), ((2, 1), 'list', 0)]
        chains = [((1, 1), 'list', 1, 3)]
    for g, mk_, nf in cfgs:
        jobs.append((job_restart, {'grid': g, 'must_kind': mk_, 'n_fail_max': nf}))
    for g, mk_, nf, nr in chains:
        jobs.append((job_restart, {'grid': g, 'must_kind': mk_, 'n_fail_max': nf, 'n_runs': nr}))
    meta = {
        'explanation': 'multiprocessing_run is extracted from the current source and executed twice on an in-memory file system (os, open, np.save/savez/load, psutil, the pool are stubs; the pool runs the real '
                       'closure func_to_use inline). In run 1 every file-system effect of case i carries the guard k_i > s (s = index of the effect: log append, mkdir, study call, success marker, log append, '
                       'result file), k_i a symbolic integer - this covers every kill point and every interleaving of workers because cases touch disjoint files; the header has its own counter; fail_i makes '
                       'the study function raise. Run 2 restarts on that symbolic file system; every existence/content query forks on its guard. z3 decides per obligation that no feasible (k, fail) reaches a bad outcome; '
                       'a model is replayed on the REAL function: the interrupted directory is reconstructed from a complete real run by removing the effects that did not happen, then restarted for real.',
        'bounds': 'grids %s with one interruption; chains %s (grid, must kind, failing cases, runs) with two (thorough: up to three) successive interruptions, each restart with its own symbolic progress counters; <= 1 failing case; list and tuple must-include values.' % ([c[0] for c in cfgs], chains),
        'outside': 'real process kills and partial writes inside one write call; pathos; pool sizes other than 4 (they only enter through chunking).',
        'assumptions': ['cases touch disjoint files (read off the source: index_<idx>_run_<n> directories)'],
        'stubs': ['os, open (mode w truncates, makedirs raises FileExistsError on an existing directory), np.save/savez/load, psutil, multiprocessing.Pool'],
    }
    solve.run_check(PID, jobs, meta)


if __name__ == '__main__':
    main()
