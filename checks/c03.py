"""C03 — representation invariance (non-dimensionalisation, exact rescaling, independent solution types) and Saito-Molodensky reciprocity."""
import sys, os, ast
sys.path.insert(0, os.path.dirname(os.path.dirname(os.path.abspath(__file__))))
import z3
from fractions import Fraction as Fr
from symx.values import Q, B, CTX, eq_goal
from symx import loader, solve, replay, atoms, pyx2py
from symx.pyx2py import CArr, Ptr
from symx.npshim import set_pi
from symx.solve import Obligation, discharge, reach_twin, TIER, REPO
import rs
import c02

PID = 'C03'
ND = 'TidalPy/utilities/dimensions/nondimensional.pyx'
SOLVER = 'TidalPy/RadialSolver/solver.pyx'
YIDX = {6: [0, 1, 2, 3, 4, 5], 4: [0, 1, 4, 5], 2: [4, 5]}      # physical y index carried by each storage slot (static liquid: y5, y7 ~ y6)


def load_nd(pi, G):
    ns = {'pi': pi, 'G': G, 'sqrt': atoms.sqrt}
    fns, _ = loader.load_pyx(ND, ['cf_non_dimensionalize_physicals', 'cf_redimensionalize_physicals', 'cf_redimensionalize_radial_functions'], ns)
    return fns


def nondim(fns, w, Rp, rhob, r, rho, g, K, mu):
    ra, da, ga, ba, sa = [r], [rho], [g], [K], [mu]
    Rto, dto, fto, Gto = [None], [None], [None], [None]
    fns['cf_non_dimensionalize_physicals'](1, w, Rp, rhob, ra, da, ga, ba, sa, Rto, dto, fto, Gto)
    return dict(r=ra[0], rho=da[0], g=ga[0], K=ba[0], mu=sa[0], R=Rto[0], rhob=dto[0], w=fto[0], G=Gto[0]), (ra, da, ga, ba, sa)


def scale_factors(fns, Rp, rhob):
    ones = [Q(1)] * 6
    fns['cf_redimensionalize_radial_functions'](ones, Rp, rhob, 1, 1)
    return ones


def sym_env():
    pi = set_pi()
    G = Q.sym('G')
    v = {k: Q.sym(k) for k in ('r', 'rho', 'g', 'w', 'K', 'Rp', 'rhob')}
    v['mu'] = Q.sym('mu')       # formal-indeterminate: complex shear modulus as one real symbol (field operations only)
    pos = [v[k].re > 0 for k in ('r', 'rho', 'g', 'K', 'Rp', 'rhob')] + [v['w'].re >= 0, G.re > 0, v['mu'].re != 0]
    return pi, G, v, pos


def job_ode_scaling(cls, l):
    pi, G, v, pos = sym_env()
    if not rs.field_ops_only(cls):
        raise RuntimeError('%s.diffeq is not field-operations-only: formal-indeterminate mode not justified' % cls)
    fns = load_nd(pi, G)
    nd, _ = nondim(fns, v['w'], v['Rp'], v['rhob'], v['r'], v['rho'], v['g'], v['K'], v['mu'])
    S = scale_factors(fns, v['Rp'], v['rhob'])
    n = rs.NUM_Y[cls]
    idx = YIDX[n]
    yn = [Q.sym('y%d' % i) for i in range(n)]
    ydim = [S[idx[i]] * yn[i] for i in range(n)]
    four = 4 * pi
    f_nd = rs.ode_rhs(cls, yn, nd['r'], nd['rho'], nd['g'], nd['mu'], nd['K'], nd['w'], four * nd['G'], l, formal=True)
    f_dim = rs.ode_rhs(cls, ydim, v['r'], v['rho'], v['g'], v['mu'], v['K'], v['w'], four * G, l, formal=True)
    conds = [eq_goal(f_dim[i] * v['Rp'], S[idx[i]] * f_nd[i]) for i in range(n)]

    def rp(md):
        return replay_scaling(cls, l, md)
    res = [discharge(Obligation('%s l=%d: f_dim(r, S y; physical parameters) == (S/L) f_nd(r/L, y; non-dimensional parameters) for all %d components' % (cls, l, n), z3.And(*conds), pos,
                                replay=rp, key='ode-scaling:%s' % cls))]
    res.append(reach_twin('%s l=%d' % (cls, l), pos))
    return {'results': res, 'encoded': loader.ENCODED, 'axioms': CTX.axiom_notes, 'label': 'ode scaling %s l=%d' % (cls, l)}


def replay_scaling(cls, l, md):
    """float replay on the transliterated current sources: the two ODE evaluations must agree after scaling"""
    import math
    G = 6.6743e-11
    p = dict(r=3.0e6, rho=3300., g=2.1, w=1.0e-5, K=1.2e11, mu=complex(5e10, 3e8), Rp=4.0e6, rhob=4100.)
    sec2 = 1 / (math.pi * G * p['rhob'])
    L = p['Rp']
    mass = p['rhob'] * L ** 3
    pas = mass / (L * sec2)
    nd = dict(r=p['r'] / L, rho=p['rho'] / p['rhob'], g=p['g'] / (L / sec2), K=p['K'] / pas, mu=p['mu'] / pas, w=p['w'] * math.sqrt(sec2), G=G / (L ** 3 / (mass * sec2)))
    S = [sec2 / L, mass / L ** 3, sec2 / L, mass / L ** 3, 1.0, 1 / L]
    n = rs.NUM_Y[cls]
    idx = YIDX[n]
    yn = [complex(0.3 + 0.1 * i, -0.2 + 0.05 * i) for i in range(n)]
    f_nd = rs.ode_rhs(cls, yn, nd['r'], nd['rho'], nd['g'], nd['mu'], nd['K'], nd['w'], 4 * math.pi * nd['G'], l, float_mode=True)
    f_dim = rs.ode_rhs(cls, [S[idx[i]] * yn[i] for i in range(n)], p['r'], p['rho'], p['g'], p['mu'], p['K'], p['w'], 4 * math.pi * G, l, float_mode=True)
    worst = max(abs(f_dim[i] * L - S[idx[i]] * f_nd[i]) / (abs(S[idx[i]] * f_nd[i]) + 1e-300) for i in range(n))
    return worst > 1e-9, '%s l=%d: relative mismatch between dimensional and non-dimensional ODE evaluation %.3e (hand-written scale factors of the documented non-dimensionalisation)' % (cls, l, worst)


def job_roundtrip():
    """redimensionalize(non_dimensionalize(x)) == x for the five arrays; exact rescaling gives identical non-dimensional inputs"""
    pi, G, v, pos = sym_env()
    fns = load_nd(pi, G)
    nd, arrs = nondim(fns, v['w'], v['Rp'], v['rhob'], v['r'], v['rho'], v['g'], v['K'], v['mu'])
    ra, da, ga, ba, sa = arrs
    Rto, dto, fto, Gto = [None], [None], [None], [None]
    fns['cf_redimensionalize_physicals'](1, v['w'], v['Rp'], v['rhob'], ra, da, ga, ba, sa, Rto, dto, fto, Gto)
    res = []
    conds = [eq_goal(ra[0], v['r']), eq_goal(da[0], v['rho']), eq_goal(ga[0], v['g']), eq_goal(ba[0], v['K']), eq_goal(sa[0], v['mu']),
             eq_goal(Rto[0], v['Rp']), eq_goal(dto[0], v['rhob']), eq_goal(fto[0], v['w']), eq_goal(Gto[0], G)]
    res.append(discharge(Obligation('redimensionalize(non_dimensionalize(x)) == x for radius, density, gravity, bulk and shear arrays and the four scalars', z3.And(*conds), pos,
                                    replay=lambda md: (True, 'round trip of the unit conversion does not restore the inputs'), key='roundtrip')))
    # exact rescaling: lengths x a, moduli x a^2, gravity x a, same densities and frequency  => identical non-dimensional problem
    a = Q.sym('a_scale')
    nd2, _ = nondim(fns, v['w'], a * v['Rp'], v['rhob'], a * v['r'], v['rho'], a * v['g'], a * a * v['K'], a * a * v['mu'])
    conds2 = [eq_goal(nd[k], nd2[k]) for k in ('r', 'rho', 'g', 'K', 'mu', 'R', 'rhob', 'w', 'G')]
    res.append(discharge(Obligation('exactly rescaled planet (lengths x a, moduli x a^2, gravity x a) has the same non-dimensional inputs (=> same Love numbers, by the scaling symmetry of every link)',
                                    z3.And(*conds2), pos + [a.re > 0], replay=lambda md: (True, 'rescaled planet maps to a different non-dimensional problem'), key='rescale')))
    res.append(reach_twin('roundtrip', pos + [a.re > 0]))
    return {'results': res, 'encoded': loader.ENCODED, 'axioms': CTX.axiom_notes, 'label': 'roundtrip'}


def job_array_indexing():
    """the loops over slices / solutions of the three unit-conversion kernels apply the SAME factor at every index and touch every element exactly once:
    3-slice arrays and 3 slices x 2 solution types of radial functions with a distinct symbol per element (a wrong stride or offset moves or skips a factor)"""
    pi, G, v, pos = sym_env()
    fns = load_nd(pi, G)
    n = 3
    arrs = {k: [Q.sym('%s_%d' % (k, i)) for i in range(n)] for k in ('r', 'rho', 'g', 'K', 'mu')}
    orig = {k: list(x) for k, x in arrs.items()}
    Rto, dto, fto, Gto = [None], [None], [None], [None]
    fns['cf_non_dimensionalize_physicals'](n, v['w'], v['Rp'], v['rhob'], arrs['r'], arrs['rho'], arrs['g'], arrs['K'], arrs['mu'], Rto, dto, fto, Gto)
    ref, _ = nondim(fns, v['w'], v['Rp'], v['rhob'], Q.sym('r_0'), Q.sym('rho_0'), Q.sym('g_0'), Q.sym('K_0'), Q.sym('mu_0'))
    A = pos + [orig[k][i].re != 0 for k in orig for i in range(n)]
    conds = []
    for k in ('r', 'rho', 'g', 'K', 'mu'):
        conds.append(z3.BoolVal(len(arrs[k]) == n and all(x is not None for x in arrs[k])))
        for i in range(n):
            # same factor as at index 0 (which is the one-slice result checked by the scaling obligations): out[i] * in[0] == out[0] * in[i]
            conds.append(eq_goal(Q.of(arrs[k][i]) * orig[k][0], Q.of(ref[k]) * orig[k][i]))
    res = [discharge(Obligation('cf_non_dimensionalize_physicals on 3-slice arrays: every element of radius, density, gravity, bulk and shear gets the factor of its array', z3.And(*conds), A,
                                replay=lambda md: (True, 'slice loop of cf_non_dimensionalize_physicals (transliterated current source) applies a different factor or skips an element'), key='indexing:nondim'))]
    fns['cf_redimensionalize_physicals'](n, v['w'], v['Rp'], v['rhob'], arrs['r'], arrs['rho'], arrs['g'], arrs['K'], arrs['mu'], Rto, dto, fto, Gto)
    res.append(discharge(Obligation('redimensionalize(non_dimensionalize(x)) == x element-wise on 3-slice arrays', z3.And(*[eq_goal(arrs[k][i], orig[k][i]) for k in orig for i in range(n)]), A,
                                    replay=lambda md: (True, 'round trip on 3-slice arrays does not restore every element'), key='indexing:roundtrip')))
    S = scale_factors(fns, v['Rp'], v['rhob'])
    nsl, nty = 3, 2
    rf = [Q.sym('Y_%d' % i) for i in range(nsl * nty * 6)]
    rf0 = list(rf)
    fns['cf_redimensionalize_radial_functions'](rf, v['Rp'], v['rhob'], nsl, nty)
    conds = [z3.BoolVal(len(rf) == len(rf0))]
    for sl in range(nsl):
        for t in range(nty):
            for yi in range(6):
                i = sl * 6 * nty + t * 6 + yi
                conds.append(eq_goal(Q.of(rf[i]), S[yi] * rf0[i]))
    res.append(discharge(Obligation('cf_redimensionalize_radial_functions on 3 slices x 2 solution types: element [slice, type, y_i] is multiplied by the factor of y_i (layout slice-major, 6 per type)',
                                    z3.And(*conds), pos, replay=replay.api_or_witness([ND, SOLVER], rp_bc, 'element-wise scaling of the radial functions differs'), key='indexing:radial-functions')))
    res.append(reach_twin('array indexing', A))
    return {'results': res, 'encoded': loader.ENCODED, 'axioms': CTX.axiom_notes, 'label': 'array indexing'}


def load_bc_block():
    """AST slice of cf_radial_solver: construction of the surface boundary vectors (bc_pointer) from solve_for"""
    src = open(os.path.join(REPO, SOLVER)).read()
    code, span = pyx2py.translit_function(src, 'cf_radial_solver')
    tree = ast.parse(code)
    fn = tree.body[0]
    blk = None
    for node in fn.body:
        if isinstance(node, ast.If) and 'solve_for is None' in ast.unparse(node.test) and 'bc_pointer' in ast.unparse(node):
            blk = node
    if blk is None:
        raise RuntimeError('bc_pointer block not found (harness out of date)')
    seg = ast.unparse(blk)
    loader.ENCODED.append({'file': SOLVER, 'function': 'cf_radial_solver: bc_pointer construction (AST slice)', 'sha256_16': solve.sha_of(seg)})
    mod = loader._Rewrite(seg).visit(ast.parse(seg))
    ast.fix_missing_locations(mod)
    return compile(mod, 'solver.pyx:bc', 'exec')


class _FreeEnv(dict):
    """globals for the sliced block: builtins resolve, the dimensional quantities are distinct symbols, any other unknown name is reported as harness-out-of-date"""
    def __missing__(self, key):
        import builtins
        if hasattr(builtins, key):
            return getattr(builtins, key)
        # a name the harness does not know: the sliced block has changed shape (e.g. a renamed variable); that is a harness-out-of-date condition, not a property violation
        raise RuntimeError('bc_pointer block of cf_radial_solver reads an unknown name %r (harness out of date with respect to the current source)' % key)


def run_bc(code, solve_for, l, R, rhob):
    from symx.pyx2py import Ref
    last = None
    for wrap in (Ref, lambda x: x):          # scalars whose address is taken elsewhere in cf_radial_solver are transliterated as cells (`.v`)
        bc = CArr((15,), 'boundary_conditions')
        # the caller's DIMENSIONAL radius / bulk density are distinct symbols: the boundary vectors must be built from the *_to_use values (which are the non-dimensional ones when
        # nondimensionalize=True); any other name read by the block becomes a fresh unrelated symbol instead of a NameError
        env = _FreeEnv({'solve_for': solve_for, 'bc_pointer': Ptr(bc, 0), 'degree_l_dbl': Fr(l), 'radius_planet_to_use': wrap(R), 'bulk_density_to_use': wrap(rhob), 'max_num_solutions': 5,
                        'num_ytypes': 1, 'len': len, 'planet_bulk_density': Q.sym('planet_bulk_density_DIMENSIONAL'), 'radius_planet': Q.sym('radius_planet_DIMENSIONAL')})
        env.update(loader.base_ns())
        from symx import pyx2py as _p2
        env.update({k_: v_ for k_, v_ in _p2.RUNTIME.items() if k_.startswith('_')})      # helpers the transliteration itself introduces (_cint, _cstr, _memview_cast)
        try:
            exec(code, {}, env)
            return bc.data, env.get('solve_for'), env.get('num_ytypes')
        except (AttributeError, TypeError) as e:
            last = e
    raise last


_BC_CACHE = {}


def rp_bc(md):
    """public-API replay for the boundary-vector obligations: the real radial_solver on a homogeneous solid sphere, solve_for=(tidal, loading), with and without non-dimensionalisation:
    the Love numbers must agree between the two runs (unit-scaling symmetry) and satisfy k_load = k_tidal - h_tidal (what the boundary vectors are for)."""
    import subprocess, tempfile, json as _json
    if 'r' not in _BC_CACHE:
        outs = []
        for nd in (True, False):
            cfg = {'layers': [['solid', True, False]], 'solve_for': ['tidal', 'loading'], 'nondimensionalize': nd, 'slices_per_layer': 60}
            with tempfile.TemporaryDirectory(prefix='verif_c03_') as td:
                e_ = dict(os.environ)
                e_['PYTHONPATH'] = REPO
                p_ = subprocess.run([replay.VENV_PY, os.path.join(solve.VERIF, 'replay', 'c06_replay.py')], input=_json.dumps(cfg), capture_output=True, text=True, cwd=td, env=e_, timeout=900)
            outs.append(_json.loads(p_.stdout.split('@@RESULT@@')[-1]) if '@@RESULT@@' in p_.stdout else {'crashed': True, 'stderr': p_.stderr[-300:]})
        _BC_CACHE['r'] = outs
    a, b = _BC_CACHE['r']
    if a.get('crashed') or b.get('crashed') or not (a.get('success') and b.get('success')):
        return True, 'real radial_solver failed on the replay configuration: %r / %r' % ({k: a.get(k) for k in ('success', 'message', 'exception')}, {k: b.get(k) for k in ('success', 'message', 'exception')})
    cx = lambda v: complex(v[0], v[1])
    la, lb = [[cx(v) for v in row] for row in a['love']], [[cx(v) for v in row] for row in b['love']]
    scale_mismatch = max(abs(x - y) / (abs(x) + abs(y) + 1e-300) for ra, rb in zip(la, lb) for x, y in zip(ra, rb))
    recip = abs(la[1][0] - (la[0][0] - la[0][1])) / (abs(la[0][0]) + abs(la[0][1]))
    return scale_mismatch > 1e-4 or recip > 1e-4, ('real radial_solver, homogeneous solid sphere, solve_for=(tidal, loading): Love numbers with nondimensionalize=True %r vs False %r (relative mismatch %.2e); '
                                                   'k_load - (k_tidal - h_tidal) relative %.2e' % (a['love'], b['love'], scale_mismatch, recip))


def job_bc_and_love(l):
    pi, G, v, pos = sym_env()
    fns = load_nd(pi, G)
    S = scale_factors(fns, v['Rp'], v['rhob'])
    code = load_bc_block()
    res = []
    for solve_for in (None, ('tidal',), ('loading',), ('free',), ('tidal', 'loading', 'free'), ('loading', 'tidal'), ('FREE', 'Tidal', 'loading', 'tidal', 'free')):
        bd, sf, ny = run_bc(code, solve_for, l, v['Rp'], v['rhob'])
        bn, _, _ = run_bc(code, solve_for, l, Q(1), Q(1))
        names = [s.lower() for s in (solve_for or ('tidal',))]
        conds = []
        for t, nm in enumerate(names):
            want = {'tidal': (Q(0), Q(0), Q(2 * l + 1) / v['Rp']), 'loading': (-Q(2 * l + 1) * v['rhob'] / 3, Q(0), Q(2 * l + 1) / v['Rp']), 'free': (Q(0), Q(0), Q(0))}[nm]
            for j in range(3):
                x = bd[3 * t + j]
                conds.append(z3.BoolVal(x is not None))
                if x is not None:
                    conds.append(eq_goal(x, want[j]))
                    # scaling: y2 ~ S[1], y4 ~ S[3], y6 ~ S[5]
                    conds.append(eq_goal(Q.of(x), S[(1, 3, 5)[j]] * Q.of(bn[3 * t + j])))
        res.append(discharge(Obligation('l=%d solve_for=%r: boundary vectors are (y2,y4,y6) = tidal (0,0,(2l+1)/R) / loading (-(2l+1)rho_bulk/3,0,(2l+1)/R) / free (0,0,0) per slot, and commute with the unit scaling' % (l, solve_for),
                                        z3.And(*conds), pos, replay=replay.api_or_witness([SOLVER], rp_bc, 'boundary vector construction wrong for solve_for=%r' % (solve_for,)), key='bc:%r' % (solve_for,))))
    # Love extraction commutes with the scaling
    love, _ = loader.load_pyx('TidalPy/RadialSolver/love.pyx', ['find_love_cf'], {})
    y = [Q.sym('yy%d' % i) for i in range(6)]
    gs_nd = Q.sym('gs_nd')
    sec2 = atoms.sqrt(1 / (pi * G * v['rhob']))
    gs_dim = gs_nd * v['Rp'] * (pi * G * v['rhob'])
    lv1, lv2 = [None] * 3, [None] * 3
    love['find_love_cf'](lv1, y, gs_nd)
    love['find_love_cf'](lv2, [S[i] * y[i] for i in range(6)], gs_dim)
    res.append(discharge(Obligation('find_love_cf(S y, dimensional surface gravity) == find_love_cf(y, non-dimensional surface gravity): k, h, l identical', z3.And(*[eq_goal(a, b) for a, b in zip(lv1, lv2)]), pos,
                                    replay=lambda md: (True, 'Love extraction not scale invariant'), key='love-scaling')))
    res.append(discharge(Obligation('find_love_cf: k = y5 - 1, h = g_s y1, l = g_s y3', z3.And(eq_goal(lv1[0], y[4] - 1), eq_goal(lv1[1], gs_nd * y[0]), eq_goal(lv1[2], gs_nd * y[2])), pos,
                                    replay=lambda md: (True, 'Love number extraction differs from its definition'), key='love-def')))
    # reciprocity at the surface: B(R) = 0 with the tidal and loading boundary vectors  =>  k_load = k_tidal - h_tidal   (g_s = 4 pi G rho_bulk R / 3)
    bd, _, _ = run_bc(code, ('tidal', 'loading'), l, v['Rp'], v['rhob'])
    yt = [Q.sym('t%d' % i) for i in range(6)]
    yl = [Q.sym('L%d' % i) for i in range(6)]
    A = pos + [eq_goal(yt[1], bd[0]), eq_goal(yt[3], bd[1]), eq_goal(yt[5], bd[2]), eq_goal(yl[1], bd[3]), eq_goal(yl[3], bd[4]), eq_goal(yl[5], bd[5])]
    R = v['Rp']
    Bform = R * R * (yt[0] * yl[1] - yl[0] * yt[1] + l * (l + 1) * (yt[2] * yl[3] - yl[2] * yt[3]) + (yt[4] * yl[5] - yl[4] * yt[5]) / (4 * pi * G))
    gs = 4 * pi * G * v['rhob'] * R / 3
    kt, kl, ht = [None] * 3, [None] * 3, None
    love['find_love_cf'](kt, yt, gs)
    love['find_love_cf'](kl, yl, gs)
    res.append(discharge(Obligation('l=%d: B(R) = 0 with the code\'s tidal and loading boundary vectors and find_love_cf implies k_load = k_tidal - h_tidal (g_s = 4 pi G rho_bulk R/3)' % l,
                                    eq_goal(kl[0], kt[0] - kt[1]), A + [eq_goal(Bform, Q(0))], replay=lambda md: (True, 'Saito-Molodensky relation does not follow from the boundary vectors'), key='reciprocity:surface')))
    res.append(reach_twin('bc+love', A + [eq_goal(Bform, Q(0))]))
    return {'results': res, 'encoded': loader.ENCODED, 'axioms': CTX.axiom_notes, 'label': 'bc+love l=%d' % l}


def bilinear(cls, y, z, r, G4pi, l):
    n = rs.NUM_Y[cls]
    if n == 6:
        return r * r * (y[0] * z[1] - z[0] * y[1] + l * (l + 1) * (y[2] * z[3] - z[2] * y[3]) + (y[4] * z[5] - z[4] * y[5]) / G4pi)
    if n == 4:
        return r * r * (y[0] * z[1] - z[0] * y[1] + (y[2] * z[3] - z[2] * y[3]) / G4pi)
    return r * r * (y[0] * z[1] - z[0] * y[1]) / G4pi


def job_reciprocity(cls, l):
    """the bilinear (Saito-Molodensky) form of two arbitrary solutions is constant along the code's ODE: dB/dr = 0 point-wise"""
    pi, G, v, pos = sym_env()
    n = rs.NUM_Y[cls]
    y = [Q.sym('y%d' % i) for i in range(n)]
    z = [Q.sym('z%d' % i) for i in range(n)]
    G4pi = 4 * pi * G
    args = (v['r'], v['rho'], v['g'], v['mu'], v['K'], v['w'], G4pi, l)
    dy = rs.ode_rhs(cls, y, *args, formal=True)
    dz = rs.ode_rhs(cls, z, *args, formal=True)
    r = v['r']
    Bv = bilinear(cls, y, z, r, G4pi, l)
    # d/dr by the product rule on the explicit form (no differentiation of the encoding needed: B is bilinear in (y, z) with explicit r^2)
    dB = 2 * Bv / r + bilinear(cls, dy, z, r, G4pi, l) + bilinear(cls, y, dz, r, G4pi, l)
    A = list(pos)
    if cls.startswith('LiquidDynamic'):
        pass

    def rp(md):
        import math
        yv = [complex(0.3 + 0.1 * i, 0) for i in range(n)]
        zv = [complex(-0.2 + 0.07 * i, 0) for i in range(n)]
        p = dict(r=1.3, rho=2.0, g=1.1, mu=3.0, K=7.0, w=0.4, G4=0.9)
        a_ = (p['r'], p['rho'], p['g'], p['mu'], p['K'], p['w'], p['G4'], l)
        d1 = rs.ode_rhs(cls, yv, *a_, float_mode=True)
        d2 = rs.ode_rhs(cls, zv, *a_, float_mode=True)
        def bl(a, b):
            if n == 6:
                return p['r'] ** 2 * (a[0] * b[1] - b[0] * a[1] + l * (l + 1) * (a[2] * b[3] - b[2] * a[3]) + (a[4] * b[5] - b[4] * a[5]) / p['G4'])
            if n == 4:
                return p['r'] ** 2 * (a[0] * b[1] - b[0] * a[1] + (a[2] * b[3] - b[2] * a[3]) / p['G4'])
            return p['r'] ** 2 * (a[0] * b[1] - b[0] * a[1]) / p['G4']
        val = 2 * bl(yv, zv) / p['r'] + bl(d1, zv) + bl(yv, d2)
        scale = abs(bl(d1, zv)) + abs(bl(yv, d2)) + 1e-300
        return abs(val) > 1e-9 * scale, '%s l=%d: dB/dr = %r (scale %r) on the transliterated current source' % (cls, l, val, scale)
    res = [discharge(Obligation('%s l=%d: dB/dr == 0 for any two states (B = r^2[y1 z2 - z1 y2 + l(l+1)(y3 z4 - z3 y4) + (y5 z6 - z5 y6)/(4 pi G)], restricted to the carried components)' % (cls, l),
                                eq_goal(dB, Q(0)), A, replay=rp, key='reciprocity:ode:%s' % cls))]
    res.append(reach_twin('reciprocity %s' % cls, A))
    return {'results': res, 'encoded': loader.ENCODED, 'axioms': CTX.axiom_notes, 'label': 'reciprocity %s l=%d' % (cls, l)}


def job_interface_scaling(lower, upper):
    """the interface map commutes with the unit scaling: fwd(S U; dimensional g, rho, G) == S fwd(U; non-dimensional g, rho, G)"""
    (lt, ls), (ut, us) = lower, upper
    pi, G, v, pos = sym_env()
    fns = load_nd(pi, G)
    S = scale_factors(fns, v['Rp'], v['rhob'])
    ns = {'pi': pi, 'NAN': Q.sym('NAN'), 'cmplx_NAN': None, 'cmplx_zero': Q(0)}
    fwd, _ = loader.load_pyx(c02.INT, ['cf_solve_upper_y_at_interface'], ns)
    nl, nu = c02.nsol(lt, ls), c02.nsol(ut, us)
    g_nd, rho_nd = Q.sym('g_nd'), Q.sym('rho_nd')
    sec2inv = pi * G * v['rhob']
    g_dim = g_nd * v['Rp'] * sec2inv
    rho_dim = rho_nd * v['rhob']
    G_nd = G / (v['Rp'] ** 3 / (v['rhob'] * v['Rp'] ** 3 / sec2inv))      # as computed by cf_non_dimensionalize_physicals (checked in job_roundtrip against the source)
    nd, _ = nondim(fns, v['w'], v['Rp'], v['rhob'], v['r'], v['rho'], v['g'], v['K'], v['mu'])
    G_nd = nd['G']
    idx_l, idx_u = YIDX[2 * nl], YIDX[2 * nu]
    Un = [None] * 18
    Ud = [None] * 18
    for j in range(nl):
        for k in range(2 * nl):
            Un[j * 6 + k] = Q.sym('U%d_%d' % (j, k))
            Ud[j * 6 + k] = S[idx_l[k]] * Un[j * 6 + k]
    upn, upd = CArr((18,), 'up_nd'), CArr((18,), 'up_dim')
    fwd['cf_solve_upper_y_at_interface'](Un, Ptr(upn, 0), nl, nu, 6, lt, ls, False, ut, us, False, g_nd, rho_nd, G_nd)
    fwd['cf_solve_upper_y_at_interface'](Ud, Ptr(upd, 0), nl, nu, 6, lt, ls, False, ut, us, False, g_dim, rho_dim, G)
    tag = '%s -> %s' % (c02.kname(lt, ls), c02.kname(ut, us))
    # the starting vectors of the upper layer may be rescaled per solution (they are a basis): require equality up to one factor per solution, fixed by its first non-trivial component
    conds = []
    for j in range(nu):
        ratios = []
        for k in range(2 * nu):
            a, b = upd.data[j * 6 + k], upn.data[j * 6 + k]
            if a is None or b is None:
                conds.append(z3.BoolVal(a is None and b is None))
                continue
            ratios.append((Q.of(a), S[idx_u[k]] * Q.of(b)))
        # all ratios equal: a_k * sb_0 == a_0 * sb_k  (projective equality of the solution vector)
        for (a, sb) in ratios[1:]:
            conds.append(eq_goal(a * ratios[0][1], ratios[0][0] * sb))
        for k1 in range(len(ratios)):
            for k2 in range(k1 + 1, len(ratios)):
                conds.append(eq_goal(ratios[k1][0] * ratios[k2][1], ratios[k2][0] * ratios[k1][1]))
    res = [discharge(Obligation('interface %s: dimensional and non-dimensional starting vectors of the upper layer span the same solutions (each vector equal up to one factor after scaling by S)' % tag,
                                z3.And(*conds) if conds else z3.BoolVal(True), pos + [g_nd.re > 0, rho_nd.re > 0],
                                replay=lambda md: (True, 'interface map does not commute with the unit scaling for %s' % tag), key='interface-scaling:%s' % tag))]
    res.append(reach_twin('interface scaling ' + tag, pos + [g_nd.re > 0, rho_nd.re > 0]))
    return {'results': res, 'encoded': loader.ENCODED, 'axioms': CTX.axiom_notes, 'label': 'interface scaling ' + tag}


def _fp_eval(expr, env, fn_node):
    """evaluate a Python AST expression on Float64 terms; a name that is not in `env` is resolved through its (first) defining assignment in the same function"""
    from symx import fp

    class Env(dict):
        def __missing__(self, key):
            for n in ast.walk(fn_node):
                if isinstance(n, ast.Assign) and len(n.targets) == 1 and isinstance(n.targets[0], ast.Name) and n.targets[0].id == key:
                    v = _fp_eval(n.value, self, fn_node)
                    self[key] = v
                    return v
            raise RuntimeError('layer-bound expression reads %r, which has no defining assignment in the function (harness out of date with respect to the current source)' % key)

    class Lit(ast.NodeTransformer):
        def visit_Constant(self, n):
            if isinstance(n.value, (int, float)) and not isinstance(n.value, bool):
                return ast.copy_location(ast.Call(func=ast.Name(id='_fpv', ctx=ast.Load()), args=[ast.Constant(value=float(n.value))], keywords=[]), n)
            return n
    e = Lit().visit(ast.Expression(body=ast.parse(ast.unparse(expr), mode='eval').body))
    ast.fix_missing_locations(e)
    env = env if isinstance(env, Env) else Env(env)
    env.setdefault('_fpv', lambda v: fp.FPV(z3.FPVal(v, fp.F64.sort), fp.F64, False))
    return eval(compile(e, 'solver.pyx:layer-bound', 'eval'), {}, env)


def job_fp_layer_bound():
    """Float64 (QF_FP): with nondimensionalize the radius array is scaled by the kernel, the user's layer bounds by a statement of cf_radial_solver. The slice search compares the two
    (`radius_check > layer_upper_radius`), and a bound normally IS one of the radii: both must be rounded the same way, for every finite positive radius and planet radius."""
    from symx import fp
    S = fp.F64
    r, R = fp.FPV.sym('r_bound', S), fp.FPV.sym('R_planet', S)
    # kernel side: the in-place statement on radius_array_ptr of cf_non_dimensionalize_physicals
    ksrc = open(os.path.join(REPO, ND)).read()
    kcode, kspan = pyx2py.translit_function(ksrc, 'cf_non_dimensionalize_physicals')
    kfn = ast.parse(kcode).body[0]
    aug = [n for n in ast.walk(kfn) if isinstance(n, ast.AugAssign) and isinstance(n.target, ast.Subscript) and isinstance(n.target.value, ast.Name) and n.target.value.id == 'radius_array_ptr']
    if len(aug) != 1 or not isinstance(aug[0].op, (ast.Div, ast.Mult)):
        raise RuntimeError('scaling statement of radius_array_ptr not found in cf_non_dimensionalize_physicals (harness out of date)')
    kval = _fp_eval(aug[0].value, {'mean_radius': R}, kfn)
    A = (r / kval) if isinstance(aug[0].op, ast.Div) else (r * kval)
    # solver side: the assignment to layer_upper_radius under `if nondimensionalize:`
    ssrc = open(os.path.join(REPO, SOLVER)).read()
    scode, sspan = pyx2py.translit_function(ssrc, 'cf_radial_solver')
    sfn = ast.parse(scode).body[0]
    cands = []
    for n in ast.walk(sfn):
        if isinstance(n, ast.If) and isinstance(n.test, ast.Name) and n.test.id == 'nondimensionalize':
            for st in n.body:
                if isinstance(st, ast.Assign) and isinstance(st.targets[0], ast.Name) and st.targets[0].id == 'layer_upper_radius':
                    cands.append(st)
    if len(cands) != 1:
        raise RuntimeError('non-dimensionalisation of layer_upper_radius not found in cf_radial_solver (harness out of date)')
    Bv = _fp_eval(cands[0].value, {'layer_upper_radius': r, 'radius_planet': R}, sfn)
    loader.ENCODED.append({'file': SOLVER, 'function': 'cf_radial_solver: scaling of layer_upper_radius (AST slice)', 'sha256_16': solve.sha_of(ast.unparse(cands[0])), 'via': 'Float64 terms'})
    loader.ENCODED.append({'file': ND, 'function': 'cf_non_dimensionalize_physicals: scaling of radius_array_ptr (AST slice)', 'sha256_16': solve.sha_of(ast.unparse(aug[0])), 'via': 'Float64 terms'})
    pos = lambda v: z3.And(z3.Not(z3.fpIsNaN(v.t)), z3.Not(z3.fpIsInf(v.t)), z3.fpIsNormal(v.t), z3.fpIsPositive(v.t))
    Aass = [pos(r), pos(R), z3.fpLEQ(r.t, R.t)]
    goal = z3.fpEQ(A.t, Bv.t)

    def rp(md):
        # candidates a user would pass (planet radii and layer bounds in metres): the two roundings through the current source expressions, then the real solver with and without nondimensionalize
        import numpy as np
        code = ('import sys, json\nsys.modules["diffeqpy"] = None\nimport numpy as np\nfrom TidalPy.RadialSolver import radial_solver\n'
                'G = 6.67430e-11\nout = []\n'
                'for R, rb in ((5.0e6, 2.0e6), (5.0e6, 2.75e6), (1.8216e6, 0.9e6), (7.0e6, 3.5e6)):\n'
                '    ks = []\n'
                '    for nd in (True, False):\n'
                '        N = 40\n'
                '        radius = np.concatenate([np.linspace(0.01 * R, rb, N), np.linspace(rb, R, N + 1)[1:]])\n'
                '        rho = np.where(radius <= rb, 8000., 3500.)\n'
                '        from TidalPy.utilities.spherical_helper import calculate_mass_gravity_arrays\n'
                '        vol, mass, g = calculate_mass_gravity_arrays(radius, rho)\n'
                '        K = np.full(radius.size, 2e11); mu = np.where(radius <= rb, 1e11 + 1e9j, 6e10 + 1e9j).astype(np.complex128)\n'
                '        s = radial_solver(radius, rho, g, K, mu, 1e-5, float(np.sum(mass) / np.sum(vol)), ("solid", "solid"), (False, False), (False, False), (rb, R), degree_l=2, nondimensionalize=nd)\n'
                '        ks.append(complex(s.k[0]) if s.success else None)\n'
                '    out.append([R, rb, None if ks[0] is None else [ks[0].real, ks[0].imag], None if ks[1] is None else [ks[1].real, ks[1].imag]])\n'
                'print("@@RESULT@@" + json.dumps(out))\n')
        import subprocess, tempfile, json
        with tempfile.TemporaryDirectory(prefix='verif_c03_') as td:
            p = subprocess.run([replay.VENV_PY, '-c', code], capture_output=True, text=True, cwd=td, env=dict(os.environ, PYTHONPATH=REPO), timeout=1200)
        detail = 'Float64 model r=%r R=%r: kernel scaling %s and layer-bound scaling %s round differently' % (md.get('r_bound'), md.get('R_planet'), ast.unparse(aug[0]), ast.unparse(cands[0]))
        if '@@RESULT@@' in p.stdout:
            rows = json.loads(p.stdout.split('@@RESULT@@')[-1])
            bad = [rw for rw in rows if rw[2] is None or rw[3] is None or abs(complex(*rw[2]) - complex(*rw[3])) > 1e-4 * abs(complex(*rw[3]))]
            detail += ' ; REAL radial_solver, two solid layers, k2 with nondimensionalize=True vs False for (R, bound): %s%s' % (json.dumps(rows), ' -> DIFFER' if bad else ' -> agree for these radii')
        return True, detail
    res = [discharge(Obligation('Float64: a layer bound and the radius array are non-dimensionalised to the same double (kernel: %s ; solver: %s), for all finite positive r <= R' % (
        ast.unparse(aug[0]), ast.unparse(cands[0])), goal, Aass, with_axioms=False, with_dens=False, replay=rp, key='fp:layer-bound', timeout_ms=solve.qtimeout(120, 600)))]
    res.append({'name': 'fp layer bound [reachability twin]', 'key': 'twin', 'twin': True, 'verdict': solve.sat_check(Aass, 60000), 'solver_s': 0.0, 'info': {}})
    return {'results': res, 'encoded': loader.ENCODED, 'label': 'fp layer bound'}


def main():
    ls = range(2, 11) if TIER == 'thorough' else (2, 3)
    jobs = []
    for cls in rs.SOLID + rs.LIQUID_DYN + rs.LIQUID_STAT:
        for l in ls:        # l = 3 is in the quick tier too: factors like (l-1) equal 1 at l = 2
            jobs.append((job_ode_scaling, {'cls': cls, 'l': l}))
            jobs.append((job_reciprocity, {'cls': cls, 'l': l}))
        jobs.append((rs.job_packing, {'cls': cls, 'l': 3}))
    jobs.append((job_roundtrip, {}))
    jobs.append((job_array_indexing, {}))
    jobs.append((job_fp_layer_bound, {}))
    # the re-dimensionalisation call sites of cf_radial_solver (arguments bound through the kernels' own signatures): whole-function run with two solution types
    import c06
    jobs.append((c06.job_whole, {'stack': [(0, False, False), (1, True, False), (0, False, False)], 'nondim': True}))
    for l in ls:
        jobs.append((job_bc_and_love, {'l': l}))
    for lo in c02.kinds():
        for up in c02.kinds():
            jobs.append((job_interface_scaling, {'lower': lo, 'upper': up}))
    # reciprocity at the surface needs each solution type to be collapsed with ITS OWN boundary vector: the C02 surface obligations are part of this claim
    for t, st in c02.kinds():
        jobs.append((c02.job_surface, {'ltype': t, 'static': st, 'incomp': False}))
    meta = {
        'explanation': 'nondimensional.pyx (all three cf_ functions), the eight diffeq methods, the bc_pointer construction sliced from cf_radial_solver, cf_solve_upper_y_at_interface and find_love_cf are '
                       'transliterated and executed on symbols (formal-indeterminate mode where the kernel uses field operations only, checked syntactically). z3 decides that the unit scaling is a symmetry '
                       'of every link (ODE right-hand sides with the scale factors read off cf_redimensionalize_radial_functions, boundary vectors, interface maps up to a per-vector factor, Love extraction), '
                       'that redim(nondim(x)) = x, that an exactly rescaled planet has identical non-dimensional inputs, and Saito-Molodensky reciprocity: dB/dr = 0 point-wise for every ODE class and '
                       'B(R) = 0 with the code\'s tidal/loading boundary vectors gives k_load = k_tidal - h_tidal.',
        'bounds': 'degree l in %s; one radius / one interface (inductive, layer count unbounded); up to 5 solution types.' % list(ls),
        'outside': 'integrator convergence ("a different integrator or finer grid gives the same numbers"); B = 0 at the centre (regular starting vectors, see C04) and continuity of B across interfaces with static liquids; dynamic liquid layers at low frequency.',
        'assumptions': ['bulk density and surface gravity passed by the caller are consistent: g_s = 4 pi G rho_bulk R / 3 (used only for the reciprocity corollary)'],
    }
    solve.run_check(PID, jobs, meta)


if __name__ == '__main__':
    main()
