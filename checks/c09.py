"""C09 — inclination tables equal Kaula's F_lmp(I)^2 for all I in [0,pi]; off tables = on tables at I=0; universal coefficients."""
import sys, os, math, types
sys.path.insert(0, os.path.dirname(os.path.dirname(os.path.abspath(__file__))))
import z3
from fractions import Fraction as Fr
from math import comb, factorial
from symx.values import Q, CTX, eq_goal, close_goal
from symx import loader, solve, replay, atoms
from symx.npshim import NP
from symx.solve import Obligation, discharge, reach_twin, TIER

PID = 'C09'
EPS = Fr(1, 10 ** 9)


def kaula_F(l, m, p, sinI, cosI, one):
    """Kaula (1966) eq. 3.62, generic over the arithmetic of sinI/cosI"""
    k = (l - m) // 2
    tot = 0 * one
    for tt in range(0, min(p, k) + 1):
        c0 = Fr(factorial(2 * l - 2 * tt), factorial(tt) * factorial(l - tt) * factorial(l - m - 2 * tt) * 2 ** (2 * l - 2 * tt))
        inner = 0 * one
        for s in range(0, m + 1):
            cs_ = 0
            for c in range(0, l + 1):
                a = l - m - 2 * tt + s
                b = m - s
                d = p - tt - c
                if c > a or d < 0 or d > b:
                    continue
                cs_ += comb(a, c) * comb(b, d) * (-1) ** (c - k)
            if cs_ == 0:
                continue
            inner = inner + (comb(m, s) * cs_) * cosI ** s
        tot = tot + c0 * sinI ** (l - m - 2 * tt) * inner
    return tot


def _load(l):
    ns = {'np': NP}
    fns, ns = loader.load_py('TidalPy/tides/inclination_funcs/orderl%d.py' % l, ['calc_inclination', 'calc_inclination_off'], ns)
    return fns


def _replay_entry(l, m, p):
    def rp(md):
        t = float(md.get('tan_half[I]', 0))
        I = 4 * math.atan(t)
        r = replay.call1('TidalPy.tides.inclination_funcs.orderl%d' % l, 'calc_inclination', replay.arr([I]))
        if not r['ok']:
            return True, 'real call raised %s' % r['error']
        val = None
        for k, v in r['value'].items():
            if tuple(int(x) for x in k.strip('()').split(',')) == (m, p):
                val = v[0]
        if val is None:
            return True, 'entry (%d,%d) missing from the real table' % (m, p)
        F = float(kaula_F(l, m, p, math.sin(I), math.cos(I), 1.0))
        return abs(val - F * F) > 0.5e-9 * (1 + F * F), 'calc_inclin_l%d(I=%r)[(%d,%d)] = %r, Kaula F^2 = %r' % (l, I, m, p, val, F * F)
    return rp


def job_on(l):
    atoms.declare_angle('I', Fr(1, 2), 't')
    fns = _load(l)
    I = Q.sym('I')
    res_tab = fns['calc_inclination'](I)
    sinI, cosI = atoms.sin(I), atoms.cos(I)
    t = CTX.atoms['tan_half[I]']
    results = []
    want = {(m, p) for m in range(l + 1) for p in range(l + 1)}
    got = set(res_tab.keys())
    # structure: key set must be exactly {(m,p)}: decided by a solver query over the (finite) key universe
    mm, pp = z3.Ints('m p')
    present = z3.Or(*[z3.And(mm == a, pp == b) for (a, b) in got]) if got else z3.BoolVal(False)
    results.append(discharge(Obligation('l=%d: table holds every (m,p) with 0<=m,p<=l and nothing else' % l,
                                        z3.And(z3.Implies(z3.And(mm >= 0, mm <= l, pp >= 0, pp <= l), present),
                                               z3.Implies(present, z3.And(mm >= 0, mm <= l, pp >= 0, pp <= l))), [], with_axioms=False, with_dens=False,
                                        replay=lambda md: (True, 'key (m,p)=(%s,%s) missing or extra in calc_inclin_l%d' % (md.get('m'), md.get('p'), l)),
                                        key='l%d:keys' % l)))
    for (m, p) in sorted(got & want):
        val = Q.of(res_tab[(m, p)])
        F = kaula_F(l, m, p, sinI, cosI, Q(1))
        orc = F * F
        goal = close_goal(val, orc, EPS, orc + 1)
        results.append(discharge(Obligation('l=%d (m,p)=(%d,%d): |table - F_lmp^2| <= 1e-9 (1+F^2) for all I in [0,pi]' % (l, m, p), goal, [],
                                            replay=_replay_entry(l, m, p), key='on:l%d:(%d,%d)' % (l, m, p), info={'l': l, 'm': m, 'p': p})))
    # off tables: equal to the on table at I = 0, omitted entries vanish there
    off = fns['calc_inclination_off'](I)
    for (m, p) in sorted(got):
        val = Q.of(res_tab[(m, p)])
        if (m, p) in off:
            goal = close_goal(val, Q.of(off[(m, p)]), EPS, Q.of(off[(m, p)]) + 1)
            nm = 'l=%d (m,p)=(%d,%d): off table equals on table at I=0 (1e-9 relative)' % (l, m, p)
        else:
            goal = close_goal(val, Q(0), EPS, Q(1))
            nm = 'l=%d (m,p)=(%d,%d): entry omitted from the off table is 0 at I=0 (|.| <= 1e-9)' % (l, m, p)

        def rp(md, m=m, p=p):
            r = replay.call_real([{'module': 'TidalPy.tides.inclination_funcs.orderl%d' % l, 'func': 'calc_inclination', 'args': [replay.arr([0.0])]},
                                  {'module': 'TidalPy.tides.inclination_funcs.orderl%d' % l, 'func': 'calc_inclination_off', 'args': [replay.arr([0.0])]}])
            on_v = {tuple(int(x) for x in k.strip('()').split(',')): v[0] for k, v in r[0]['value'].items()}
            off_v = {tuple(int(x) for x in k.strip('()').split(',')): v[0] for k, v in r[1]['value'].items()}
            a, b = on_v.get((m, p)), off_v.get((m, p), 0.0)
            return abs(a - b) > 0.5e-9 * (1 + abs(b)), 'on(0)[(%d,%d)]=%r off=%r' % (m, p, a, b)
        results.append(discharge(Obligation(nm, goal, [t == 0], replay=rp, key='off:l%d:(%d,%d)' % (l, m, p))))
    extra = sorted(set(off) - got)
    results.append(discharge(Obligation('l=%d: off table has no key absent from the on table' % l, z3.BoolVal(not extra), [], with_axioms=False, with_dens=False,
                                        replay=lambda md: (True, 'extra off keys %r' % extra), key='off:l%d:keys' % l)))
    results.append(reach_twin('C09 l=%d' % l, []))
    return {'results': results, 'encoded': loader.ENCODED, 'axioms': CTX.axiom_notes, 'notes': CTX.notes, 'label': 'on l=%d' % l}


def job_universal():
    class TidalPyValueException(Exception):
        pass
    fns, ns = loader.load_py('TidalPy/tides/universal_coeffs.py', ['get_universal_coeffs'], {'TidalPyValueException': TidalPyValueException})
    T = z3.Function('coeff', z3.IntSort(), z3.IntSort(), z3.RealSort())
    fact = z3.Function('fact', z3.IntSort(), z3.RealSort())
    ax = [fact(n) == factorial(n) for n in range(0, 15)]
    defined = []
    for l in range(2, 8):
        d = fns['get_universal_coeffs'](l)
        for m, v in d.items():
            v = Q.of(v).const()
            ax.append(T(l, m) == z3.RealVal(str(v)))
            defined.append(z3.And(z3.Int('l') == l, z3.Int('m') == m))
    l, m = z3.Ints('l m')
    dom = [l >= 2, l <= 7, m >= 0, m <= l]
    res = []
    res.append(discharge(Obligation('get_universal_coeffs(l)[m] is defined for every 2<=l<=7, 0<=m<=l', z3.Or(*defined), dom, with_axioms=False, with_dens=False,
                                    replay=lambda md: (True, 'missing coefficient l=%s m=%s' % (md.get('l'), md.get('m'))), key='universal:defined')))

    def rp(md):
        lv, mv = int(md['l']), int(md['m'])
        r = replay.call1('TidalPy.tides.universal_coeffs', 'get_universal_coeffs', lv)
        got = r['value'][str(mv)]
        want = (2 - (mv == 0)) * factorial(lv - mv) / factorial(lv + mv)
        return abs(got - want) > 1e-12 * want, 'get_universal_coeffs(%d)[%d] = %r, definition %r' % (lv, mv, got, want)
    res.append(discharge(Obligation('coeff[l][m] (l+m)! == (2 - delta_0m) (l-m)! for symbolic ints 2<=l<=7, 0<=m<=l',
                                    T(l, m) * fact(l + m) == z3.If(m == 0, 1, 2) * fact(l - m), dom + ax, with_axioms=False, with_dens=False, replay=rp,
                                    key='universal:value')))
    # l < 2 raises
    try:
        fns['get_universal_coeffs'](1)
        raised = False
    except TidalPyValueException:
        raised = True
    res.append(discharge(Obligation('get_universal_coeffs(l<2) raises', z3.BoolVal(raised), [], with_axioms=False, with_dens=False,
                                    replay=lambda md: (True, 'no exception for l=1'), key='universal:raise')))
    res.append(reach_twin('C09 universal', dom + ax, with_axioms=False, with_dens=False))
    return {'results': res, 'encoded': loader.ENCODED, 'label': 'universal'}


def job_lookup():
    """get_inclination_func and the mode_calc_helper inclination_{on,off}_maxl_L return exactly the per-degree tables"""
    atoms.declare_angle('I', Fr(1, 2), 't')
    I = Q.sym('I')
    mods = {}
    for l in range(2, 8):
        f = _load(l)
        mods['orderl%d' % l] = types.SimpleNamespace(calc_inclination=f['calc_inclination'], calc_inclination_off=f['calc_inclination_off'])
    res = []
    # the package-level names are bound the way the package binds them: through the `from .orderlN import X as Y` lines of the CURRENT __init__.py (a dropped `_off` on one import
    # line changes every handle built from that name)
    import ast as _ast
    init_rel = 'TidalPy/tides/inclination_funcs/__init__.py'
    init_src = open(loader.repo_path(init_rel)).read()
    init_tree = _ast.parse(init_src)
    ns = {}
    for node in init_tree.body:
        if isinstance(node, _ast.ImportFrom) and node.level == 1 and (node.module or '') in mods:
            for al in node.names:
                ns[al.asname or al.name] = getattr(mods[node.module], al.name, None)
    for node in init_tree.body:
        if isinstance(node, _ast.Assign) and getattr(node.targets[0], 'id', None) in ('inclination_functions_on', 'inclination_functions_off', 'inclination_functions'):
            exec(compile(_ast.Module(body=[node], type_ignores=[]), init_rel, 'exec'), ns)
    loader.ENCODED.append({'file': init_rel, 'function': 'imports and module-level lookup dictionaries', 'sha256_16': solve.sha_of(init_src)})

    def rp_pkg(l, on):
        return replay.lookup_replay('TidalPy.tides.inclination_funcs', 'inclination_functions', lambda md: [(on, l, 'orderl%d.calc_inclination%s' % (l, '' if on else '_off'))], 'wrong degree table')
    for l in range(2, 8):
        for on in (True, False):
            want = mods['orderl%d' % l].calc_inclination if on else mods['orderl%d' % l].calc_inclination_off
            nm = 'calc_inclin_l%d%s' % (l, '' if on else '_off')
            got = ns.get('inclination_functions', {}).get(on, {}).get(l)
            res.append(discharge(Obligation('package handles: %s and inclination_functions[%s][%d] are orderl%d.calc_inclination%s' % (nm, on, l, l, '' if on else '_off'),
                                            z3.BoolVal(ns.get(nm) is want and got is want), [], with_axioms=False, with_dens=False, replay=rp_pkg(l, on), key='lookup:package:%d:%s' % (l, on))))
    g, _ = loader.load_py(init_rel, ['get_inclination_func'], ns)
    def rp_get(l, on):
        def rp(md):
            r = replay.call1('TidalPy.tides.inclination_funcs', 'get_inclination_func', l, on)
            want = 'orderl%d.calc_inclination%s' % (l, '' if on else '_off')
            if not r['ok']:
                return True, 'get_inclination_func(%d, %s) raised %s' % (l, on, r.get('error'))
            return not str(r['value']).endswith(want), 'real get_inclination_func(%d, %s) = %s' % (l, on, r['value'])
        return rp
    for l in range(2, 8):
        for on in (True, False):
            f = g['get_inclination_func'](l, on)
            want = mods['orderl%d' % l].calc_inclination if on else mods['orderl%d' % l].calc_inclination_off
            res.append(discharge(Obligation('get_inclination_func(%d,%s) is the degree-%d %s table' % (l, on, l, 'on' if on else 'off'), z3.BoolVal(f is want), [],
                                            with_axioms=False, with_dens=False, replay=rp_get(l, on), key='lookup:get:%d:%s' % (l, on))))
    for L in range(2, 8):
        names = ['inclination_off_maxl_%d' % L, 'inclination_on_maxl_%d' % L]
        h, _ = loader.load_py('TidalPy/tides/modes/mode_calc_helper/inclin_calc_orderl%d.py' % L, names, dict(mods, np=NP))
        for nm, attr in zip(names, ('calc_inclination_off', 'calc_inclination')):
            out = h[nm](I)
            ok_keys = sorted(out.keys()) == list(range(2, L + 1))
            res.append(discharge(Obligation('%s returns degrees 2..%d' % (nm, L), z3.BoolVal(ok_keys), [], with_axioms=False, with_dens=False,
                                            replay=lambda md, nm=nm, out=out: (True, '%s keys %r' % (nm, sorted(out.keys()))), key='lookup:%s:keys' % nm)))
            for l in sorted(out.keys()):
                if not (2 <= l <= 7):
                    continue
                ref = getattr(mods['orderl%d' % l], attr)(I)
                conds = [z3.BoolVal(set(ref.keys()) == set(out[l].keys()))]
                for k in ref:
                    if k in out[l]:
                        conds.append(eq_goal(Q.of(ref[k]), Q.of(out[l][k])))
                res.append(discharge(Obligation('%s[%d] == orderl%d.%s (all entries, all I)' % (nm, l, l, attr), z3.And(*conds), [],
                                                replay=lambda md, nm=nm, l=l: (True, '%s[%d] differs from the degree table' % (nm, l)), key='lookup:%s:%d' % (nm, l))))
    import ast
    from symx.solve import REPO
    class _Names:
        def __init__(self, mod):
            self.mod = mod
        def __getattr__(self, a):
            return (self.mod, a)
    isrc = open(os.path.join(REPO, 'TidalPy/tides/modes/mode_calc_helper/__init__.py')).read()
    for n in ast.parse(isrc).body:
        if isinstance(n, ast.Assign) and getattr(n.targets[0], 'id', None) == 'inclination_functions_lookup':
            nsn = {'inclin_calc_orderl%d' % L: _Names('inclin_calc_orderl%d' % L) for L in range(2, 8)}
            d = eval(compile(ast.Expression(body=n.value), 'helper_init', 'eval'), nsn)
            loader.ENCODED.append({'file': 'TidalPy/tides/modes/mode_calc_helper/__init__.py', 'function': 'inclination_functions_lookup (module dict)', 'sha256_16': solve.sha_of(ast.get_source_segment(isrc, n))})
            on, Lz = z3.Bool('on'), z3.Int('L')
            good = z3.Or(*[z3.And(on == o, Lz == L) for o, row in d.items() for L, v in row.items() if v == ('inclin_calc_orderl%d' % L, 'inclination_%s_maxl_%d' % ('on' if o else 'off', L))])
            res.append(discharge(Obligation('inclination_functions_lookup[on][L] is inclin_calc_orderlL.inclination_{on,off}_maxl_L for all on, L in 2..7', good, [Lz >= 2, Lz <= 7],
                                            with_axioms=False, with_dens=False, replay=replay.lookup_replay('TidalPy.tides.modes.mode_calc_helper', 'inclination_functions_lookup', lambda md: [(bool(md.get('on', True)), int(md.get('L', 2)), 'inclin_calc_orderl%d.inclination_%s_maxl_%d' % (int(md.get('L', 2)), 'on' if md.get('on', True) else 'off', int(md.get('L', 2))))], 'wrong/missing helper'), key='helperdict')))
    return {'results': res, 'encoded': loader.ENCODED, 'axioms': CTX.axiom_notes, 'label': 'lookup'}


def main():
    ls = range(2, 8)
    jobs = [(job_on, {'l': l}) for l in ls] + [(job_universal, {}), (job_lookup, {})]
    meta = {
        'explanation': 'calc_inclination / calc_inclination_off of every degree are executed from the current source with the obliquity as a symbol; '
                       'sin/cos of multiples of I/2 are expanded by de Moivre over the rational parametrisation t = tan(I/4) in [0,1] (I in [0,pi]); each table entry is compared '
                       'with Kaula F_lmp^2 (triple sum written in the harness) by a univariate z3 query |table - F^2| <= 1e-9(1+F^2). Off tables are compared at t=0; '
                       'the universal coefficients are an array-encoded Int query over symbolic (l,m); lookup helpers are executed and compared entry-wise.',
        'bounds': 'l in 2..7 (all shipped degrees), all (m,p) in 0..l, I in [0,pi] (t in [0,1]); tolerance 1e-9 relative to 1+F^2.',
        'outside': 'floating-point rounding of the evaluation; obliquities outside [0,pi].',
        'assumptions': ['I in [0, pi]'],
    }
    solve.run_check(PID, jobs, meta)


if __name__ == '__main__':
    main()
