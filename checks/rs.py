"""shared helpers for the RadialSolver properties (C01-C06): execute the transliterated ODE right-hand sides, starting vectors, interfaces, boundaries."""
import sys, os
sys.path.insert(0, os.path.dirname(os.path.dirname(os.path.abspath(__file__))))
import z3
from fractions import Fraction as Fr
from symx.values import Q, B, CTX, eq_goal
from symx import loader, atoms
from symx.pyx2py import CArr, Ptr

ODES = 'TidalPy/RadialSolver/derivatives/odes.pyx'
SOLID = ['SolidDynamicCompressible', 'SolidDynamicIncompressible', 'SolidStaticCompressible', 'SolidStaticIncompressible']
LIQUID_DYN = ['LiquidDynamicCompressible', 'LiquidDynamicIncompressible']
LIQUID_STAT = ['LiquidStaticCompressible', 'LiquidStaticIncompressible']
NUM_Y = {c: 6 for c in SOLID}
NUM_Y.update({c: 4 for c in LIQUID_DYN})
NUM_Y.update({c: 2 for c in LIQUID_STAT})
_CACHE = {}


class OdeSelf:
    pass


def load_diffeq(cls, float_mode=False, ns=None):
    key = (cls, float_mode)
    if key not in _CACHE:
        fns, _ = loader.load_pyx(ODES, ['%s.diffeq' % cls], ns or {}, float_mode=float_mode)
        _CACHE[key] = fns['%s.diffeq' % cls]
    return _CACHE[key]


def ode_rhs(cls, y, r, rho, g, mu, K, w, G4pi, l, formal=False, float_mode=False):
    """dy/dr of ODE class `cls` at radius r for the state y (list of complex Q, or python complex in float_mode).
    formal=True: every complex quantity is ONE real indeterminate (kernels use field operations only)."""
    f = load_diffeq(cls, float_mode)
    S = OdeSelf()
    n = NUM_Y[cls]
    S.t_now = r
    S.update_interp = lambda **k: None
    if float_mode:
        S.y_ptr = [c for v in y for c in (complex(v).real, complex(v).imag)]
    elif formal:
        S.y_ptr = [c for v in y for c in (Q.of(v), Q(0))]
    else:
        S.y_ptr = [c for v in y for c in (Q.of(v).real, Q.of(v).imag)]
    S.dy_ptr = [None] * (2 * n)
    S.shear_modulus, S.bulk_modulus, S.density, S.gravity, S.frequency_to_use, S.grav_coeff = mu, K, rho, g, w, G4pi
    if float_mode:
        S.llp1, S.lp1, S.lm1, S.degree_l_flt = float(l * (l + 1)), float(l + 1), float(l - 1), float(l)
    else:
        S.llp1, S.lp1, S.lm1, S.degree_l_flt = Fr(l * (l + 1)), Fr(l + 1), Fr(l - 1), Fr(l)
    f(S)
    if float_mode:
        return [complex(S.dy_ptr[2 * i], S.dy_ptr[2 * i + 1]) for i in range(n)]
    if formal:
        return [Q.of(S.dy_ptr[2 * i]) for i in range(n)]
    return [Q.of(S.dy_ptr[2 * i]) + Q(0, 1) * Q.of(S.dy_ptr[2 * i + 1]) for i in range(n)]


def field_ops_only(cls):
    """syntactic test used to justify formal-indeterminate mode: the diffeq body uses no conj/abs/comparison on its complex inputs
    (.real/.imag appear only to unpack y_ptr and to pack dy_ptr)."""
    import re
    from symx import pyx2py
    src = open(loader.repo_path(ODES)).read()
    code, _ = pyx2py.translit_function(src, '%s.diffeq' % cls)
    body = [ln for ln in code.split('\n') if 'dy_ptr[' not in ln and 'y_ptr[' not in ln]
    txt = '\n'.join(body)
    return not re.search(r'\bconj|\babs\(|fabs|\.real|\.imag|[<>]=?\s|==', txt)


# ------------------------------------------------------------------------------------------------ formal-indeterminate mode: packing obligation
def _eval_poly(t, env):
    """evaluate a z3 real polynomial term (+, *, -, constants, variables) with Q values for the variables"""
    if isinstance(t, (int, Fr)):
        return Q(Fr(t))
    if z3.is_rational_value(t) or z3.is_int_value(t):
        return Q(Fr(t.numerator_as_long(), t.denominator_as_long())) if z3.is_rational_value(t) else Q(Fr(t.as_long()))
    if z3.is_const(t):
        return env[t.decl().name()]
    k = t.decl().kind()
    ch = [_eval_poly(c, env) for c in t.children()]
    if k == z3.Z3_OP_ADD:
        r = ch[0]
        for c in ch[1:]:
            r = r + c
        return r
    if k == z3.Z3_OP_MUL:
        r = ch[0]
        for c in ch[1:]:
            r = r * c
        return r
    if k == z3.Z3_OP_SUB:
        r = ch[0]
        for c in ch[1:]:
            r = r - c
        return r
    if k == z3.Z3_OP_UMINUS:
        return -ch[0]
    if k == z3.Z3_OP_TO_REAL:
        return ch[0]
    raise ValueError('not a polynomial term: %s' % t.decl().name())


def complexify(q, env):
    """value of the formal-mode result q (a real rational function of the formal indeterminates) when the indeterminates take the complex Q values of env"""
    q = Q.of(q)
    num = _eval_poly(q.re, env)
    for key, (term, m) in q.den.items():
        d = _eval_poly(term, env)
        for _ in range(m):
            num = num / d
    return num


def job_packing(cls, l):
    """Justifies the formal-indeterminate encoding of `cls`.diffeq beyond the syntactic field-operations test: the REAL unpacking of y_ptr and packing of dy_ptr
    (re/im interleaved) executed with complex symbolic states equals the complexification of the formal-mode result, component by component."""
    from symx.solve import Obligation, discharge, reach_twin
    n = NUM_Y[cls]
    names = ['y%d' % i for i in range(n)] + ['mu', 'K']
    formal_syms = {k: Q.sym('f_' + k) for k in names}
    r, rho, g, w, G4pi = [Q.sym(k) for k in ('r', 'rho', 'g', 'w', 'G4pi')]
    F = ode_rhs(cls, [formal_syms['y%d' % i] for i in range(n)], r, rho, g, formal_syms['mu'], formal_syms['K'], w, G4pi, l, formal=True)
    cvals = {k: Q.csym('c_' + k) for k in names}
    C = ode_rhs(cls, [cvals['y%d' % i] for i in range(n)], r, rho, g, cvals['mu'], cvals['K'], w, G4pi, l, formal=False)
    env = {'f_' + k: cvals[k] for k in names}
    env.update({k: Q.sym(k) for k in ('r', 'rho', 'g', 'w', 'G4pi')})
    pos = [r.re > 0, rho.re > 0, g.re > 0, G4pi.re > 0]
    results = []
    for i in range(n):
        want = complexify(F[i], env)

        def rp(md, i=i):
            # float replay on the transliterated current source: complex state through the real pack/unpack vs the same formula evaluated with python complex numbers
            import random
            rnd = random.Random(7 + i)
            cv = lambda: complex(rnd.uniform(0.5, 2.0), rnd.uniform(0.2, 1.5))
            ys = [cv() for _ in range(n)]
            muv, Kv = cv(), cv()
            rv, rhov, gv, wv, Gv = 1.3, 2.1, 0.7, 0.9, 1.7
            got = ode_rhs(cls, ys, rv, rhov, gv, muv, Kv, wv, Gv, l, float_mode=True)
            # reference: the same source with the state given one component at a time through linearity is not available; use the exact symbolic result
            envf = {'f_y%d' % j: Q(Fr(ys[j].real).limit_denominator(10 ** 9), Fr(ys[j].imag).limit_denominator(10 ** 9)) for j in range(n)}
            envf['f_mu'] = Q(Fr(muv.real).limit_denominator(10 ** 9), Fr(muv.imag).limit_denominator(10 ** 9))
            envf['f_K'] = Q(Fr(Kv.real).limit_denominator(10 ** 9), Fr(Kv.imag).limit_denominator(10 ** 9))
            for k_, v_ in (('r', rv), ('rho', rhov), ('g', gv), ('w', wv), ('G4pi', Gv)):
                envf[k_] = Q(Fr(v_).limit_denominator(10 ** 9))
            ref = complexify(F[i], envf)
            refc = complex(float(ref.re), float(ref.im))
            return abs(got[i] - refc) > 1e-7 * (abs(refc) + 1e-12), '%s.diffeq (transliterated current source, float mode) dy[%d] = %r for a complex state; formula of the field-operations result = %r' % (cls, i, got[i], refc)
        results.append(discharge(Obligation('%s l=%d: dy_ptr[%d], dy_ptr[%d] (real pack/unpack, complex state) == complexification of the formal-indeterminate result dy%d' % (cls, l, 2 * i, 2 * i + 1, i + 1),
                                            eq_goal(C[i], want), pos, replay=rp, key='packing:%s:%d' % (cls, i))))
    results.append(reach_twin('packing %s' % cls, pos))
    return {'results': results, 'encoded': loader.ENCODED, 'axioms': CTX.axiom_notes, 'label': 'packing %s l=%d' % (cls, l)}
