"""shared helpers for the RadialSolver properties (C01-C06): execute the transliterated ODE right-hand sides, starting vectors, interfaces, boundaries."""
import sys, os
sys.path.insert(0, os.path.dirname(os.path.dirname(os.path.abspath(__file__))))
import z3
from fractions import Fraction as Fr
from symx.values import Q, B, CTX, eq_goal
from symx import loader, atoms
from symx.pyx2py import CArr, Ptr

ODES = 'TidalPy/RadialSolver/derivatives/odes.pyx'
SOLID = ['SolidDynamicCompressible', 'SolidDynamicIncompressible', 'SolidStaticCompressible', 'SolidStaticIncompressible']
LIQUID_DYN = ['LiquidDynamicCompressible', 'LiquidDynamicIncompressible']
LIQUID_STAT = ['LiquidStaticCompressible', 'LiquidStaticIncompressible']
NUM_Y = {c: 6 for c in SOLID}
NUM_Y.update({c: 4 for c in LIQUID_DYN})
NUM_Y.update({c: 2 for c in LIQUID_STAT})
_CACHE = {}


class OdeSelf:
    pass


def load_diffeq(cls, float_mode=False, ns=None):
    key = (cls, float_mode)
    if key not in _CACHE:
        fns, _ = loader.load_pyx(ODES, ['%s.diffeq' % cls], ns or {}, float_mode=float_mode)
        _CACHE[key] = fns['%s.diffeq' % cls]
    return _CACHE[key]


def ode_rhs(cls, y, r, rho, g, mu, K, w, G4pi, l, formal=False, float_mode=False):
    """dy/dr of ODE class `cls` at radius r for the state y (list of complex Q, or python complex in float_mode).
    formal=True: every complex quantity is ONE real indeterminate (kernels use field operations only)."""
    f = load_diffeq(cls, float_mode)
    S = OdeSelf()
    n = NUM_Y[cls]
    S.t_now = r
    S.update_interp = lambda **k: None
    if float_mode:
        S.y_ptr = [c for v in y for c in (complex(v).real, complex(v).imag)]
    elif formal:
        S.y_ptr = [c for v in y for c in (Q.of(v), Q(0))]
    else:
        S.y_ptr = [c for v in y for c in (Q.of(v).real, Q.of(v).imag)]
    S.dy_ptr = [None] * (2 * n)
    S.shear_modulus, S.bulk_modulus, S.density, S.gravity, S.frequency_to_use, S.grav_coeff = mu, K, rho, g, w, G4pi
    if float_mode:
        S.llp1, S.lp1, S.lm1, S.degree_l_flt = float(l * (l + 1)), float(l + 1), float(l - 1), float(l)
    else:
        S.llp1, S.lp1, S.lm1, S.degree_l_flt = Fr(l * (l + 1)), Fr(l + 1), Fr(l - 1), Fr(l)
    f(S)
    if float_mode:
        return [complex(S.dy_ptr[2 * i], S.dy_ptr[2 * i + 1]) for i in range(n)]
    if formal:
        return [Q.of(S.dy_ptr[2 * i]) for i in range(n)]
    return [Q.of(S.dy_ptr[2 * i]) + Q(0, 1) * Q.of(S.dy_ptr[2 * i + 1]) for i in range(n)]


def field_ops_only(cls):
    """syntactic test used to justify formal-indeterminate mode: the diffeq body uses no conj/abs/comparison on its complex inputs
    (.real/.imag appear only to unpack y_ptr and to pack dy_ptr)."""
    import re
    from symx import pyx2py
    src = open(loader.repo_path(ODES)).read()
    code, _ = pyx2py.translit_function(src, '%s.diffeq' % cls)
    body = [ln for ln in code.split('\n') if 'dy_ptr[' not in ln and 'y_ptr[' not in ln]
    txt = '\n'.join(body)
    return not re.search(r'\bconj|\babs\(|fabs|\.real|\.imag|[<>]=?\s|==', txt)
