"""C19 — thermal building blocks: radiogenic additivity/linearity/half-life, cooling sign and monotonicity, viscosity laws non-increasing in T,
melt laws at or above liquid values, Henning law pre-melt values / monotone / liquid values beyond the window."""
import sys, os, math
sys.path.insert(0, os.path.dirname(os.path.dirname(os.path.abspath(__file__))))
import z3
from fractions import Fraction as Fr
from symx.values import Q, B, CTX, eq_goal
from symx import loader, solve, replay, atoms
from symx.npshim import NP
from symx.solve import Obligation, discharge, reach_twin, TIER

PID = 'C19'
EPS = Fr('2.220446049250313e-16')
LOGNAT_MAX = Fr('709.782712893384')


def fv(md, k, d):
    v = md.get(k)
    return float(v) if v is not None else d


def exp_product_axiom(e_sum, e_a, e_b, x_sum, x_a, x_b):
    """exp(x_a + x_b) = exp(x_a) exp(x_b), instantiated for three existing atoms; guarded by the (solver-checked) argument relation"""
    CTX.axiom(z3.Implies(eq_goal(x_sum, x_a + x_b), eq_goal(e_sum, e_a * e_b)), 'exp(x+y) = exp(x) exp(y) instantiated for the half-life step')


def pow_monotone_axioms():
    logs = atoms.POW_LOG
    for i in range(len(logs)):
        for j in range(i + 1, len(logs)):
            a1, n1, v1 = logs[i]
            a2, n2, v2 = logs[j]
            if atoms._key(Q.of(n1)) != atoms._key(Q.of(n2)):
                continue
            le = (Q.of(a1) <= Q.of(a2)).c
            ge = (Q.of(a1) >= Q.of(a2)).c
            CTX.axiom(z3.Implies(le, v1.re <= v2.re), 'x**b monotone in x for b > 0 (pairs of pow atoms with the same exponent)')
            CTX.axiom(z3.Implies(ge, v1.re >= v2.re), None)


# ------------------------------------------------------------------------------------------------ radiogenics
def job_radiogenic():
    LN = Q.sym('LOG_HALF')
    fns, ns = loader.load_py('TidalPy/radiogenics/radiogenic_models.py', ['isotope', 'fixed', 'off'], {'np': NP, 'LOG_HALF': LN, 'zip': zip})
    t, m, tref = Q.sym('t'), Q.sym('mass'), Q.sym('t_ref')
    f = [Q.sym('f%d' % i) for i in range(3)]
    c = [Q.sym('c%d' % i) for i in range(3)]
    h = [Q.sym('hl%d' % i) for i in range(3)]
    q = [Q.sym('q%d' % i) for i in range(3)]
    k = Q.sym('k')
    pos = [x.re > 0 for x in [m, k] + f + c + h + q] + [LN.re < 0]
    CTX.facts = list(pos)
    results = []
    iso = fns['isotope']
    mod = 'TidalPy.radiogenics.radiogenic_models'

    def rp_iso(kind):
        def rp(md):
            tv, mv, tr = fv(md, 't', 3000.), fv(md, 'mass', 1e22), fv(md, 't_ref', 4600.)
            F = [fv(md, 'f%d' % i, 0.1 * (i + 1)) for i in range(3)]
            C = [fv(md, 'c%d' % i, 1e-6 * (i + 1)) for i in range(3)]
            H = [fv(md, 'hl%d' % i, 700. * (i + 1)) for i in range(3)]
            Qh = [fv(md, 'q%d' % i, 1e-4 * (i + 1)) for i in range(3)]
            T = lambda x: {'t': list(x)}
            call = lambda tt, mm, idx, cs=None: {'module': mod, 'func': 'isotope', 'args': [tt, mm, T([F[i] for i in idx]), T([(cs or C)[i] for i in idx]), T([H[i] for i in idx]), T([Qh[i] for i in idx]), tr]}
            if kind == 'additive':
                r = replay.call_real([call(tv, mv, [0, 1, 2]), call(tv, mv, [0]), call(tv, mv, [1]), call(tv, mv, [2])])
                a, b = r[0]['value'], sum(x['value'] for x in r[1:])
            elif kind == 'mass':
                r = replay.call_real([call(tv, 3 * mv, [0, 1]), call(tv, mv, [0, 1])])
                a, b = r[0]['value'], 3 * r[1]['value']
            elif kind == 'conc':
                r = replay.call_real([call(tv, mv, [0, 1], [3 * x for x in C]), call(tv, mv, [0, 1])])
                a, b = r[0]['value'], 3 * r[1]['value']
            elif kind == 'half':
                r = replay.call_real([call(tv + H[0], mv, [0]), call(tv, mv, [0])])
                a, b = r[0]['value'], 0.5 * r[1]['value']
            elif kind == 'positive':
                r = replay.call_real([call(tv, mv, [0, 1, 2])])
                return not (r[0]['value'] > 0), 'isotope heating = %r for positive inputs' % r[0]['value']
            elif kind == 'ref':
                r = replay.call_real([call(tr, mv, [0, 1])])
                a, b = r[0]['value'], mv * sum(F[i] * C[i] * Qh[i] for i in (0, 1))
            return abs(a - b) > 1e-9 * (abs(a) + abs(b)), 'isotope %s: %r vs %r' % (kind, a, b)
        return rp
    whole = iso(t, m, tuple(f), tuple(c), tuple(h), tuple(q), tref)
    parts = sum((iso(t, m, (f[i],), (c[i],), (h[i],), (q[i],), tref) for i in range(3)), Q(0))
    results.append(discharge(Obligation('isotope: heating of 3 isotopes == sum of the three single-isotope heatings (additive, independent)', eq_goal(whole, parts), pos, replay=rp_iso('additive'), key='iso:additive')))
    results.append(discharge(Obligation('isotope: linear in mass', eq_goal(iso(t, k * m, tuple(f[:2]), tuple(c[:2]), tuple(h[:2]), tuple(q[:2]), tref), k * iso(t, m, tuple(f[:2]), tuple(c[:2]), tuple(h[:2]), tuple(q[:2]), tref)),
                                        pos, replay=rp_iso('mass'), key='iso:mass')))
    results.append(discharge(Obligation('isotope: linear in concentration', eq_goal(iso(t, m, tuple(f[:2]), (k * c[0], k * c[1]), tuple(h[:2]), tuple(q[:2]), tref), k * iso(t, m, tuple(f[:2]), tuple(c[:2]), tuple(h[:2]), tuple(q[:2]), tref)),
                                        pos, replay=rp_iso('conc'), key='iso:conc')))
    results.append(discharge(Obligation('isotope: equals mass * sum f c q at the reference time', eq_goal(iso(tref, m, tuple(f[:2]), tuple(c[:2]), tuple(h[:2]), tuple(q[:2]), tref), m * (f[0] * c[0] * q[0] + f[1] * c[1] * q[1])),
                                        pos, replay=rp_iso('ref'), key='iso:ref')))
    # half-life: exp atoms + the functional equation instantiated
    one = iso(t, m, (f[0],), (c[0],), (h[0],), (q[0],), tref)
    later = iso(t + h[0], m, (f[0],), (c[0],), (h[0],), (q[0],), tref)
    g = LN / h[0]
    x1, x2 = g * (t - tref), g * (t + h[0] - tref)
    e1, e2, eh = atoms.exp(x1), atoms.exp(x2), atoms.exp(LN)
    exp_product_axiom(e2, e1, eh, x2, x1, LN)
    CTX.axiom(eq_goal(eh, Q(Fr(1, 2))), 'exp(LOG_HALF) = 1/2 (LOG_HALF = np.log(0.5) in the source)')
    # ... which is an obligation on the module constant itself: LOG_HALF must be defined as np.log(<exactly one half>) in the current source
    import ast as _ast
    from symx.solve import REPO as _REPO
    _src = open(os.path.join(_REPO, 'TidalPy/radiogenics/radiogenic_models.py')).read()
    _arg = None
    for _n in _ast.parse(_src).body:
        if isinstance(_n, _ast.Assign) and getattr(_n.targets[0], 'id', None) == 'LOG_HALF' and isinstance(_n.value, _ast.Call) and _ast.unparse(_n.value.func) in ('np.log', 'log', 'math.log') \
                and len(_n.value.args) == 1:
            try:
                _arg = Fr(_ast.get_source_segment(_src, _n.value.args[0]).strip())
            except (ValueError, ZeroDivisionError):
                _arg = None
    results.append(discharge(Obligation('module constant LOG_HALF is log(1/2) (the value the half-life axiom relies on)', z3.BoolVal(_arg == Fr(1, 2)), [], with_axioms=False, with_dens=False,
                                        replay=replay.fn_replay('TidalPy.radiogenics.radiogenic_models', 'fixed', [5600.0, 1.0, 1.0, 1000.0, 4600.0], lambda val, a: abs(val - 0.5) > 1e-12,
                                                                'fixed(t_ref + half_life, mass=1, production=1, half_life) must be 1/2'), key='const:LOG_HALF')))
    results.append(discharge(Obligation('isotope: a single isotope halves after one half-life', eq_goal(later, one * Fr(1, 2)), pos, replay=rp_iso('half'), key='iso:half')))
    results.append(discharge(Obligation('isotope: heating > 0 for positive inputs', (whole > 0).c, pos, replay=rp_iso('positive'), key='iso:positive')))
    fx = fns['fixed']
    P, hl = Q.sym('P'), Q.sym('hl')
    pos2 = pos + [P.re > 0, hl.re > 0]
    a1 = fx(t, m, P, hl, tref)
    a2 = fx(t + hl, m, P, hl, tref)
    g2 = LN / hl
    y1, y2 = g2 * (t - tref), g2 * (t + hl - tref)
    exp_product_axiom(atoms.exp(y2), atoms.exp(y1), eh, y2, y1, LN)

    def rp_fixed(md):
        tv, mv, tr, Pv, hv = fv(md, 't', 3000.), fv(md, 'mass', 1e22), fv(md, 't_ref', 4600.), fv(md, 'P', 1e-11), fv(md, 'hl', 900.)
        r = replay.call_real([{'module': mod, 'func': 'fixed', 'args': [x, mv, Pv, hv, tr]} for x in (tv, tv + hv, tr)])
        a, b, c_ = (x['value'] for x in r)
        bad = abs(b - a / 2) > 1e-9 * abs(a) or abs(c_ - mv * Pv) > 1e-9 * mv * Pv
        return bad, 'fixed(t)=%r fixed(t+hl)=%r fixed(t_ref)=%r mass*P=%r' % (a, b, c_, mv * Pv)
    results.append(discharge(Obligation('fixed: halves after one average half-life, equals mass*production at t_ref, linear in mass',
                                        z3.And(eq_goal(a2, a1 * Fr(1, 2)), eq_goal(fx(tref, m, P, hl, tref), m * P), eq_goal(fx(t, k * m, P, hl, tref), k * a1)), pos2, replay=rp_fixed, key='fixed')))
    results.append(discharge(Obligation('off: zero heating', eq_goal(fns['off'](t, m), Q(0)), pos, replay=replay.fn_replay(mod, 'off', [('t', 3000.), ('mass', 1e22)], lambda val, a: val != 0, 'radiogenic off'), key='off')))
    results.append(reach_twin('radiogenic', pos2))
    return {'results': results, 'encoded': loader.ENCODED, 'axioms': CTX.axiom_notes, 'label': 'radiogenic'}



# ------------------------------------------------------------------------------------------------ radiogenics: the Radiogenics class (glue between a layer's config and the model)
def job_radiogenic_glue():
    """Radiogenics.__init__ / Radiogenics.reinit of the current source are executed on a stub `self` whose config carries SYMBOLIC isotope entries; the constant arguments are then
    collected from self.config in the order of the model's own `!TPY_args const:` line and fed to the symbolically loaded `isotope`. z3 decides that the heating at an arbitrary time equals
    the model applied to the CURRENT isotope table after the first init, after a second reinit (idempotence) and after the table has been replaced (nothing left over from the old table)."""
    import re, json, subprocess, tempfile
    LN = Q.sym('LOG_HALF')
    mfns, _ = loader.load_py('TidalPy/radiogenics/radiogenic_models.py', ['isotope'], {'np': NP, 'LOG_HALF': LN, 'zip': zip})
    iso = mfns['isotope']
    doc = open(loader.repo_path('TidalPy/radiogenics/radiogenic_models.py')).read()
    m_ = re.search(r'def isotope\(.*?!TPY_args const:\s*([^\n]+)', doc, re.S)
    const_names = [x.strip() for x in m_.group(1).split(',')]

    class _Log:
        def __getattr__(self, k):
            return lambda *a, **kw: None

    class _Self:
        def __getattr__(self, k):            # the read-only properties isos_* of the class return the underscore attributes
            if k.startswith('isos_'):
                return self.__dict__['_' + k]
            raise AttributeError(k)

    class _Super:
        def __init__(self, *a, **kw):
            pass

        def reinit(self, *a, **kw):
            pass
    ns = {'log': _Log(), 'super': lambda *a: _Super(), 'TidalPy': None, 'UnknownModelError': KeyError, 'ParameterMissingError': KeyError, 'type': type, 'list': list, 'str': str}
    fns, _ = loader.load_py('TidalPy/radiogenics/radiogenics.py', ['Radiogenics.__init__', 'Radiogenics.reinit'], ns)
    _Self.reinit = lambda self, initial_init=False: fns['Radiogenics.reinit'](self, initial_init)
    t, m, tref = Q.sym('t'), Q.sym('mass'), Q.sym('t_ref')

    def table(prefix, n):
        rows = {}
        for i in range(n):
            rows['%s%d' % (prefix, i)] = {'iso_mass_fraction': Q.sym('%sf%d' % (prefix, i)), 'element_concentration': Q.sym('%sc%d' % (prefix, i)),
                                          'half_life': Q.sym('%sh%d' % (prefix, i)), 'hpr': Q.sym('%sq%d' % (prefix, i))}
        return rows

    def direct(rows):
        v = list(rows.values())
        return iso(t, m, tuple(x['iso_mass_fraction'] for x in v), tuple(x['element_concentration'] for x in v), tuple(x['half_life'] for x in v), tuple(x['hpr'] for x in v), tref)

    def via_glue(obj):
        return iso(t, m, *[obj.config[k] for k in const_names])
    A_, B_ = table('a', 2), table('b', 1)
    pos = [x.re > 0 for r in list(A_.values()) + list(B_.values()) for x in r.values()] + [m.re > 0, LN.re < 0]
    CTX.facts = list(pos)
    obj = _Self()
    obj.__dict__.update(config={'isotopes': dict(A_), 'ref_time': tref, 'radiogenic_layer_mass_fraction': Q(1)}, model='isotope')
    fns['Radiogenics.__init__'](obj, None, None, True, True)
    g_fresh = eq_goal(via_glue(obj), direct(A_))
    n_fresh = len(obj.config['iso_halflives'])
    obj.reinit()
    g_again = eq_goal(via_glue(obj), direct(A_))
    n_again = len(obj.config['iso_halflives'])
    obj.config['isotopes'] = dict(B_)
    obj.reinit()
    g_repl = eq_goal(via_glue(obj), direct(B_))
    n_repl = len(obj.config['iso_halflives'])

    def rp(md):
        val = lambda k, d: fv(md, k, d)
        A = {'a%d' % i: [val('af%d' % i, 0.001 * (i + 1)), val('ac%d' % i, 0.002 * (i + 1)), val('ah%d' % i, 2.0 + i), val('aq%d' % i, 0.5 / (i + 1))] for i in range(2)}
        Bt = {'b0': [val('bf0', 0.02), val('bc0', 0.004), val('bh0', 3.0), val('bq0', 0.7)]}
        inp = {'A': A, 'B': Bt, 'tref': fv(md, 't_ref', 10.0), 't': fv(md, 't', 11.0)}
        env = dict(os.environ, PYTHONPATH=solve.REPO)
        env.pop('VERIF_TIER', None)
        with tempfile.TemporaryDirectory(prefix='verif_replay_') as td:
            p = subprocess.run([replay.VENV_PY, os.path.join(os.path.dirname(os.path.dirname(os.path.abspath(__file__))), 'replay', 'c19_radiogenics.py')], input=json.dumps(inp),
                               capture_output=True, text=True, cwd=td, env=env, timeout=600)
        if '@@RESULT@@' not in p.stdout:
            raise RuntimeError('c19 radiogenics replay failed: %s' % p.stderr[-1500:])
        out = json.loads(p.stdout.split('@@RESULT@@')[-1])
        bad = [k for k, (a, b) in out.items() if not (abs(a - b) <= 1e-9 * (abs(a) + abs(b)))]
        return bool(bad), 'real Radiogenics object vs model function on the current isotope table: %r' % out
    results = [discharge(Obligation('Radiogenics glue: heating via self.config (order of the model\'s !TPY_args const line) == isotope model on the CURRENT table: fresh, after a second reinit, '
                                    'after the table was replaced; list lengths 2, 2, 1',
                                    z3.And(g_fresh, g_again, g_repl, z3.BoolVal((n_fresh, n_again, n_repl) == (2, 2, 1))), pos, replay=rp, key='glue:reinit')),
               reach_twin('radiogenic glue', pos)]
    return {'results': results, 'encoded': loader.ENCODED, 'label': 'radiogenic glue',
            'axioms': ['stubs: log (no-op), super().__init__/reinit (no-op: the LayerModelHolder/ModelHolder argument builder is outside; its key order is taken from the !TPY_args const line), '
                       'properties isos_* read the underscore attributes; isotope table given as a dict (the pre-built named tables of TidalPy.config are outside)']}

# ------------------------------------------------------------------------------------------------ cooling
COOL_ARGS = ['dT', 'eta', 'k', 'kappa', 'alpha_t', 'L', 'g', 'rho', 'ca', 'cb', 'Rac']


def job_cooling(region1, region2):
    """two copies of convection() (inputs x1 <= x2 in one argument); regions resolve the value-level masks: 'main' (dT > eps, L > 50), 'cold' (0 < dT <= eps, L > 50), 'thin' (L < 50)"""
    consts = loader.module_constants('TidalPy/cooling/cooling_models.py')
    fns, ns = loader.load_py('TidalPy/cooling/cooling_models.py', ['convection', 'conduction', 'off'], {'float_eps': EPS, 'MIN_VISCOSITY': consts['MIN_VISCOSITY'], 'MIN_THICKNESS': consts['MIN_THICKNESS']})
    MT = consts['MIN_THICKNESS']
    shared = {a: Q.sym(a) for a in COOL_ARGS if a not in ('dT', 'eta', 'L')}
    dT1, dT2, eta1, eta2, L = Q.sym('dT1'), Q.sym('dT2'), Q.sym('eta1'), Q.sym('eta2'), Q.sym('L')
    pos = [x.re > 0 for x in shared.values()] + [dT1.re > 0, dT2.re > 0, eta1.re > 0, eta2.re > 0, L.re > 0]

    def reg(name, dT):
        return {'main': [(dT > EPS).c, (L > MT).c], 'cold': [(dT <= EPS).c, (L > MT).c], 'thin': [(L < MT).c]}[name]
    facts = pos + reg(region1, dT1) + reg(region2, dT2)
    CTX.facts = facts

    def conv(dT, eta):
        return fns['convection'](dT, eta, shared['k'], shared['kappa'], shared['alpha_t'], L, shared['g'], shared['rho'], shared['ca'], shared['cb'], shared['Rac'])
    f1 = conv(dT1, eta1)
    f2 = conv(dT2, eta1)     # contrast varies
    f3 = conv(dT1, eta2)     # viscosity varies
    pow_monotone_axioms()
    cond1 = fns['conduction'](dT1, shared['k'], L)
    results = []
    tag = '[%s/%s]' % (region1, region2)
    mod = 'TidalPy.cooling.cooling_models'

    def rp(kind):
        def r_(md):
            # the power atom (Ra/Ra_c)**beta is uninterpreted: after the model point the same claim is evaluated on the real function at generic points (weakly and strongly convecting
            # layers, both sides of the dT guard) with typical parameters; confirmation only
            defaults = (('k', 3.5), ('kappa', 1e-6), ('alpha_t', 3e-5), ('L', 2e5), ('g', 5.), ('rho', 3300.), ('ca', 1.), ('cb', 1. / 3), ('Rac', 1100.))
            cands = [({a: fv(md, a, d) for a, d in defaults}, fv(md, 'dT1', 100.), fv(md, 'dT2', 200.), fv(md, 'eta1', 1e20), fv(md, 'eta2', 1e21))]
            for d1_, d2_, e1_, e2_ in ((100., 200., 1e20, 1e21), (462., 463., 1e21, 1.1e21), (300., 301., 6.46e20, 6.61e20), (50., 900., 1e19, 1e23), (1e-17, 1e-3, 1e20, 1e21), (5., 6., 1e22, 2e22)):
                cands.append((dict(defaults), d1_, d2_, e1_, e2_))
            first = None
            for p, d1, d2, e1, e2 in cands:
                ok, detail = one_(kind, p, d1, d2, e1, e2)
                if first is None:
                    first = (ok, detail)
                if ok:
                    return ok, detail
            return first

        def one_(kind, p, d1, d2, e1, e2):
            cv = lambda dT, eta: {'module': mod, 'func': 'convection', 'args': [dT, eta, p['k'], p['kappa'], p['alpha_t'], p['L'], p['g'], p['rho'], p['ca'], p['cb'], p['Rac']]}
            r = replay.call_real([cv(d1, e1), cv(d2, e1), cv(d1, e2), {'module': mod, 'func': 'conduction', 'args': [d1, p['k'], p['L']]}])
            if not all(x['ok'] for x in r):
                return True, 'raised %r' % [x.get('error') for x in r]
            a, b, c_, cd = (x['value'][0] for x in r)
            tol = 1e-12
            if kind == 'positive':
                return not (a > 0), 'convection flux %r at dT=%r' % (a, d1)
            if kind == 'dT':
                return d1 <= d2 and a > b * (1 + tol), 'flux(dT=%r)=%r > flux(dT=%r)=%r (L=%r)' % (d1, a, d2, b, p['L'])
            if kind == 'eta':
                return e1 <= e2 and c_ > a * (1 + tol), 'flux(eta=%r)=%r < flux(eta=%r)=%r' % (e1, a, e2, c_)
            if kind == 'cond_mono':
                r2 = replay.call1(mod, 'conduction', d2, p['k'], p['L'])
                return (not cd > 0) or (d1 <= d2 and r2['value'][0] < cd * (1 - tol)), 'conduction flux(dT=%r)=%r, flux(dT=%r)=%r' % (d1, cd, d2, r2['value'][0])
            if kind == 'cond':
                return a < cd * (1 - tol), 'convection %r < conduction %r at dT=%r L=%r' % (a, cd, d1, p['L'])
        return r_
    A = facts + [shared['cb'].re < 1]
    if region1 == region2:
        results.append(discharge(Obligation('convection %s: flux > 0 for dT > 0' % tag, (f1[0] > 0).c, A, replay=rp('positive'), key='conv:positive:%s' % region1)))
        results.append(discharge(Obligation('convection %s: non-increasing in viscosity' % tag, (f3[0] <= f1[0]).c, A + [(eta1 <= eta2).c], replay=rp('eta'), key='conv:eta:%s' % region1)))
        results.append(discharge(Obligation('convection %s: carries at least the conductive flux of the same layer' % tag, (f1[0] >= cond1[0]).c, A + ([(L >= 1).c] if region1 == 'cold' else []),
                                            replay=rp('cond'), key='conv:cond:%s' % region1)))
        results.append(discharge(Obligation('conduction: flux > 0 and non-decreasing in dT', z3.And((cond1[0] > 0).c, (fns['conduction'](dT2, shared['k'], L)[0] >= cond1[0]).c), A + [(dT1 <= dT2).c],
                                            replay=rp('cond_mono'), key='cond:mono')))
    results.append(discharge(Obligation('convection %s: non-decreasing in the temperature contrast (dT1 <= dT2, dT1 in %s region, dT2 in %s region)' % (tag, region1, region2),
                                        (f1[0] <= f2[0]).c, A + [(dT1 <= dT2).c], replay=rp('dT'), key='conv:dT:%s/%s' % (region1, region2))))
    results.append(reach_twin('cooling ' + tag, A + [(dT1 <= dT2).c]))
    return {'results': results, 'encoded': loader.ENCODED, 'axioms': CTX.axiom_notes, 'label': 'cooling ' + tag}


# ------------------------------------------------------------------------------------------------ viscosity
def job_viscosity():
    Rg = Q.sym('R_gas')
    fns, ns = loader.load_py('TidalPy/rheology/viscosity/viscosity_models.py', ['arrhenius', 'reference', 'constant'], {'np': NP, 'R': Rg, 'float_lognat_max': LOGNAT_MAX})
    T1, T2, P = Q.sym('T1'), Q.sym('T2'), Q.sym('P')
    A_, s, n_, d, p_, E, V, eta0, Tref = [Q.sym(x) for x in ('A', 'stress', 'n_expo', 'grain', 'p_expo', 'E', 'V', 'eta_ref', 'T_ref')]
    pos = [x.re > 0 for x in (T1, T2, A_, s, d, E, eta0, Tref, Rg)] + [P.re >= 0, V.re >= 0, (T1 <= T2).c]
    CTX.facts = list(pos)
    results = []
    mod = 'TidalPy.rheology.viscosity.viscosity_models'

    def rp(which):
        def r_(md):
            t1, t2 = fv(md, 'T1', 1400.), fv(md, 'T2', 1600.)
            if t1 > t2:
                t1, t2 = t2, t1
            Pv, Ev, Vv = fv(md, 'P', 1e9), fv(md, 'E', 3e5), fv(md, 'V', 1e-6)
            if which in ('arrhenius', 'arrhenius_pos'):
                mk = lambda T: {'module': mod, 'func': 'arrhenius', 'args': [T, Pv, fv(md, 'A', 1e9), False, fv(md, 'stress', 1.), fv(md, 'n_expo', 1.), fv(md, 'grain', 1e-3), fv(md, 'p_expo', 2.), Ev, Vv]}
            else:
                mk = lambda T: {'module': mod, 'func': 'reference', 'args': [T, Pv, fv(md, 'eta_ref', 1e20), fv(md, 'T_ref', 1500.), Ev, Vv]}
            r = replay.call_real([mk(t1), mk(t2)])
            a, b = r[0]['value'], r[1]['value']
            if which == 'arrhenius_pos':
                return not (a > 0), 'arrhenius viscosity(T=%r) = %r' % (t1, a)
            return b > a * (1 + 1e-12), '%s viscosity(T=%r)=%r < viscosity(T=%r)=%r' % (which, t1, a, t2, b)
        return r_
    v1 = fns['arrhenius'](T1, P, A_, False, s, n_, d, p_, E, V)
    v2 = fns['arrhenius'](T2, P, A_, False, s, n_, d, p_, E, V)
    results.append(discharge(Obligation('arrhenius (no extra T factor): viscosity non-increasing in temperature, including across the exponent clamps', (v2 <= v1).c, pos, replay=rp('arrhenius'),
                                        key='visc:arrhenius')))
    results.append(discharge(Obligation('arrhenius: viscosity > 0', (v1 > 0).c, pos, replay=rp('arrhenius_pos'), key='visc:arrhenius:pos')))
    r1 = fns['reference'](T1, P, eta0, Tref, E, V)
    r2 = fns['reference'](T2, P, eta0, Tref, E, V)
    results.append(discharge(Obligation('reference: viscosity non-increasing in temperature, including across the exponent clamps', (r2 <= r1).c, pos, replay=rp('reference'), key='visc:reference')))
    results.append(discharge(Obligation('reference: viscosity(T_ref) == reference viscosity', eq_goal(fns['reference'](Tref, P, eta0, Tref, E, V), eta0), pos,
                                        replay=replay.fn_replay(mod, 'reference', [('T_ref', 1500.), ('P', 1e9), ('eta_ref', 1e20), ('T_ref', 1500.), ('E', 3e5), ('V', 1e-6)], lambda val, a: abs(val - a[2]) > 1e-9 * a[2], 'reference law at T_ref'), key='visc:reference:ref')))
    results.append(discharge(Obligation('constant: returns the reference viscosity', eq_goal(fns['constant'](T1, P, eta0), eta0), pos, replay=replay.fn_replay(mod, 'constant', [('T1', 1400.), ('P', 1e9), ('eta_ref', 1e20)], lambda val, a: val != a[2], 'constant law'), key='visc:constant')))
    results.append(reach_twin('viscosity', pos))
    return {'results': results, 'encoded': loader.ENCODED, 'axioms': CTX.axiom_notes, 'label': 'viscosity'}


# ------------------------------------------------------------------------------------------------ melting
HEN_DEF = dict(T=1700., eta0=1e19, etal=1.0, mu0=6e10, sol=1600., liq=2000., mul=1e-5, cm=0.5, cw=0.05, s1=13.5, s2=370., p1=40000., p2=25., sf=700.)


def job_melting():
    fns, ns = loader.load_py('TidalPy/rheology/partial_melt/melting_models.py', ['off', 'spohn', 'henning'], {'np': NP})
    names = ['T', 'eta0', 'etal', 'mu0', 'sol', 'liq', 'mul', 'cm', 'cw', 's1', 's2', 'p1', 'p2', 'sf']
    v = {n: Q.sym(n) for n in names}
    f1, f2 = Q.sym('phi1'), Q.sym('phi2')
    pos = [v[n].re > 0 for n in names] + [(v['liq'] > v['sol']).c, f1.re >= 0, f2.re <= 1, (f1 <= f2).c, v['cm'].re < 1]
    CTX.facts = list(pos)
    hen = fns['henning']

    def call(phi):
        return hen(phi, v['T'], v['eta0'], v['etal'], v['mu0'], v['sol'], v['liq'], v['mul'], v['cm'], v['cw'], v['s1'], v['s2'], v['p1'], v['p2'], v['sf'])
    (v1, m1), (v2, m2) = call(f1), call(f2)
    mod = 'TidalPy.rheology.partial_melt.melting_models'

    def rp(kind):
        def r_(md):
            # exp atoms are uninterpreted: the solver's point need not be realisable by the real exp. The claim is re-evaluated on the real function at the model point and then at
            # generic points around both branch boundaries with the shipped default parameters (confirmation only; the verdict is the solver's)
            cands = [({n: fv(md, n, HEN_DEF[n]) for n in names}, fv(md, 'phi1', 0.2), fv(md, 'phi2', 0.7))]
            cm_, cw_ = HEN_DEF['cm'], HEN_DEF['cw']
            for a_, b_ in ((cm_ - 0.01, cm_ + 0.2 * cw_), (0.6 * cm_, cm_ + 0.5 * cw_), (cm_ + 0.1 * cw_, cm_ + 0.9 * cw_), (cm_ + 0.9 * cw_, cm_ + 1.2 * cw_), (0.1, 0.8 * cm_), (0.0, 0.05)):
                cands.append((dict(HEN_DEF), a_, b_))
            first = None
            for p, a, b in cands:
                ok, detail = one_(kind, p, a, b)
                if first is None:
                    first = (ok, detail)
                if ok:
                    return ok, detail
            return first

        def one_(kind, p, a, b):
            mk = lambda phi: {'module': mod, 'func': 'henning', 'args': [phi, p['T'], p['eta0'], p['etal'], p['mu0'], p['sol'], p['liq'], p['mul'], p['cm'], p['cw'], p['s1'], p['s2'], p['p1'], p['p2'], p['sf']]}
            r = replay.call_real([mk(a), mk(b), mk(0.0)])
            if not all(x['ok'] for x in r):
                return True, 'raised'
            (va, ma), (vb, mb), (v0, m0) = (x['value'] for x in r)
            if kind == 'mono':
                return a <= b and vb > va * (1 + 1e-12), 'viscosity(phi=%r)=%r < viscosity(phi=%r)=%r' % (a, va, b, vb)
            if kind == 'floor':
                return va < p['etal'] or ma < p['mul'], 'henning(%r) = (%r, %r) below liquid values (%r, %r)' % (a, va, ma, p['etal'], p['mul'])
            if kind == 'beyond':
                return b > p['cm'] + p['cw'] and (abs(vb - p['etal']) > 1e-12 * p['etal'] or abs(mb - p['mul']) > 1e-12 * p['mul']), \
                    'beyond the window (phi=%r > %r): (viscosity, shear) = (%r, %r), liquid values (%r, %r)' % (b, p['cm'] + p['cw'], vb, mb, p['etal'], p['mul'])
            if kind == 'zero':
                return abs(v0 - max(p['eta0'], p['etal'])) > 1e-12 * v0 or abs(m0 - max(p['mu0'], p['mul'])) > 1e-12 * m0, 'henning(0) = (%r, %r), pre-melt (%r, %r)' % (v0, m0, p['eta0'], p['mu0'])
        return r_
    results = []
    results.append(discharge(Obligation('henning: viscosity non-increasing in melt fraction on [0,1], including across both branch boundaries', (v2 <= v1).c, pos, replay=rp('mono'), key='hen:mono')))
    results.append(discharge(Obligation('henning: viscosity >= liquid viscosity and shear >= liquid shear', z3.And((v1 >= v['etal']).c, (m1 >= v['mul']).c), pos, replay=rp('floor'), key='hen:floor')))
    results.append(discharge(Obligation('henning: beyond the critical melt window viscosity == liquid viscosity', eq_goal(v2, v['etal']), pos + [(f2 > v['cm'] + v['cw']).c], replay=rp('beyond'),
                                        key='hen:beyond:viscosity')))
    results.append(discharge(Obligation('henning: beyond the critical melt window shear == liquid shear', eq_goal(m2, v['mul']), pos + [(f2 > v['cm'] + v['cw']).c], replay=rp('beyond'),
                                        key='hen:beyond:shear')))
    results.append(discharge(Obligation('henning: zero melt fraction returns the pre-melt values', z3.And(eq_goal(v1, v['eta0']), eq_goal(m1, v['mu0'])),
                                        pos + [f1.re == 0, (v['eta0'] >= v['etal']).c, (v['mu0'] >= v['mul']).c], replay=rp('zero'), key='hen:zero')))
    # spohn
    sp = fns['spohn']
    a_, b_, c_, d_ = [Q.sym(x) for x in ('sa', 'sb', 'sc', 'sd')]
    sv, sm = sp(f1, v['T'], v['etal'], v['mul'], a_, b_, c_, d_)
    results.append(discharge(Obligation('spohn: viscosity >= liquid viscosity and shear >= liquid shear', z3.And((sv >= v['etal']).c, (sm >= v['mul']).c), pos + [a_.re > 0, c_.re > 0],
                                        replay=replay.fn_replay(mod, 'spohn', [('phi1', 0.2), ('T', 1700.), ('etal', 1.0), ('mul', 1e-5), ('sa', 1.0), ('sb', 1.0), ('sc', 1.0), ('sd', 1.0)], lambda val, a: val[0] < a[2] or val[1] < a[3], 'spohn floor'), key='spohn:floor')))
    ov, om = fns['off'](f1, v['eta0'], v['mu0'])
    results.append(discharge(Obligation('off: returns the pre-melt values', z3.And(eq_goal(ov, v['eta0']), eq_goal(om, v['mu0'])), pos, replay=replay.fn_replay(mod, 'off', [('phi1', 0.2), ('eta0', 1e20), ('mu0', 5e10)], lambda val, a: val[0] != a[1] or val[1] != a[2], 'melting off'), key='melt:off')))
    results.append(reach_twin('melting', pos + [(f2 > v['cm'] + v['cw']).c]))
    return {'results': results, 'encoded': loader.ENCODED, 'axioms': CTX.axiom_notes, 'label': 'melting'}


def main():
    jobs = [(job_radiogenic, {}), (job_radiogenic_glue, {}), (job_viscosity, {}), (job_melting, {})]
    for r1, r2 in (('main', 'main'), ('cold', 'cold'), ('thin', 'thin'), ('cold', 'main')):
        jobs.append((job_cooling, {'region1': r1, 'region2': r2}))
    meta = {
        'explanation': 'Every function of the four model files is executed from the current source. exp / x**b are atoms with instantiated axioms (positivity, pairwise monotonicity, exp(0)=1, '
                       'x<=0 => exp x<=1, the functional equation for the half-life step, exp(LOG_HALF)=1/2); value-level masks are resolved per stated region and monotonicity is asserted inside '
                       'each region and across region boundaries with two symbolic copies of the inputs.',
        'bounds': 'two copies (x1 <= x2) per monotonicity claim; 3 isotopes; cooling regions main (dT > eps, L > 50 m), cold (0 < dT <= eps), thin (L < 50 m) and cold->main.',
        'outside': 'arrhenius with additional_temp_dependence=True (T*exp(c/T) is not monotone for T > c); L exactly 50 m; floating point.',
        'assumptions': ['all physical parameters > 0', 'convection_beta in (0,1)', 'conduction comparison in the cold region for layers thicker than 1 m'],
        'stubs': ['np.exp, ** -> atoms with axioms', 'np.log(0.5) -> symbol LOG_HALF < 0 with exp(LOG_HALF) = 1/2', 'scipy.constants.R -> positive symbol'],
    }
    solve.run_check(PID, jobs, meta)


if __name__ == '__main__':
    main()
